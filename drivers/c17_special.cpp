// C17 stage "special": chrono durations, bitsets, enums (integer-backed, JSONCONS_ENUM_TRAITS, JSONCONS_ENUM_NAME_TRAITS).
#include "c17/typed.hpp"
#include "c17/types_enum.hpp"
static_assert(C17_SHARED_REV == 10, "drivers/c17/*.hpp changed: bump the revision here so that the build cache is invalidated");
using namespace c17;
namespace ch = std::chrono;

int main(int argc, char** argv) {
    std::vector<TypeEntry> t = {
        entry<ch::duration<int64_t>>(), entry<ch::duration<int64_t, std::milli>>(), entry<ch::duration<int64_t, std::nano>>(),
        entry<ch::duration<double>>(), entry<ch::duration<double, std::nano>>(), entry<ch::duration<int32_t, std::milli>>(), entry<ch::duration<int32_t>>(),
        entry<std::optional<ch::duration<int64_t, std::milli>>>(), entry<std::vector<ch::duration<int64_t>>>(),
        entry<std::bitset<1>>(), entry<std::bitset<8>>(), entry<std::bitset<12>>(), entry<std::bitset<64>>(), entry<std::bitset<70>>(), entry<std::bitset<130>>(),
        entry<std::vector<std::bitset<12>>>(),
        entry<c17t::Plain>(), entry<c17t::Color>(), entry<c17t::Level>(), entry<c17t::Mode>(), entry<std::optional<c17t::Color>>(),
        entry<std::vector<c17t::Level>>(), entry<std::map<std::string, c17t::Color>>(),
    };
    // std::chrono::microseconds (any period other than 1, milli, nano) has no json_traits; duration<double,std::milli> does not compile in try_as
    return run_table(argc, argv, t, {"json_traits.duration<int64,us>", "as.duration<double,ms>"});
}
