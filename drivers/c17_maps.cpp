// C17 stage "maps": map / unordered_map / multimap with string and integer keys, nested containers of containers,
// optional / smart pointers / variants of and in containers.
#include "c17/typed.hpp"
static_assert(C17_SHARED_REV == 10, "drivers/c17/*.hpp changed: bump the revision here so that the build cache is invalidated");
using namespace c17;
using std::vector; using std::string; using std::map; using std::unordered_map; using std::optional;

int main(int argc, char** argv) {
    std::vector<TypeEntry> t = {
        entry<map<string, int32_t>>(), entry<map<string, string>>(), entry<map<string, double>>(), entry<map<string, uint64_t>>(),
        entry<map<string, vector<int32_t>>>(), entry<map<string, vector<string>>>(), entry<map<string, map<string, int32_t>>>(), entry<map<string, optional<int32_t>>>(),
        entry<unordered_map<string, int64_t>>(), entry<std::multimap<string, int32_t>>(),
        entry<map<int32_t, string>>(), entry<map<int64_t, double>>(), entry<map<uint16_t, int32_t>>(), entry<map<int8_t, bool>>(),
        entry<unordered_map<int32_t, vector<int32_t>>>(), entry<map<int32_t, map<int32_t, int32_t>>>(), entry<std::multimap<int32_t, string>>(),
        entry<vector<map<string, vector<optional<int32_t>>>>>(), entry<map<string, vector<map<string, int32_t>>>>(), entry<vector<map<string, int32_t>>>(),
        entry<map<string, std::pair<int32_t, string>>>(), entry<map<string, std::tuple<int32_t, bool>>>(), entry<map<string, std::variant<int64_t, string>>>(),
        entry<map<string, std::shared_ptr<int32_t>>>(), entry<map<string, std::array<int32_t, 2>>>(),
        entry<optional<vector<int32_t>>>(), entry<optional<map<string, string>>>(), entry<std::shared_ptr<vector<string>>>(), 
        entry<vector<std::shared_ptr<string>>>(), entry<vector<std::unique_ptr<int32_t>>>(),
    };
    // json(std::unique_ptr<T>) needs json(T, semantic_tag): only scalars and strings compile (json_traits.hpp, unique_ptr to_json)
    return run_table(argc, argv, t, {"to_json.unique_ptr<map<string,int32>>", "to_json.unique_ptr<class>"});
}
