// C17 stage "wide": std::wstring - a string whose character type differs from the character type of the narrow encoders / basic_json -
// as a scalar, in containers, optionals, tuples and macro-described classes.  Every value goes through the common checks of
// c17/typed.hpp (narrow JSON text, CBOR, MessagePack, UBJSON, BSON; basic_json route; same value; try_ variants; shape damage) and, where the
// routes compile, additionally through the wide character routes: encode_json into std::wstring / decode_json from std::wstring, and
// wjson(t) / wjson::as<T>().
#include "c17/typed.hpp"
#include "c17/types_wide.hpp"
using namespace c17;
using jsoncons::wjson;

namespace {

// the wide text must be the narrow text's value: both are compared as narrow basic_json (the reference conversion is the monitor's own)
std::string diff_wide_text(const std::wstring& w, const json& expected) {
    json got;
    Err e;
    if (!guarded_call([&] { got = json::parse(narrow_utf8(w)); }, e)) return "wide text is not valid JSON after conversion to UTF-8: " + e.what;
    CmpCfg cfg; cfg.ordered_objects = false; cfg.tags = false; cfg.zero_sign = false;     // JSON text carries no tags; sign of zero is not judged in text
    return strict_diff(got, expected, cfg);
}

template <class T, bool WideRoutes> void run_wide(Rng& r) {
    using X = Tr<T>;
    const std::string fam = X::name();
    TypedImpl<T> v(X::gen(r, 0));
    check_value(r, v);                                   // all narrow routes, all formats, damages
    if constexpr (!WideRoutes) { H.count_("uncompilable.wide-routes." + fam); return; }
    else {
        const T& t = v.t;
        json j; Err e0;
        if (!guarded_call([&] { j = json(t); }, e0)) return;      // reported by check_value
        const std::string text = clip(j.to_string(), 3000);
        set_flight_desc("wide " + fam + " " + text);
        auto bad = [&](const char* check, const std::string& got, const Err* e) {
            if (e && !e->lib) foreign(std::string(check) + "/" + fam, *e, text);
            J d; d.str("type", fam).str("value", text).str("got", got);
            if (e) d.str("error", e->what).str("error_type", e->type);
            H.violation(std::string("typed/") + check + "/" + fam, d.done());
        };
        // ---- streaming route with wchar_t text
        std::wstring w1; Err e;
        H.count_("check.wide.encode-stream");
        bool have1 = guarded_call([&] { jsoncons::encode_json(t, w1); }, e);
        if (!have1) bad("encode-failed/stream/wjson-text", "", &e);
        if (have1) {
            std::string d = diff_wide_text(w1, j);
            if (!d.empty()) bad("routes-differ/value/wjson-text-vs-json", d + " | wide text as UTF-8: " + clip(narrow_utf8(w1), 600), nullptr);
            std::wstring w3; bool ok3 = false; Err e3;
            if (!guarded_call([&] { auto wr = jsoncons::try_encode_json(t, w3); ok3 = (bool)wr; }, e3) || !ok3 || w3 != w1) bad("try-disagrees/encode/wjson-text", ok3 ? "different text" : "error", &e3);
            H.count_("check.wide.roundtrip-stream");
            int rc = R_ERROR; Err ed;
            guarded_call([&] { T got = jsoncons::decode_json<T>(w1); rc = X::eq(got, t) ? R_EQUAL : R_DIFFERENT; if (rc == R_DIFFERENT) ed.what = show_value(got); }, ed);
            if (rc != R_EQUAL) bad("roundtrip/stream/wjson-text", rc == R_DIFFERENT ? ed.what : "error", rc == R_ERROR ? &ed : nullptr);
            int rt = R_ERROR; Err et;
            if (!guarded_call([&] { auto rr = jsoncons::try_decode_json<T>(w1); if (rr) rt = X::eq(*rr, t) ? R_EQUAL : R_DIFFERENT; }, et)) rt = R_TRY_THREW;
            if (rt != rc) bad("try-disagrees/decode/wjson-text", "outcome " + std::to_string(rt) + " vs " + std::to_string(rc), rt == R_TRY_THREW ? &et : nullptr);
        }
        // ---- the narrow encoding, widened by the monitor, must decode to the same value through the wide decoder (and vice versa)
        {
            std::string s1; Err en;
            if (guarded_call([&] { jsoncons::encode_json(t, s1); }, en)) {
                H.count_("check.wide.cross-decode");
                int rc = R_ERROR; Err ed; std::wstring ws = widen_utf8(s1);
                guarded_call([&] { T got = jsoncons::decode_json<T>(ws); rc = X::eq(got, t) ? R_EQUAL : R_DIFFERENT; if (rc == R_DIFFERENT) ed.what = show_value(got); }, ed);
                if (rc != R_EQUAL) bad("roundtrip/cross/json-text-widened", rc == R_DIFFERENT ? ed.what : "error", rc == R_ERROR ? &ed : nullptr);
                if (have1) {
                    int rc2 = R_ERROR; Err ed2; std::string ns = narrow_utf8(w1);
                    guarded_call([&] { T got = jsoncons::decode_json<T>(ns); rc2 = X::eq(got, t) ? R_EQUAL : R_DIFFERENT; if (rc2 == R_DIFFERENT) ed2.what = show_value(got); }, ed2);
                    if (rc2 != R_EQUAL) bad("roundtrip/cross/wjson-text-narrowed", rc2 == R_DIFFERENT ? ed2.what : "error", rc2 == R_ERROR ? &ed2 : nullptr);
                }
            }
        }
        // ---- basic_json<wchar_t> route
        wjson jw; Err ew;
        H.count_("check.wide.wjson-route");
        if (!guarded_call([&] { jw = wjson(t); }, ew)) { bad("to_json-failed/basic_wjson", "", &ew); return; }
        {
            int rc = R_ERROR; Err ea;
            guarded_call([&] { T got = jw.template as<T>(); rc = X::eq(got, t) ? R_EQUAL : R_DIFFERENT; if (rc == R_DIFFERENT) ea.what = show_value(got); }, ea);
            if (rc != R_EQUAL) bad("roundtrip/as/basic_wjson", rc == R_DIFFERENT ? ea.what : "error", rc == R_ERROR ? &ea : nullptr);
            int rt = R_ERROR; Err et;
            if (!guarded_call([&] { auto rr = jw.template try_as<T>(); if (rr) rt = X::eq(*rr, t) ? R_EQUAL : R_DIFFERENT; }, et)) rt = R_TRY_THREW;
            if (rt != rc) bad("try-disagrees/as/basic_wjson", "outcome " + std::to_string(rt) + " vs " + std::to_string(rc), rt == R_TRY_THREW ? &et : nullptr);
        }
        std::wstring w2; Err e2;
        if (!guarded_call([&] { jsoncons::encode_json(jw, w2); }, e2)) { bad("encode-failed/json-route/wjson-text", "", &e2); return; }
        {
            std::string d = diff_wide_text(w2, j);
            if (!d.empty()) bad("routes-differ/value/wjson-route-vs-json", d + " | wide text as UTF-8: " + clip(narrow_utf8(w2), 600), nullptr);
            if (have1 && w2 != w1) {
                H.count_("check.wide.roundtrip-json-route");
                int rc = R_ERROR; Err ed;
                guarded_call([&] { T got = jsoncons::decode_json<T>(w2); rc = X::eq(got, t) ? R_EQUAL : R_DIFFERENT; if (rc == R_DIFFERENT) ed.what = show_value(got); }, ed);
                if (rc != R_EQUAL) bad("roundtrip/json-route/wjson-text", rc == R_DIFFERENT ? ed.what : "error", rc == R_ERROR ? &ed : nullptr);
            } else H.count_("check.wide.json-route-same-text");
        }
        // ---- shape damage through the wide routes (one per value): same sites as the narrow machinery
        if (!X::judgeable(t)) return;
        Walk w(r);
        w.wide = true;
        X::sites(t, j, w);
        if (w.res.empty()) return;
        auto it = w.res.begin(); std::advance(it, (long)r.below(w.res.size()));
        const Site& s = it->second.second;
        json d = j;
        if (!apply_site(d, s)) return;
        std::string dtext; d.dump(dtext);
        std::wstring wd = widen_utf8(dtext);
        set_flight_desc("wide damage " + fam + " " + s.kind + " " + clip(dtext, 3000));
        H.count_("damage-at.wide." + s.kind + "." + s.expected_cpp);
        const bool compare = s.ex != Expect::Reject;
        auto outcome = [&](auto&& produce, Err& err) -> int {
            int rc = R_ERROR;
            guarded_call([&] { T got = produce(); rc = !compare ? R_ACCEPTED : X::eq(got, t) ? R_EQUAL : R_DIFFERENT; }, err);
            return rc;
        };
        Err es, ea;
        int rs = outcome([&] { return jsoncons::decode_json<T>(wd); }, es);
        if (rs == R_ERROR && !es.lib) foreign("mismatch-decode/wjson-text/" + s.kind + "/" + s.expected_cpp, es, dtext);
        int ra = outcome([&] { return wjson::parse(wd).template as<T>(); }, ea);
        if (ra == R_ERROR && !ea.lib) foreign("mismatch-as/basic_wjson/" + s.kind + "/" + s.expected_cpp, ea, dtext);
        if (s.ex == Expect::Reject) {
            // absent optional / null pointer positions take their masks from the narrow traits of the pointee: not judged through the wide routes
            const bool judge_as_wide = s.expected_cpp != "optional" && s.expected_cpp != "pointer";
            if (judge_as_wide && s.judge_stream && rs != R_ERROR) H.violation("typed/mismatch/accepted/decode/wjson-text/" + s.kind + "/" + s.expected_cpp, J().str("type", fam).str("damaged", clip(dtext)).str("at", path_str(s.path)).done());
            else H.count_(std::string("damage.wide.decode.") + (rs == R_ERROR ? "rejected" : "unjudged-accepted"));
            if (judge_as_wide && s.judge_as && ra != R_ERROR) H.violation("typed/mismatch/accepted/as/basic_wjson/" + s.kind + "/" + s.expected_cpp, J().str("type", fam).str("damaged", clip(dtext)).str("at", path_str(s.path)).done());
            else H.count_(std::string("damage.wide.as.") + (ra == R_ERROR ? "rejected" : "unjudged-accepted"));
        } else if (s.ex == Expect::Same) {
            if (rs != R_EQUAL) H.violation(std::string("typed/benign/") + (rs == R_ERROR ? "rejected" : "changed") + "/decode/wjson-text/" + s.kind + "/" + s.expected_cpp, J().str("type", fam).str("damaged", clip(dtext)).str("error", es.what).done());
            if (ra != R_EQUAL) H.violation(std::string("typed/benign/") + (ra == R_ERROR ? "rejected" : "changed") + "/as/basic_wjson/" + s.kind + "/" + s.expected_cpp, J().str("type", fam).str("damaged", clip(dtext)).str("error", ea.what).done());
            if (rs == R_EQUAL && ra == R_EQUAL) H.count_("benign.ok.wide." + s.kind);
        } else if ((rs == R_ERROR) != (ra == R_ERROR)) {
            H.violation("typed/mismatch/routes-disagree/wjson/" + s.kind + "/" + s.expected_cpp, J().str("type", fam).str("damaged", clip(dtext)).boolean("decode_ok", rs != R_ERROR).boolean("as_ok", ra != R_ERROR).done());
        }
    }
}

template <class T, bool WideRoutes = true> TypeEntry wentry() { return TypeEntry{Tr<T>::name(), &run_wide<T, WideRoutes>}; }

} // namespace

int main(int argc, char** argv) {
    using std::wstring; using std::string;
    std::vector<TypeEntry> t = {
        wentry<wstring>(), wentry<std::vector<wstring>>(), wentry<std::optional<wstring>>(), wentry<std::tuple<wstring, int32_t>>(), wentry<std::shared_ptr<wstring>>(),
        wentry<std::set<wstring>>(), wentry<std::pair<wstring, wstring>>(), wentry<c17t::Wide>(), wentry<std::vector<c17t::Wide>>(),
        // map keys have the character type of the basic_json / encoder: a std::string-keyed map does not compile with wjson or a wide encoder
        wentry<std::map<string, wstring>, false>(),
        // the *_NAME_TRAITS macros take the member names as literals of one character type: narrow names do not compile with wjson
        wentry<c17t::WideName, false>(),
    };
    // not compilable at all (recorded only): std::u16string / std::u32string (json_traits: "to_json not implemented"), and std::map<std::wstring,V>
    // with the narrow routes (encode_traits passes the wide key to basic_json_visitor<char>::key)
    return run_table(argc, argv, t, {"json_traits.u16string", "json_traits.u32string", "narrow-routes.map<wstring,int32>"});
}
