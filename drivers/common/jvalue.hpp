// jsoncons-aware helpers shared by drivers: data-model value generator (DESIGN §2.4),
// strict structural compare (never relies on basic_json::operator==), typed description.
#ifndef VERIF_JVALUE_HPP
#define VERIF_JVALUE_HPP

#include "harness.hpp"
#include <jsoncons/json.hpp>
#include <cmath>
#include <limits>

namespace vf {

using jsoncons::semantic_tag;
using jsoncons::json_type;

// ---------- strings --------------------------------------------------------------
inline void put_utf8(std::string& s, uint32_t cp) {
    if (cp < 0x80) s.push_back((char)cp);
    else if (cp < 0x800) { s.push_back((char)(0xC0 | (cp >> 6))); s.push_back((char)(0x80 | (cp & 0x3F))); }
    else if (cp < 0x10000) { s.push_back((char)(0xE0 | (cp >> 12))); s.push_back((char)(0x80 | ((cp >> 6) & 0x3F))); s.push_back((char)(0x80 | (cp & 0x3F))); }
    else { s.push_back((char)(0xF0 | (cp >> 18))); s.push_back((char)(0x80 | ((cp >> 12) & 0x3F))); s.push_back((char)(0x80 | ((cp >> 6) & 0x3F))); s.push_back((char)(0x80 | (cp & 0x3F))); }
}

inline uint32_t gen_scalar(Rng& r) {
    static const uint32_t boundary[] = {0x00, 0x01, 0x08, 0x09, 0x0A, 0x0C, 0x0D, 0x1F, 0x20, 0x22, 0x2F, 0x5C, 0x7E, 0x7F, 0x80, 0x9F, 0xA0,
        0x7FF, 0x800, 0x2028, 0x2029, 0xD7FF, 0xE000, 0xFDD0, 0xFFFD, 0xFFFE, 0xFFFF, 0x10000, 0x1F600, 0x1FFFF, 0x10FFFE, 0x10FFFF};
    switch (r.below(8)) {
    case 0: return r.pick(boundary);
    case 1: return (uint32_t)r.below(0x20);                       // C0 controls
    case 2: return 0x80 + (uint32_t)r.below(0x800 - 0x80);        // 2-byte
    case 3: { uint32_t c = 0x800 + (uint32_t)r.below(0x10000 - 0x800); if (c >= 0xD800 && c <= 0xDFFF) c = 0xE000 + (c & 0xFF); return c; }
    case 4: return 0x10000 + (uint32_t)r.below(0x110000 - 0x10000);
    default: return 0x20 + (uint32_t)r.below(0x5F);               // printable ASCII
    }
}

inline size_t gen_len(Rng& r, size_t cap) {
    static const size_t b[] = {0, 1, 2, 3, 7, 8, 15, 16, 22, 23, 24, 25, 31, 32, 33, 63, 64, 255, 256, 257};
    size_t n;
    switch (r.below(6)) {
    case 0: n = r.pick(b); break;
    case 1: n = r.below(40); break;
    default: n = r.below(9); break;
    }
    return n > cap ? cap : n;
}

// Valid UTF-8 string; `n` counts code points.
inline std::string gen_string(Rng& r, size_t cap = 300) {
    size_t n = gen_len(r, cap);
    std::string s;
    unsigned style = (unsigned)r.below(5);
    for (size_t i = 0; i < n; ++i) {
        if (style == 0) s.push_back((char)('a' + r.below(26)));
        else if (style == 1) put_utf8(s, 0x20 + (uint32_t)r.below(0x5F));
        else put_utf8(s, gen_scalar(r));
    }
    return s;
}

inline std::string gen_key(Rng& r) {
    static const char* common[] = {"a", "b", "c", "id", "name", "", "0", "1", "a/b", "m~n", "k\"q", "k'q", "back\\slash", "\xc3\xa9", "\xe2\x82\xac", "\xf0\x9f\x98\x80",
                                   "a_rather_long_member_name_beyond_sso_xxxxxxxxxxxxxxxxxxxxxxxx"};
    if (r.chance(3, 5)) return r.pick(common);
    return gen_string(r, 40);
}

// ---------- numbers ---------------------------------------------------------------
inline i64 gen_i64(Rng& r) {
    static const i64 b[] = {0, 1, -1, 23, 24, -24, -25, 127, 128, -128, -129, 255, 256, -256, -257, 32767, 32768, -32768, -32769, 65535, 65536, -65536, -65537,
        2147483647LL, 2147483648LL, -2147483648LL, -2147483649LL, 4294967295LL, 4294967296LL, -4294967296LL, -4294967297LL,
        9007199254740991LL, 9007199254740992LL, 9007199254740993LL, -9007199254740993LL,
        999999999999999999LL, 1000000000000000000LL, INT64_MAX, INT64_MAX - 1, INT64_MIN, INT64_MIN + 1};
    switch (r.below(4)) {
    case 0: return r.pick(b);
    case 1: return (i64)r.next();
    case 2: { int bits = (int)r.below(64); i64 v = (i64)(r.next() >> (63 - bits)); return r.coin() ? v : -v; }
    default: return r.range(-1000, 1000);
    }
}
inline u64 gen_u64(Rng& r) {
    static const u64 b[] = {0, 1, 23, 24, 255, 256, 65535, 65536, 4294967295ULL, 4294967296ULL, 9223372036854775807ULL, 9223372036854775808ULL,
        9223372036854775809ULL, 9999999999999999999ULL, 10000000000000000000ULL, 18446744073709551614ULL, 18446744073709551615ULL};
    switch (r.below(4)) {
    case 0: return r.pick(b);
    case 1: return r.next();
    case 2: { int bits = (int)r.below(64); return r.next() >> (63 - bits); }
    default: return r.below(1000);
    }
}
inline double bits_to_double(u64 b) { double d; memcpy(&d, &b, 8); return d; }
inline u64 double_to_bits(double d) { u64 b; memcpy(&b, &d, 8); return b; }

inline double gen_double_finite(Rng& r) {
    static const double b[] = {0.0, -0.0, 1.0, -1.0, 0.5, 0.1, 0.2, 0.3, 1.5, 1e1, 1e15, 1e16, 1e17, 1e21, 1e22, 1e23, 1e-5, 1e-6, 1e-7, 123456789012345678.0,
        5e-324, 2.2250738585072009e-308, 2.2250738585072014e-308, 1.7976931348623157e308, 4.9406564584124654e-324, 9007199254740992.0, 9007199254740993.0,
        3.4028234663852886e38, 1.1754943508222875e-38, 65504.0, 6.103515625e-05, 5.960464477539063e-08, 0.333333333333333314829616256247, 2.5, 100.0, 1e100, 1e-100, 4294967296.0,
        9223372036854775808.0, 18446744073709551616.0, -9223372036854775808.0};
    for (;;) {
        double d;
        switch (r.below(8)) {
        case 0: d = r.pick(b); break;
        case 1: d = bits_to_double(r.next()); break;
        case 2: d = bits_to_double(r.next() & 0x800fffffffffffffULL); break;                      // subnormals
        case 3: d = std::ldexp(1.0, (int)r.range(-1074, 1023)); break;
        case 4: d = std::pow(10.0, (double)r.range(-320, 308)); break;
        case 5: d = (double)(float)bits_to_double(r.next() & 0xffffffffe0000000ULL); break;     // float32-representable
        case 6: d = (double)r.range(-100000, 100000) / (double)r.pick({1.0, 2.0, 4.0, 8.0, 10.0, 100.0, 1000.0}); break;
        default: d = (double)gen_i64(r); break;
        }
        if (r.coin()) d = -d;
        if (std::isfinite(d)) return d;
    }
}

inline std::string gen_digits(Rng& r, size_t n, bool nonzero_first = true) {
    std::string s;
    for (size_t i = 0; i < n; ++i) s.push_back((char)('0' + ((i == 0 && nonzero_first) ? 1 + r.below(9) : r.below(10))));
    return s;
}
// integer literal outside [INT64_MIN, UINT64_MAX]
inline std::string gen_bigint_text(Rng& r) {
    static const char* b[] = {"18446744073709551616", "-9223372036854775809", "18446744073709551617", "-18446744073709551616", "100000000000000000000",
        "340282366920938463463374607431768211456", "-340282366920938463463374607431768211455"};
    if (r.chance(1, 3)) return r.pick(b);
    std::string s = r.coin() ? "-" : "";
    s += gen_digits(r, 21 + r.below(r.chance(1, 8) ? 300 : 30));
    return s;
}
// decimal literal outside double range (so that lossless_bignum keeps it as bigdec text)
inline std::string gen_bigdec_text(Rng& r) {
    std::string s = r.coin() ? "-" : "";
    s += gen_digits(r, 1 + r.below(5));
    if (r.coin()) { s += "."; s += gen_digits(r, 1 + r.below(20), false); }
    s += r.coin() ? "e" : "E";
    bool neg = r.coin();
    s += neg ? "-" : (r.coin() ? "+" : "");
    s += std::to_string(neg ? r.range(400, 5000) : r.range(310, 5000));
    return s;
}

// ---------- value generator -------------------------------------------------------
struct GenCfg {
    int max_depth = 4;
    int max_width = 6;
    bool big_numbers = true;     // bigint/bigdec tagged strings (out of native range)
    bool byte_strings = false;
    bool nonfinite = false;
    bool half = false;
    bool tags = false;           // datetime/epoch/uri/base hints etc.
    bool dup_scalars = false;
    size_t string_cap = 300;
    bool wide_sometimes = false; // occasionally produce containers with 24..300 elements
};

template <class Json>
Json gen_scalar_value(Rng& r, const GenCfg& c) {
    for (;;) {
        switch (r.below(12)) {
        case 0: return Json::null();
        case 1: return Json(r.coin());
        case 2: case 3: return Json(gen_i64(r));
        case 4: return Json(gen_u64(r));
        case 5: case 6: return Json(gen_double_finite(r));
        case 7: case 8: return Json(gen_string(r, c.string_cap));
        case 9:
            if (c.big_numbers) return r.coin() ? Json(gen_bigint_text(r), semantic_tag::bigint) : Json(gen_bigdec_text(r), semantic_tag::bigdec);
            break;
        case 10:
            if (c.byte_strings) {
                size_t n = gen_len(r, c.string_cap); std::vector<uint8_t> b(n); for (auto& x : b) x = (uint8_t)r.next();
                static const semantic_tag bt[] = {semantic_tag::none, semantic_tag::base16, semantic_tag::base64, semantic_tag::base64url};
                return Json(jsoncons::byte_string_arg, b, c.tags ? r.pick(bt) : semantic_tag::none);
            }
            if (c.nonfinite && r.chance(1, 3)) { static const double nf[] = {NAN, INFINITY, -INFINITY}; return Json(r.pick(nf)); }
            break;
        case 11:
            if (c.half && r.coin()) return Json(jsoncons::half_arg, (uint16_t)r.next());
            if (c.tags) {
                switch (r.below(5)) {
                case 0: return Json("2020-01-02T03:04:05Z", semantic_tag::datetime);
                case 1: return Json(gen_i64(r), semantic_tag::epoch_second);
                case 2: return Json(gen_u64(r), semantic_tag::epoch_second);
                case 3: return Json(gen_double_finite(r), semantic_tag::epoch_second);
                default: return Json("https://example.com/a?b=" + gen_string(r, 5), semantic_tag::uri);
                }
            }
            break;
        }
    }
}

template <class Json>
Json gen_value(Rng& r, const GenCfg& c, int depth = 0) {
    unsigned k = (unsigned)r.below(10);
    if (depth >= c.max_depth || k < 4) return gen_scalar_value<Json>(r, c);
    size_t w = r.below((u64)c.max_width + 1);
    if (c.wide_sometimes && depth <= 1 && r.chance(1, 40)) { static const size_t wb[] = {15, 16, 17, 23, 24, 25, 31, 32, 33}; w = r.coin() ? r.pick(wb) : 20 + r.below(120); }   // container-size boundaries of the binary headers
    if (k < 7) {
        Json a(jsoncons::json_array_arg);
        for (size_t i = 0; i < w; ++i) a.push_back(gen_value<Json>(r, c, depth + 1));
        return a;
    }
    Json o(jsoncons::json_object_arg);
    for (size_t i = 0; i < w; ++i) {
        std::string key = gen_key(r);
        if (w > 12) key += std::to_string(i);
        if (!o.contains(key)) o.try_emplace(key, gen_value<Json>(r, c, depth + 1));
    }
    return o;
}

// ---------- description and strict compare ------------------------------------------
inline const char* tag_name(semantic_tag t) {
    switch (t) {
    case semantic_tag::none: return "none"; case semantic_tag::noesc: return "noesc"; case semantic_tag::bigint: return "bigint";
    case semantic_tag::bigdec: return "bigdec"; case semantic_tag::datetime: return "datetime"; case semantic_tag::epoch_second: return "epoch_second";
    case semantic_tag::epoch_milli: return "epoch_milli"; case semantic_tag::epoch_nano: return "epoch_nano"; case semantic_tag::base16: return "base16";
    case semantic_tag::base64: return "base64"; case semantic_tag::bigfloat: return "bigfloat"; case semantic_tag::float128: return "float128";
    case semantic_tag::base64url: return "base64url"; case semantic_tag::undefined: return "undefined"; case semantic_tag::uri: return "uri";
    case semantic_tag::multi_dim_row_major: return "multi_dim_row_major"; case semantic_tag::multi_dim_column_major: return "multi_dim_column_major";
    case semantic_tag::clamped: return "clamped"; case semantic_tag::ext: return "ext"; case semantic_tag::id: return "id";
    case semantic_tag::regex: return "regex"; case semantic_tag::code: return "code";
    }
    return "?";
}
inline semantic_tag norm_tag(semantic_tag t) { return t == semantic_tag::noesc ? semantic_tag::none : t; }

// Typed, lossless description (JSON) of a value: see DESIGN §2.3.
template <class Json>
void describe(const Json& v, std::string& out) {
    auto tag = [&](const Json& x) { semantic_tag t = norm_tag(x.tag()); if (t != semantic_tag::none) { out += ",\"t\":\""; out += tag_name(t); out += "\""; } };
    switch (v.type()) {
    case json_type::null: if (norm_tag(v.tag()) == semantic_tag::none) out += "null"; else { out += "{\"n\":0"; tag(v); out += "}"; } break;
    case json_type::boolean: out += v.template as<bool>() ? "true" : "false"; break;
    case json_type::int64: out += "{\"i\":\"" + std::to_string(v.template as<i64>()) + "\""; tag(v); out += "}"; break;
    case json_type::uint64: out += "{\"u\":\"" + std::to_string(v.template as<u64>()) + "\""; tag(v); out += "}"; break;
    case json_type::float16: out += "{\"h\":" + std::to_string(v.template as<uint16_t>()) ; tag(v); out += "}"; break;
    case json_type::float64: { double d = v.template as<double>(); u64 b = double_to_bits(d); char buf[32]; snprintf(buf, sizeof buf, "%016llx", (unsigned long long)b);
        out += "{\"d\":\""; out += buf; out += "\""; tag(v); out += "}"; break; }
    case json_type::string: { auto sv = v.as_string_view(); out += "{\"s\":\"" + hex(sv.data(), sv.size()) + "\""; tag(v); out += "}"; break; }
    case json_type::byte_string: { auto bv = v.as_byte_string_view(); out += "{\"b\":\"" + hex(bv.data(), bv.size()) + "\"";
        if (v.tag() == semantic_tag::ext) out += ",\"x\":" + std::to_string(v.ext_tag());
        tag(v); out += "}"; break; }
    case json_type::array: { out += "{\"a\":["; bool f = true; for (const auto& e : v.array_range()) { if (!f) out += ","; f = false; describe(e, out); } out += "]"; tag(v); out += "}"; break; }
    case json_type::object: { out += "{\"o\":["; bool f = true; for (const auto& m : v.object_range()) { if (!f) out += ","; f = false;
            out += "[\"" + hex(m.key().data(), m.key().size()) + "\","; describe(m.value(), out); out += "]"; } out += "]"; tag(v); out += "}"; break; }
    }
}
template <class Json> std::string describe(const Json& v) { std::string s; describe(v, s); return s; }

struct CmpCfg {
    bool ordered_objects = false;   // compare member order too
    bool nan_equal = true;
    bool zero_sign = true;          // distinguish +0.0 / -0.0
    bool tags = true;
    bool merge_int_kinds = true;    // int64 5 and uint64 5 are the same integer
};

// Returns "" when strictly equal, else a short path-qualified reason.
template <class J1, class J2>
std::string strict_diff(const J1& a, const J2& b, const CmpCfg& c = CmpCfg(), const std::string& path = "$") {
    if (c.merge_int_kinds && a.type() != b.type() && (a.type() == json_type::int64 || a.type() == json_type::uint64) && (b.type() == json_type::int64 || b.type() == json_type::uint64)) {
        if (c.tags && norm_tag(a.tag()) != norm_tag(b.tag())) return path + ": tag " + tag_name(a.tag()) + " vs " + tag_name(b.tag());
        // exactly one is int64; equal only if that one is non-negative and magnitudes agree
        i64 sv = a.type() == json_type::int64 ? a.template as<i64>() : b.template as<i64>();
        u64 uv = a.type() == json_type::uint64 ? a.template as<u64>() : b.template as<u64>();
        return (sv >= 0 && (u64)sv == uv) ? "" : path + ": integer " + std::to_string(sv) + " vs " + std::to_string(uv);
    }
    if (a.type() != b.type()) return path + ": type " + std::to_string((int)a.type()) + " vs " + std::to_string((int)b.type());
    if (c.tags && norm_tag(a.tag()) != norm_tag(b.tag())) return path + ": tag " + tag_name(a.tag()) + " vs " + tag_name(b.tag());
    switch (a.type()) {
    case json_type::null: return "";
    case json_type::boolean: return a.template as<bool>() == b.template as<bool>() ? "" : path + ": bool";
    case json_type::int64: return a.template as<i64>() == b.template as<i64>() ? "" : path + ": int64 " + std::to_string(a.template as<i64>()) + " vs " + std::to_string(b.template as<i64>());
    case json_type::uint64: return a.template as<u64>() == b.template as<u64>() ? "" : path + ": uint64 " + std::to_string(a.template as<u64>()) + " vs " + std::to_string(b.template as<u64>());
    case json_type::float16: return a.template as<uint16_t>() == b.template as<uint16_t>() ? "" : path + ": half";
    case json_type::float64: {
        double x = a.template as<double>(), y = b.template as<double>();
        if (std::isnan(x) || std::isnan(y)) return (c.nan_equal && std::isnan(x) && std::isnan(y)) ? "" : path + ": nan";
        if (c.zero_sign ? double_to_bits(x) == double_to_bits(y) : x == y) return "";
        char buf[96]; snprintf(buf, sizeof buf, ": double %.17g vs %.17g", x, y); return path + buf;
    }
    case json_type::string: { auto x = a.as_string_view(); auto y = b.as_string_view();
        return (x.size() == y.size() && memcmp(x.data(), y.data(), x.size()) == 0) ? "" : path + ": string " + hex(x.data(), x.size() < 40 ? x.size() : 40) + " vs " + hex(y.data(), y.size() < 40 ? y.size() : 40); }
    case json_type::byte_string: { auto x = a.as_byte_string_view(); auto y = b.as_byte_string_view();
        if (a.tag() == semantic_tag::ext && a.ext_tag() != b.ext_tag()) return path + ": ext_tag";
        return (x.size() == y.size() && memcmp(x.data(), y.data(), x.size()) == 0) ? "" : path + ": bytes"; }
    case json_type::array: {
        if (a.size() != b.size()) return path + ": array size " + std::to_string(a.size()) + " vs " + std::to_string(b.size());
        auto ra = a.array_range(); auto rb = b.array_range();
        auto ia = ra.begin(); auto ib = rb.begin(); size_t i = 0;
        for (; ia != ra.end(); ++ia, ++ib, ++i) { std::string d = strict_diff(*ia, *ib, c, path + "[" + std::to_string(i) + "]"); if (!d.empty()) return d; }
        return "";
    }
    case json_type::object: {
        if (a.size() != b.size()) return path + ": object size " + std::to_string(a.size()) + " vs " + std::to_string(b.size());
        if (c.ordered_objects) {
            auto ra = a.object_range(); auto rb = b.object_range();
            auto ia = ra.begin(); auto ib = rb.begin();
            for (; ia != ra.end(); ++ia, ++ib) {
                if (std::string(ia->key()) != std::string(ib->key())) return path + ": member order/key " + hex(std::string(ia->key())) + " vs " + hex(std::string(ib->key()));
                std::string d = strict_diff(ia->value(), ib->value(), c, path + "." + std::string(ia->key())); if (!d.empty()) return d;
            }
            return "";
        }
        // unordered: every member of a must be found in b (first match by key), sizes equal
        for (const auto& m : a.object_range()) {
            bool found = false;
            for (const auto& n : b.object_range()) {
                if (m.key().size() == n.key().size() && memcmp(m.key().data(), n.key().data(), m.key().size()) == 0) {
                    std::string d = strict_diff(m.value(), n.value(), c, path + "." + std::string(m.key())); if (!d.empty()) return d;
                    found = true; break;
                }
            }
            if (!found) return path + ": missing member " + hex(std::string(m.key()));
        }
        return "";
    }
    }
    return "";
}

// depth and node count of a value
template <class Json> void shape(const Json& v, int d, int& maxd, size_t& nodes) {
    ++nodes; if (d > maxd) maxd = d;
    if (v.is_array()) for (const auto& e : v.array_range()) shape(e, d + 1, maxd, nodes);
    else if (v.is_object()) for (const auto& m : v.object_range()) shape(m.value(), d + 1, maxd, nodes);
}
template <class Json> bool nontrivial(const Json& v) { int d = 0; size_t n = 0; shape(v, 0, d, n); return n >= 2 || (v.is_string() && v.as_string_view().size() > 0); }

// ---- greedy shrinker: smaller value for which still_fails(v) stays true ---------------------------
template <class Json> Json* node_at(Json& root, const std::vector<size_t>& path) {
    Json* p = &root;
    for (size_t ix : path) {
        if (p->is_array()) { if (ix >= p->size()) return nullptr; p = &(*p)[ix]; }
        else if (p->is_object()) { if (ix >= p->size()) return nullptr; auto it = p->object_range().begin(); std::advance(it, (long)ix); p = &it->value(); }
        else return nullptr;
    }
    return p;
}
template <class Json> void all_paths(const Json& v, std::vector<size_t>& cur, std::vector<std::vector<size_t>>& out) {
    out.push_back(cur);
    size_t i = 0;
    if (v.is_array()) for (const auto& e : v.array_range()) { cur.push_back(i++); all_paths(e, cur, out); cur.pop_back(); }
    else if (v.is_object()) for (const auto& m : v.object_range()) { cur.push_back(i++); all_paths(m.value(), cur, out); cur.pop_back(); }
}
template <class Json, class F>
Json shrink(Json v, F still_fails, int budget = 1500) {
    bool progress = true;
    while (progress && budget > 0) {
        progress = false;
        std::vector<std::vector<size_t>> paths; std::vector<size_t> cur; all_paths(v, cur, paths);
        for (size_t pi = 0; pi < paths.size() && budget > 0 && !progress; ++pi) {
            Json* n = node_at(v, paths[pi]);
            if (!n) continue;
            // 1. hoist: replace the whole value by this subtree
            if (!paths[pi].empty()) { Json cand = *n; --budget; if (still_fails(cand)) { v = cand; progress = true; break; } }
            // 2. delete children one at a time
            if (n->is_array() || n->is_object()) {
                for (size_t k = n->size(); k-- > 0 && budget > 0;) {
                    Json cand = v; Json* m = node_at(cand, paths[pi]);
                    if (m->is_array()) m->erase(m->array_range().begin() + (long)k);
                    else { auto it = m->object_range().begin(); std::advance(it, (long)k); m->erase(it); }
                    --budget;
                    if (still_fails(cand)) { v = cand; progress = true; break; }
                }
            }
        }
    }
    return v;
}

} // namespace vf
#endif
