// Independent RFC 8259 recogniser / evaluator written from the ABNF (no jsoncons code).
// Input: UTF-8 bytes.  Options: max_depth, allow_comments (// and /* */ as whitespace),
// allow_trailing_comma.  Output: accept/reject, a value tree with number literals kept as
// text and strings decoded to UTF-8, and the minified text (whitespace outside strings removed).
#ifndef VERIF_RFC8259_HPP
#define VERIF_RFC8259_HPP

#include <string>
#include <vector>
#include <cstdint>
#include <utility>

namespace rfc {

struct Val {
    enum K { Null, True, False, Num, Str, Arr, Obj } k = Null;
    std::string text;                 // Num: literal; Str: decoded UTF-8
    bool bad_surrogate = false;       // Str (or a member name below): an escape did not denote a scalar value
    std::vector<Val> items;           // Arr items; Obj values
    std::vector<std::string> names;   // Obj names (decoded), parallel to items
    std::vector<bool> name_bad;       // Obj: name contained a non-scalar escape
};

struct Opts {
    int max_depth = 1024;
    bool allow_comments = false;
    bool allow_trailing_comma = false;
    bool build_value = true;
    bool build_min = false;
};

struct Parser {
    const unsigned char* p; const unsigned char* e; Opts o;
    bool any_bad_surrogate = false;
    bool saw_comment = false, saw_trailing_comma = false;
    int max_depth_seen = 0;
    std::string min;
    bool utf8_error = false;

    Parser(const char* s, size_t n, const Opts& opts) : p((const unsigned char*)s), e((const unsigned char*)s + n), o(opts) {}

    bool ws() {
        for (;;) {
            while (p < e && (*p == 0x20 || *p == 0x09 || *p == 0x0A || *p == 0x0D)) ++p;
            if (o.allow_comments && p + 1 < e && p[0] == '/' && p[1] == '/') { saw_comment = true; p += 2; while (p < e && *p != '\n' && *p != '\r') ++p; continue; }
            if (o.allow_comments && p + 1 < e && p[0] == '/' && p[1] == '*') {
                saw_comment = true; p += 2;
                for (;;) { if (p + 1 >= e) { p = e; return false; } if (p[0] == '*' && p[1] == '/') { p += 2; break; } ++p; }
                continue;
            }
            return true;
        }
    }
    static int hexv(unsigned char c) { if (c >= '0' && c <= '9') return c - '0'; if (c >= 'a' && c <= 'f') return c - 'a' + 10; if (c >= 'A' && c <= 'F') return c - 'A' + 10; return -1; }
    static void put(std::string& s, uint32_t cp) {
        if (cp < 0x80) s.push_back((char)cp);
        else if (cp < 0x800) { s.push_back((char)(0xC0 | (cp >> 6))); s.push_back((char)(0x80 | (cp & 0x3F))); }
        else if (cp < 0x10000) { s.push_back((char)(0xE0 | (cp >> 12))); s.push_back((char)(0x80 | ((cp >> 6) & 0x3F))); s.push_back((char)(0x80 | (cp & 0x3F))); }
        else { s.push_back((char)(0xF0 | (cp >> 18))); s.push_back((char)(0x80 | ((cp >> 12) & 0x3F))); s.push_back((char)(0x80 | ((cp >> 6) & 0x3F))); s.push_back((char)(0x80 | (cp & 0x3F))); }
    }
    bool hex4(uint32_t& v) { if (e - p < 4) return false; v = 0; for (int i = 0; i < 4; ++i) { int h = hexv(p[i]); if (h < 0) return false; v = v * 16 + (uint32_t)h; } p += 4; return true; }

    // string = quotation-mark *char quotation-mark ; p at opening quote
    bool string(std::string& out, bool& bad) {
        const unsigned char* start = p;
        ++p;
        for (;;) {
            if (p >= e) return false;
            unsigned char c = *p;
            if (c == '"') { ++p; break; }
            if (c < 0x20) return false;
            if (c == '\\') {
                ++p; if (p >= e) return false;
                unsigned char x = *p++;
                switch (x) {
                case '"': out.push_back('"'); break; case '\\': out.push_back('\\'); break; case '/': out.push_back('/'); break;
                case 'b': out.push_back('\b'); break; case 'f': out.push_back('\f'); break; case 'n': out.push_back('\n'); break;
                case 'r': out.push_back('\r'); break; case 't': out.push_back('\t'); break;
                case 'u': {
                    uint32_t u; if (!hex4(u)) return false;
                    if (u >= 0xD800 && u <= 0xDBFF) {
                        if (e - p >= 6 && p[0] == '\\' && p[1] == 'u') {
                            const unsigned char* save = p; p += 2; uint32_t lo;
                            if (!hex4(lo)) return false;
                            if (lo >= 0xDC00 && lo <= 0xDFFF) put(out, 0x10000 + ((u - 0xD800) << 10) + (lo - 0xDC00));
                            else { bad = true; p = save; put(out, 0xFFFD); }
                        } else { bad = true; put(out, 0xFFFD); }
                    } else if (u >= 0xDC00 && u <= 0xDFFF) { bad = true; put(out, 0xFFFD); }
                    else put(out, u);
                    break;
                }
                default: return false;
                }
                continue;
            }
            // unescaped: must be well-formed UTF-8 (RFC 8259 section 8.1)
            if (c < 0x80) { out.push_back((char)c); ++p; continue; }
            int n; uint32_t cp;
            if (c >= 0xC2 && c <= 0xDF) { n = 1; cp = c & 0x1F; }
            else if (c >= 0xE0 && c <= 0xEF) { n = 2; cp = c & 0x0F; }
            else if (c >= 0xF0 && c <= 0xF4) { n = 3; cp = c & 0x07; }
            else { utf8_error = true; return false; }
            if (e - p <= n) { utf8_error = true; return false; }
            for (int i = 1; i <= n; ++i) { if ((p[i] & 0xC0) != 0x80) { utf8_error = true; return false; } cp = (cp << 6) | (p[i] & 0x3F); }
            if ((n == 2 && cp < 0x800) || (n == 3 && cp < 0x10000) || cp > 0x10FFFF || (cp >= 0xD800 && cp <= 0xDFFF)) { utf8_error = true; return false; }
            out.append((const char*)p, (size_t)n + 1); p += n + 1;
        }
        if (bad) any_bad_surrogate = true;
        if (o.build_min) min.append((const char*)start, (size_t)(p - start));
        return true;
    }
    // number = [ minus ] int [ frac ] [ exp ]
    bool number(std::string& lit) {
        const unsigned char* s = p;
        if (p < e && *p == '-') ++p;
        if (p >= e) return false;
        if (*p == '0') ++p;
        else if (*p >= '1' && *p <= '9') { while (p < e && *p >= '0' && *p <= '9') ++p; }
        else return false;
        if (p < e && *p == '.') { ++p; if (p >= e || *p < '0' || *p > '9') return false; while (p < e && *p >= '0' && *p <= '9') ++p; }
        if (p < e && (*p == 'e' || *p == 'E')) { ++p; if (p < e && (*p == '+' || *p == '-')) ++p; if (p >= e || *p < '0' || *p > '9') return false; while (p < e && *p >= '0' && *p <= '9') ++p; }
        lit.assign((const char*)s, (size_t)(p - s));
        if (o.build_min) min += lit;
        return true;
    }
    bool lit(const char* w, size_t n) { if ((size_t)(e - p) < n) return false; for (size_t i = 0; i < n; ++i) if (p[i] != (unsigned char)w[i]) return false; p += n; if (o.build_min) min.append(w, n); return true; }

    bool value(Val& v, int depth) {
        if (p >= e) return false;
        switch (*p) {
        case '{': {
            if (depth + 1 > o.max_depth) return false;
            if (depth + 1 > max_depth_seen) max_depth_seen = depth + 1;
            v.k = Val::Obj; ++p; if (o.build_min) min.push_back('{');
            if (!ws()) return false;
            if (p < e && *p == '}') { ++p; if (o.build_min) min.push_back('}'); return true; }
            for (;;) {
                if (p >= e || *p != '"') return false;
                std::string name; bool bad = false;
                if (!string(name, bad)) return false;
                if (!ws()) return false;
                if (p >= e || *p != ':') return false;
                ++p; if (o.build_min) min.push_back(':');
                if (!ws()) return false;
                Val item;
                if (!value(item, depth + 1)) return false;
                if (o.build_value) { v.names.push_back(std::move(name)); v.name_bad.push_back(bad); v.items.push_back(std::move(item)); }
                if (!ws()) return false;
                if (p >= e) return false;
                if (*p == '}') { ++p; if (o.build_min) min.push_back('}'); return true; }
                if (*p != ',') return false;
                ++p;
                if (!ws()) return false;
                if (o.allow_trailing_comma && p < e && *p == '}') { saw_trailing_comma = true; ++p; if (o.build_min) min.push_back('}'); return true; }
                if (o.build_min) min.push_back(',');
            }
        }
        case '[': {
            if (depth + 1 > o.max_depth) return false;
            if (depth + 1 > max_depth_seen) max_depth_seen = depth + 1;
            v.k = Val::Arr; ++p; if (o.build_min) min.push_back('[');
            if (!ws()) return false;
            if (p < e && *p == ']') { ++p; if (o.build_min) min.push_back(']'); return true; }
            for (;;) {
                Val item;
                if (!value(item, depth + 1)) return false;
                if (o.build_value) v.items.push_back(std::move(item));
                if (!ws()) return false;
                if (p >= e) return false;
                if (*p == ']') { ++p; if (o.build_min) min.push_back(']'); return true; }
                if (*p != ',') return false;
                ++p;
                if (!ws()) return false;
                if (o.allow_trailing_comma && p < e && *p == ']') { saw_trailing_comma = true; ++p; if (o.build_min) min.push_back(']'); return true; }
                if (o.build_min) min.push_back(',');
            }
        }
        case '"': { v.k = Val::Str; bool bad = false; if (!string(v.text, bad)) return false; v.bad_surrogate = bad; return true; }
        case 't': v.k = Val::True; return lit("true", 4);
        case 'f': v.k = Val::False; return lit("false", 5);
        case 'n': v.k = Val::Null; return lit("null", 4);
        default: v.k = Val::Num; return number(v.text);
        }
    }
    // JSON-text = ws value ws
    bool text(Val& v) {
        if (!ws()) return false;
        if (!value(v, 0)) return false;
        if (!ws()) return false;
        return p == e;
    }
};

inline bool accepts(const char* s, size_t n, const Opts& o = Opts(), Val* out = nullptr, std::string* min = nullptr, Parser* info = nullptr) {
    Opts oo = o; oo.build_value = out != nullptr; oo.build_min = min != nullptr;
    Parser ps(s, n, oo); Val v;
    bool ok = ps.text(v);
    if (ok && out) *out = std::move(v);
    if (ok && min) *min = std::move(ps.min);
    if (info) { info->any_bad_surrogate = ps.any_bad_surrogate; info->saw_comment = ps.saw_comment; info->saw_trailing_comma = ps.saw_trailing_comma; info->max_depth_seen = ps.max_depth_seen; info->utf8_error = ps.utf8_error; }
    return ok;
}
inline bool accepts(const std::string& s, const Opts& o = Opts(), Val* out = nullptr, std::string* min = nullptr, Parser* info = nullptr) { return accepts(s.data(), s.size(), o, out, min, info); }

} // namespace rfc
#endif
