// Deterministic structure-aware mutations shared by the robustness (C05) drivers.
#ifndef VERIF_MUTATE_HPP
#define VERIF_MUTATE_HPP
#include "harness.hpp"
#include <fstream>
#include <sstream>
#include <dirent.h>
#include <algorithm>

namespace vf {

inline void mutate_bytes_once(std::vector<uint8_t>& b, Rng& r) {
    if (b.empty()) { b.push_back((uint8_t)r.next()); return; }
    switch (r.below(12)) {
    case 0: b.resize(r.below(b.size())); break;                                                   // truncate
    case 1: b[r.below(b.size())] = (uint8_t)r.next(); break;                                      // replace
    case 2: b[r.below(b.size())] ^= (uint8_t)(1u << r.below(8)); break;                           // bit flip
    case 3: b.insert(b.begin() + (long)r.below(b.size() + 1), (uint8_t)r.next()); break;          // insert
    case 4: b.erase(b.begin() + (long)r.below(b.size())); break;                                  // delete
    case 5: { size_t i = r.below(b.size()); static const uint8_t hot[] = {0x00, 0x01, 0x17, 0x18, 0x19, 0x1a, 0x1b, 0x1f, 0x7f, 0x80, 0xff, 0xfe, 0x5b, 0x7b, 0x9f, 0xbf, 0xc0, 0xd8, 0xd9, 0xf9, 0xfb, '[', '{', '#', '$', 'L', 'H'}; b[i] = r.pick(hot); break; }
    case 6: { size_t i = r.below(b.size()); size_t n = 1 + r.below(8); for (size_t k = 0; k < n && i + k < b.size(); ++k) b[i + k] = 0xff; break; }        // length-field inflation
    case 7: { size_t i = r.below(b.size()); size_t n = 1 + r.below(8); for (size_t k = 0; k < n && i + k < b.size(); ++k) b[i + k] = 0x00; break; }
    case 8: { size_t i = r.below(b.size()), j = r.below(b.size()); if (i > j) std::swap(i, j); std::vector<uint8_t> seg(b.begin() + (long)i, b.begin() + (long)j); b.insert(b.begin() + (long)r.below(b.size() + 1), seg.begin(), seg.end()); break; }  // splice/duplicate
    case 9: { size_t i = r.below(b.size()); size_t n = r.below(b.size() - i + 1); b.erase(b.begin() + (long)i, b.begin() + (long)(i + n)); break; }       // cut
    case 10: { size_t i = r.below(b.size()); b[i] = (uint8_t)(b[i] + (r.coin() ? 1 : 255)); break; }                                                       // +-1
    default: { size_t n = 1 + r.below(6); for (size_t k = 0; k < n; ++k) b.push_back((uint8_t)r.next()); break; }                                          // append
    }
    if (b.size() > 65536) b.resize(65536);
}
inline void mutate_bytes(std::vector<uint8_t>& b, Rng& r, int max_mut = 4) { int n = (int)r.below((u64)max_mut + 1); for (int i = 0; i < n; ++i) mutate_bytes_once(b, r); }

static int g_max_repeat = 3000;   // deep-nesting mutation: repetitions of one token (drivers lower it where unbounded recursion is a known finding)
inline void mutate_text_once(std::string& t, Rng& r, const std::vector<std::string>& dict) {
    if (t.empty()) { t = r.pick(dict); return; }
    switch (r.below(10)) {
    case 0: t.resize(r.below(t.size())); break;
    case 1: t[r.below(t.size())] = (char)r.below(256); break;
    case 2: t.insert(r.below(t.size() + 1), r.pick(dict)); break;
    case 3: t.erase(r.below(t.size()), 1 + r.below(4)); break;
    case 4: t += r.pick(dict); break;
    case 5: { size_t a = r.below(t.size()), b = r.below(t.size()); std::swap(t[a], t[b]); break; }
    case 6: { size_t a = r.below(t.size()), b = r.below(t.size()); if (a > b) std::swap(a, b); std::string seg = t.substr(a, b - a); t.insert(r.below(t.size() + 1), seg); break; }
    case 7: { size_t n = 1 + r.below(r.chance(1, 10) ? (size_t)g_max_repeat : 40); const std::string& tok = r.pick(dict); std::string rep; for (size_t i = 0; i < n && rep.size() < 8000; ++i) rep += tok; t.insert(r.below(t.size() + 1), rep); break; }   // deep nesting / repetition
    case 8: { static const char* nums[] = {"-9223372036854775808", "9223372036854775807", "18446744073709551615", "18446744073709551616", "-1", "0", "1e400", "-0", "4294967296", "2147483648", "99999999999999999999999", "1e-400", "0.1", "::0", "-"}; t.insert(r.below(t.size() + 1), r.pick(nums)); break; }
    default: { size_t i = r.below(t.size()); t[i] = (char)(t[i] ^ (1 << r.below(7))); break; }
    }
    if (t.size() > 65536) t.resize(65536);
}
inline void mutate_text(std::string& t, Rng& r, const std::vector<std::string>& dict, int max_mut = 4) { int n = (int)r.below((u64)max_mut + 1); for (int i = 0; i < n; ++i) mutate_text_once(t, r, dict); }

inline std::string read_file(const std::string& p) { std::ifstream f(p, std::ios::binary); std::stringstream ss; ss << f.rdbuf(); return ss.str(); }
inline std::vector<std::string> list_files(const std::string& dir, const std::string& suffix = "") {
    std::vector<std::string> out; DIR* d = opendir(dir.c_str()); if (!d) return out;
    while (dirent* e = readdir(d)) { std::string n = e->d_name; if (n == "." || n == "..") continue; if (suffix.empty() || (n.size() >= suffix.size() && n.compare(n.size() - suffix.size(), suffix.size(), suffix) == 0)) out.push_back(dir + "/" + n); }
    closedir(d); std::sort(out.begin(), out.end()); return out;
}

} // namespace vf
#endif
