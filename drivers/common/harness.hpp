// Common driver harness: seeded per-case PRNG, JSONL event log, crash/hang attribution,
// counters, distinct-case accounting, reservoir samples.  No jsoncons dependency.
#ifndef VERIF_HARNESS_HPP
#define VERIF_HARNESS_HPP

#include <cstdint>
#include <cstdio>
#include <cstdlib>
#include <cstring>
#include <csignal>
#include <string>
#include <vector>
#include <map>
#include <unordered_set>
#include <functional>
#include <exception>
#include <typeinfo>
#include <unistd.h>
#include <sys/time.h>
#include <cxxabi.h>

namespace vf {

using u64 = std::uint64_t;
using i64 = std::int64_t;

inline u64 splitmix64(u64& s) {
    u64 z = (s += 0x9e3779b97f4a7c15ULL);
    z = (z ^ (z >> 30)) * 0xbf58476d1ce4e5b9ULL;
    z = (z ^ (z >> 27)) * 0x94d049bb133111ebULL;
    return z ^ (z >> 31);
}
inline u64 mix(u64 a, u64 b) { u64 s = a ^ (b * 0xd6e8feb86659fd93ULL + 0x632be59bd9b4e019ULL); splitmix64(s); return splitmix64(s); }

struct Rng {
    u64 s[4];
    Rng() { seed(1); }
    explicit Rng(u64 x) { seed(x); }
    void seed(u64 x) { for (auto& v : s) v = splitmix64(x); }
    static u64 rotl(u64 x, int k) { return (x << k) | (x >> (64 - k)); }
    u64 next() {
        u64 r = rotl(s[1] * 5, 7) * 9, t = s[1] << 17;
        s[2] ^= s[0]; s[3] ^= s[1]; s[1] ^= s[2]; s[0] ^= s[3]; s[2] ^= t; s[3] = rotl(s[3], 45);
        return r;
    }
    u64 below(u64 n) { return n ? next() % n : 0; }             // [0,n)
    i64 range(i64 lo, i64 hi) { return lo + (i64)below((u64)(hi - lo + 1)); }  // [lo,hi]
    bool chance(unsigned num, unsigned den) { return below(den) < num; }
    bool coin() { return next() & 1; }
    template <class T> const T& pick(const std::vector<T>& v) { return v[below(v.size())]; }
    template <class T, size_t N> const T& pick(const T (&a)[N]) { return a[below(N)]; }
};

inline u64 fnv1a(const void* p, size_t n, u64 h = 0xcbf29ce484222325ULL) {
    const unsigned char* c = (const unsigned char*)p;
    for (size_t i = 0; i < n; ++i) { h ^= c[i]; h *= 0x100000001b3ULL; }
    return h;
}
inline u64 hash_str(const std::string& s, u64 h = 0xcbf29ce484222325ULL) { return fnv1a(s.data(), s.size(), h); }

inline std::string hex(const void* p, size_t n) {
    static const char* d = "0123456789abcdef";
    std::string r; r.reserve(n * 2);
    const unsigned char* c = (const unsigned char*)p;
    for (size_t i = 0; i < n; ++i) { r.push_back(d[c[i] >> 4]); r.push_back(d[c[i] & 15]); }
    return r;
}
inline std::string hex(const std::string& s) { return hex(s.data(), s.size()); }
inline std::string hex(const std::vector<uint8_t>& s) { return hex(s.data(), s.size()); }
inline std::vector<uint8_t> unhex(const std::string& h) {
    auto v = [](char c) -> int { return c <= '9' ? c - '0' : (c | 32) - 'a' + 10; };
    std::vector<uint8_t> r; r.reserve(h.size() / 2);
    for (size_t i = 0; i + 1 < h.size(); i += 2) r.push_back((uint8_t)(v(h[i]) * 16 + v(h[i + 1])));
    return r;
}

// JSON string literal for the log (bytes >= 0x80 are passed through if valid UTF-8 is
// not guaranteed we escape everything non-printable-ASCII as \u00XX: log consumers treat
// "s" fields as latin-1 byte strings; use hex() for faithful bytes).
inline std::string jstr(const std::string& s) {
    std::string r = "\"";
    char buf[8];
    for (unsigned char c : s) {
        if (c == '"') r += "\\\""; else if (c == '\\') r += "\\\\";
        else if (c < 0x20 || c >= 0x7f) { snprintf(buf, sizeof buf, "\\u%04x", c); r += buf; }
        else r.push_back((char)c);
    }
    r.push_back('"');
    return r;
}

// Tiny JSON object builder for log records.
struct J {
    std::string s; bool first = true;
    J() { s = "{"; }
    J& raw(const char* k, const std::string& v) { if (!first) s += ","; first = false; s += "\""; s += k; s += "\":"; s += v; return *this; }
    J& str(const char* k, const std::string& v) { return raw(k, jstr(v)); }
    J& num(const char* k, long long v) { return raw(k, std::to_string(v)); }
    J& unum(const char* k, unsigned long long v) { return raw(k, std::to_string(v)); }
    J& boolean(const char* k, bool v) { return raw(k, v ? "true" : "false"); }
    std::string done() const { return s + "}"; }
};

// ---- crash / hang attribution ------------------------------------------------------
struct Flight {
    volatile long long case_no = -1;
    volatile long long last_seen = -2;
    volatile int ticks_same = 0;
    int hang_ticks = 20;           // seconds of no progress on one case => hang
    char desc[4096];               // free-form description of the case in flight (JSON fragment)
    volatile size_t desc_len = 0;
};
inline Flight& flight() { static Flight f; return f; }

inline void set_flight_desc(const std::string& d) {
    Flight& f = flight();
    size_t n = d.size() < sizeof(f.desc) - 1 ? d.size() : sizeof(f.desc) - 1;
    f.desc_len = 0;
    memcpy(f.desc, d.data(), n);
    f.desc_len = n;
}

inline void emit_flight(const char* kind, int sig) {
    Flight& f = flight();
    char buf[256];
    int n = snprintf(buf, sizeof buf, "\n{\"t\":\"%s\",\"case\":%lld,\"sig\":%d,\"desc\":\"", kind, (long long)f.case_no, sig);
    ssize_t w = write(1, buf, (size_t)n); (void)w;
    // desc is written hex-free but escaped minimally: we only allow chars that are JSON-string-safe
    for (size_t i = 0; i < f.desc_len; ++i) {
        char c = f.desc[i];
        if (c == '"' || c == '\\' || (unsigned char)c < 0x20 || (unsigned char)c >= 0x7f) c = '?';
        w = write(1, &c, 1); (void)w;
    }
    w = write(1, "\"}\n", 3); (void)w;
}

extern "C" inline void vf_signal_handler(int sig) {
    if (sig == SIGALRM) {
        Flight& f = flight();
        // the fixed regression catalogue (case -1) is many items under one case number: it gets ten times the per-case budget
        if (f.case_no == f.last_seen) { if (++f.ticks_same >= (f.case_no == -1 ? f.hang_ticks * 10 : f.hang_ticks)) { emit_flight("hang", sig); _exit(97); } }
        else { f.last_seen = f.case_no; f.ticks_same = 0; }
        return;
    }
    emit_flight("crash", sig);
    signal(sig, SIG_DFL);
    raise(sig);
}

inline void install_handlers(int hang_seconds) {
    flight().hang_ticks = hang_seconds;
    // alternate stack so that stack overflow can be reported
    static char altstack[1 << 16];
    stack_t ss; ss.ss_sp = altstack; ss.ss_size = sizeof altstack; ss.ss_flags = 0;
    sigaltstack(&ss, nullptr);
    struct sigaction sa; memset(&sa, 0, sizeof sa);
    sa.sa_handler = vf_signal_handler; sa.sa_flags = SA_ONSTACK;
#if defined(__SANITIZE_ADDRESS__)
    // ASan keeps its own SEGV/BUS/FPE/ILL handlers (full report); the case in flight is printed from __asan_on_error.
    for (int s : {SIGABRT}) sigaction(s, &sa, nullptr);
#else
    for (int s : {SIGABRT, SIGSEGV, SIGBUS, SIGFPE, SIGILL}) sigaction(s, &sa, nullptr);
#endif
    struct sigaction sb; memset(&sb, 0, sizeof sb);
    sb.sa_handler = vf_signal_handler; sb.sa_flags = SA_RESTART | SA_ONSTACK;
    sigaction(SIGALRM, &sb, nullptr);
    struct itimerval it; it.it_interval.tv_sec = 1; it.it_interval.tv_usec = 0; it.it_value = it.it_interval;
    setitimer(ITIMER_REAL, &it, nullptr);
}

} // namespace vf
#if defined(__SANITIZE_ADDRESS__) && !defined(VF_NO_ASAN_HOOK)
extern "C" void __asan_on_error() { vf::emit_flight("crash", 0); }
#endif
namespace vf {

inline std::string demangle(const char* n) {
    int st = 0; char* d = abi::__cxa_demangle(n, nullptr, nullptr, &st);
    std::string r = (st == 0 && d) ? d : n; free(d); return r;
}
inline std::string current_exception_type() {
    std::type_info* t = abi::__cxa_current_exception_type();
    return t ? demangle(t->name()) : "unknown";
}

// ---- harness -----------------------------------------------------------------------
struct Harness {
    u64 seed = 1;
    long long start = 0, count = 1000;
    int worker = 0, nworkers = 1;
    int hang_seconds = 30;
    int max_samples = 6;
    size_t max_distinct = 8u << 20;
    bool verbose = false;
    std::string tier = "quick";
    std::map<std::string, std::string> extra;     // --key value pairs not known to the harness
    std::map<std::string, u64> counters;
    std::map<std::string, u64> viol_by_sig;
    std::unordered_set<u64> distinct;
    std::vector<std::string> samples;
    u64 evaluations = 0, sample_seen = 0, violations = 0;
    u64 distinct_counted = 0;      // cases that are distinct by construction (enumerations): counted, not hashed
    long long cur_case = -1;
    Rng sample_rng{12345};
    std::function<void()> on_finish;

    void parse(int argc, char** argv) {
        for (int i = 1; i < argc; ++i) {
            std::string a = argv[i];
            auto val = [&]() -> std::string { return i + 1 < argc ? argv[++i] : ""; };
            if (a == "--seed") seed = strtoull(val().c_str(), nullptr, 10);
            else if (a == "--start") start = atoll(val().c_str());
            else if (a == "--count") count = atoll(val().c_str());
            else if (a == "--worker") worker = atoi(val().c_str());
            else if (a == "--nworkers") nworkers = atoi(val().c_str());
            else if (a == "--hang") hang_seconds = atoi(val().c_str());
            else if (a == "--tier") tier = val();
            else if (a == "--verbose") verbose = true;
            else if (a.rfind("--", 0) == 0) extra[a.substr(2)] = val();
        }
        setvbuf(stdout, nullptr, _IOFBF, 1 << 16);
        install_handlers(hang_seconds);
    }
    std::string opt(const std::string& k, const std::string& d = "") const { auto it = extra.find(k); return it == extra.end() ? d : it->second; }
    long long opt_int(const std::string& k, long long d) const { auto it = extra.find(k); return it == extra.end() ? d : atoll(it->second.c_str()); }

    Rng case_rng(long long case_no, u64 stream = 0) const { return Rng(mix(mix(seed, (u64)case_no), stream)); }

    void count_(const std::string& k, u64 n = 1) { counters[k] += n; }
    // returns true when h was not seen before
    bool note_distinct(u64 h) { if (distinct.size() >= max_distinct) { counters["distinct_set_saturated"] = 1; return false; } return distinct.insert(h).second; }
    void sample(const std::string& json_fragment) {
        ++sample_seen;
        if ((int)samples.size() < max_samples) samples.push_back(json_fragment);
        else { u64 j = sample_rng.below(sample_seen); if (j < (u64)max_samples) samples[j] = json_fragment; }
    }
    void violation(const std::string& sig, const std::string& detail_json) {
        ++violations;
        u64 n = ++viol_by_sig[sig];
        if (n <= 3) {
            printf("{\"t\":\"violation\",\"case\":%lld,\"sig\":%s,\"detail\":%s}\n", cur_case, jstr(sig).c_str(), detail_json.c_str());
            fflush(stdout);
        }
    }
    void begin_case(long long c) { cur_case = c; flight().case_no = c; flight().desc_len = 0; }

    // Runs body(case_no) for this worker's share of [start, start+count).
    // Exceptions escaping body are violations "harness/escaped-exception/<type>".
    int run(const std::function<void(long long)>& body, const std::function<void()>& regress = nullptr) {
        if (regress && start == 0 && worker == 0) {
            begin_case(-1);
            guarded([&] { regress(); });
        }
        for (long long c = start; c < start + count; ++c) {
            if (nworkers > 1 && (c % nworkers) != worker) continue;
            begin_case(c);
            ++evaluations;
            guarded([&] { body(c); });
        }
        finish();
        return 0;
    }
    template <class F> void guarded(F f) {
        try { f(); }
        catch (const std::exception& e) {
            violation("harness/escaped-exception/" + current_exception_type(), J().str("what", e.what()).done());
        }
        catch (...) { violation("harness/escaped-exception/" + current_exception_type(), "{}"); }
    }
    void finish() {
        flight().case_no = -3;
        if (on_finish) on_finish();
        std::string s = "{\"t\":\"summary\",\"evaluations\":" + std::to_string(evaluations) +
            ",\"distinct\":" + std::to_string(distinct.size() + distinct_counted) + ",\"violations\":" + std::to_string(violations) + ",\"counters\":{";
        bool f = true;
        for (auto& kv : counters) { if (!f) s += ","; f = false; s += jstr(kv.first) + ":" + std::to_string(kv.second); }
        s += "},\"viol_by_sig\":{";
        f = true;
        for (auto& kv : viol_by_sig) { if (!f) s += ","; f = false; s += jstr(kv.first) + ":" + std::to_string(kv.second); }
        s += "},\"samples\":[";
        f = true;
        for (auto& x : samples) { if (!f) s += ","; f = false; s += x; }
        s += "]}\n";
        fputs(s.c_str(), stdout);
        fflush(stdout);
    }
};

} // namespace vf
#endif
