// Plain C++ model of JSON values, independent of basic_json: used as the reference side of
// model-based monitors (C09, C16, ...).  Objects are vectors of (key, value) pairs so that
// both sorted (json) and insertion-ordered (ojson) semantics can be modelled.
#ifndef VERIF_MODEL_HPP
#define VERIF_MODEL_HPP

#include "harness.hpp"
#include <jsoncons/json.hpp>
#include <algorithm>
#include <memory>

namespace vf {

struct MV {
    enum K { Null, Bool, Int, Dbl, Str, Arr, Obj } k = Null;
    bool b = false;
    i64 i = 0;
    double d = 0;
    std::string s;
    std::vector<MV> a;
    std::vector<std::pair<std::string, MV>> o;

    static MV null() { return MV(); }
    static MV boolean(bool v) { MV m; m.k = Bool; m.b = v; return m; }
    static MV integer(i64 v) { MV m; m.k = Int; m.i = v; return m; }
    static MV dbl(double v) { MV m; m.k = Dbl; m.d = v; return m; }
    static MV str(const std::string& v) { MV m; m.k = Str; m.s = v; return m; }
    static MV arr() { MV m; m.k = Arr; return m; }
    static MV obj() { MV m; m.k = Obj; return m; }

    MV* find(const std::string& key) { for (auto& kv : o) if (kv.first == key) return &kv.second; return nullptr; }
    const MV* find(const std::string& key) const { for (auto& kv : o) if (kv.first == key) return &kv.second; return nullptr; }
    bool erase(const std::string& key) { for (size_t j = 0; j < o.size(); ++j) if (o[j].first == key) { o.erase(o.begin() + (long)j); return true; } return false; }
    void sort_keys() { std::stable_sort(o.begin(), o.end(), [](const std::pair<std::string, MV>& x, const std::pair<std::string, MV>& y) { return x.first < y.first; }); }
};

// canonical text; sorted=true sorts members by key bytes (json), false keeps order (ojson)
inline void mv_dump(const MV& m, bool sorted, std::string& out) {
    switch (m.k) {
    case MV::Null: out += "null"; break;
    case MV::Bool: out += m.b ? "true" : "false"; break;
    case MV::Int: out += std::to_string(m.i); break;
    case MV::Dbl: { char buf[40]; snprintf(buf, sizeof buf, "D%016llx", (unsigned long long)[&] { u64 b; memcpy(&b, &m.d, 8); return b; }()); out += buf; break; }
    case MV::Str: out += "S" + hex(m.s); break;
    case MV::Arr: { out += "["; bool f = true; for (auto& e : m.a) { if (!f) out += ","; f = false; mv_dump(e, sorted, out); } out += "]"; break; }
    case MV::Obj: {
        std::vector<const std::pair<std::string, MV>*> v; for (auto& kv : m.o) v.push_back(&kv);
        if (sorted) std::stable_sort(v.begin(), v.end(), [](const std::pair<std::string, MV>* x, const std::pair<std::string, MV>* y) { return x->first < y->first; });
        out += "{"; bool f = true; for (auto* kv : v) { if (!f) out += ","; f = false; out += "K" + hex(kv->first) + ":"; mv_dump(kv->second, sorted, out); } out += "}"; break; }
    }
}
inline std::string mv_dump(const MV& m, bool sorted) { std::string s; mv_dump(m, sorted, s); return s; }

template <class Json>
Json mv_to_json(const MV& m) {
    switch (m.k) {
    case MV::Null: return Json::null();
    case MV::Bool: return Json(m.b);
    case MV::Int: return Json(m.i);
    case MV::Dbl: return Json(m.d);
    case MV::Str: return Json(m.s);
    case MV::Arr: { Json a(jsoncons::json_array_arg); for (auto& e : m.a) a.push_back(mv_to_json<Json>(e)); return a; }
    default: { Json o(jsoncons::json_object_arg); for (auto& kv : m.o) o.try_emplace(kv.first, mv_to_json<Json>(kv.second)); return o; }
    }
}

// Reads a basic_json through its public observers only.
template <class Json>
MV mv_from_json(const Json& j) {
    switch (j.type()) {
    case jsoncons::json_type::null: return MV::null();
    case jsoncons::json_type::boolean: return MV::boolean(j.template as<bool>());
    case jsoncons::json_type::int64: return MV::integer(j.template as<i64>());
    case jsoncons::json_type::uint64: { u64 u = j.template as<u64>(); if (u <= (u64)INT64_MAX) return MV::integer((i64)u); MV m = MV::str("U" + std::to_string(u)); return m; }
    case jsoncons::json_type::float64: return MV::dbl(j.template as<double>());
    case jsoncons::json_type::string: return MV::str(std::string(j.as_string_view()));
    case jsoncons::json_type::array: { MV m = MV::arr(); for (const auto& e : j.array_range()) m.a.push_back(mv_from_json(e)); return m; }
    case jsoncons::json_type::object: { MV m = MV::obj(); for (const auto& kv : j.object_range()) m.o.emplace_back(std::string(kv.key()), mv_from_json(kv.value())); return m; }
    default: return MV::str("?kind" + std::to_string((int)j.type()));
    }
}

struct MGen {
    int max_depth = 3, max_width = 4;
    std::vector<std::string> keys = {"a", "b", "c", "d", "", "k~/\"", "\xc3\xa9", "long_member_name_beyond_sso"};
    bool nulls = true;
    bool doubles = false;
};

inline MV gen_mv(Rng& r, const MGen& g, int depth = 0) {
    unsigned k = (unsigned)r.below(10);
    if (depth >= g.max_depth || k < 4) {
        switch (r.below(g.doubles ? 6 : 5)) {
        case 0: if (g.nulls) return MV::null(); return MV::integer(0);
        case 1: return MV::boolean(r.coin());
        case 2: return MV::integer(r.range(-3, 3));
        case 3: { static const char* ss[] = {"", "x", "y", "a longer string value that does not fit the short buffer", "\xe2\x82\xac"}; return MV::str(r.pick(ss)); }
        case 4: return MV::integer((i64)r.next());
        default: return MV::dbl((double)r.range(-8, 8) / 4.0);
        }
    }
    size_t w = r.below((u64)g.max_width + 1);
    if (k < 6) { MV m = MV::arr(); for (size_t j = 0; j < w; ++j) m.a.push_back(gen_mv(r, g, depth + 1)); return m; }
    MV m = MV::obj();
    for (size_t j = 0; j < w; ++j) { const std::string& key = r.pick(g.keys); if (!m.find(key)) m.o.emplace_back(key, gen_mv(r, g, depth + 1)); }
    return m;
}

inline bool mv_has_null_member(const MV& m) {
    if (m.k == MV::Obj) { for (auto& kv : m.o) if (kv.second.k == MV::Null || mv_has_null_member(kv.second)) return true; }
    if (m.k == MV::Arr) { for (auto& e : m.a) if (mv_has_null_member(e)) return true; }
    return false;
}

} // namespace vf
#endif
