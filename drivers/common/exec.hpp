// Request/reply loop shared by the 'exec' drivers used by recorded-log monitors: one JSON request per stdin line,
// one JSON reply per stdout line. Requests are produced by the framework itself (trusted), replies are built by hand.
#ifndef VERIF_EXEC_HPP
#define VERIF_EXEC_HPP
#include "jvalue.hpp"
#include <iostream>
#include <functional>

namespace vf {

inline int exec_loop(int argc, char** argv, const std::function<std::string(const jsoncons::json&)>& handle) {
    (void)argc; (void)argv;
    install_handlers(60);
    std::ios::sync_with_stdio(false);
    std::string line; long long n = 0;
    while (std::getline(std::cin, line)) {
        if (line.empty()) continue;
        flight().case_no = n++;
        set_flight_desc(line.substr(0, 3000));
        jsoncons::json req = jsoncons::json::parse(line);
        std::string body;
        try { body = handle(req); }
        catch (const jsoncons::json_exception& e) { body = J().str("exception", std::string("json_exception:") + e.what()).str("type", current_exception_type()).done(); body = body.substr(1, body.size() - 2); }
        catch (const std::exception& e) { body = J().str("exception", std::string("foreign:") + e.what()).str("type", current_exception_type()).done(); body = body.substr(1, body.size() - 2); }
        std::cout << "{\"id\":" << req["id"].as<long long>() << (body.empty() ? "" : ",") << body << "}\n" << std::flush;
    }
    return 0;
}

// plain JSON text of a value for replies whose consumer is Python's json module (numbers kept exact as strings by describe() where needed)
inline std::string kv(const char* k, const std::string& raw_json) { return std::string("\"") + k + "\":" + raw_json; }

} // namespace vf
#endif
