// Exception-channel classification for the C05 robustness drivers.
#ifndef VERIF_ROBUST_HPP
#define VERIF_ROBUST_HPP
#include "harness.hpp"
#include <jsoncons/json_exception.hpp>
#include <new>

namespace vf {

extern Harness* g_robust_harness;
extern std::string g_robust_input;      // description of the input in flight (hex / text), set by the driver

inline std::string strip_numbers(std::string s) { for (auto& c : s) if (c >= '0' && c <= '9') c = 'N'; std::string o; for (char c : s) { if (c == 'N' && !o.empty() && o.back() == 'N') continue; o.push_back(c); } return o.substr(0, 90); }

// Runs f; documented error channels (json_exception subtypes, error codes handled by f) are counted, anything else is a violation.
template <class F> bool guard(const char* entry, F f) {
    Harness& H = *g_robust_harness;
    H.count_(std::string("entry.") + entry);
    try { f(); return true; }
    catch (const jsoncons::assertion_error& e) {
        // the assertion text names the call site; the family (csv, cbor, jsonpath, ...) keeps signatures stable across entry points that share it
        std::string fam(entry); if (fam.rfind("witness.", 0) != 0) fam = fam.substr(0, fam.find('.'));
        H.violation(std::string("robust/") + fam + "/internal-assertion/" + strip_numbers(e.what()), J().str("entry", entry).str("what", e.what()).str("input", g_robust_input.substr(0, 4000)).done()); }
    catch (const std::bad_alloc&) { H.violation(std::string("robust/") + entry + "/bad_alloc-on-bounded-input", J().str("input", g_robust_input.substr(0, 4000)).done()); }
    catch (const jsoncons::json_exception&) { H.count_(std::string("reported.") + entry); }
    catch (const std::exception& e) { H.violation(std::string("robust/") + entry + "/foreign-exception/" + current_exception_type(), J().str("what", e.what()).str("input", g_robust_input.substr(0, 4000)).done()); }
    catch (...) { H.violation(std::string("robust/") + entry + "/foreign-exception/" + current_exception_type(), J().str("input", g_robust_input.substr(0, 4000)).done()); }
    return false;
}

} // namespace vf

#if defined(__SANITIZE_ADDRESS__)
extern "C" int __lsan_do_recoverable_leak_check();
#endif
namespace vf {
inline void leak_window_check(long long case_no) {
#if defined(__SANITIZE_ADDRESS__)
    if (__lsan_do_recoverable_leak_check()) g_robust_harness->violation("robust/leak", J().num("window_end_case", case_no).done());
#else
    (void)case_no;
#endif
}
}
#endif
