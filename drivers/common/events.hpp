// Event recording shared by delivery-independence monitors: a recording visitor and the
// equivalent rendering of staj (pull) events, so push and pull event sequences compare textually.
#ifndef VERIF_EVENTS_HPP
#define VERIF_EVENTS_HPP
#include "jvalue.hpp"
#include <jsoncons/json_visitor.hpp>
#include <jsoncons/staj_event.hpp>

namespace vf {

struct Recorder : public jsoncons::basic_json_visitor<char> {
    std::vector<std::string> ev;
    size_t cap = 2000000;
    using string_view_type = jsoncons::basic_json_visitor<char>::string_view_type;
    static std::string tg(jsoncons::semantic_tag t) { t = norm_tag(t); return t == jsoncons::semantic_tag::none ? "" : std::string(":") + tag_name(t); }
    void add(std::string s) { if (ev.size() < cap) ev.push_back(std::move(s)); }
private:
    void visit_flush() override {}
    JSONCONS_VISITOR_RETURN_TYPE visit_begin_object(jsoncons::semantic_tag t, const jsoncons::ser_context&, std::error_code&) override { add("BO" + tg(t)); JSONCONS_VISITOR_RETURN; }
    JSONCONS_VISITOR_RETURN_TYPE visit_end_object(const jsoncons::ser_context&, std::error_code&) override { add("EO"); JSONCONS_VISITOR_RETURN; }
    JSONCONS_VISITOR_RETURN_TYPE visit_begin_array(jsoncons::semantic_tag t, const jsoncons::ser_context&, std::error_code&) override { add("BA" + tg(t)); JSONCONS_VISITOR_RETURN; }
    JSONCONS_VISITOR_RETURN_TYPE visit_end_array(const jsoncons::ser_context&, std::error_code&) override { add("EA"); JSONCONS_VISITOR_RETURN; }
    JSONCONS_VISITOR_RETURN_TYPE visit_key(const string_view_type& s, const jsoncons::ser_context&, std::error_code&) override { add("K:" + hex(s.data(), s.size())); JSONCONS_VISITOR_RETURN; }
    JSONCONS_VISITOR_RETURN_TYPE visit_null(jsoncons::semantic_tag t, const jsoncons::ser_context&, std::error_code&) override { add("N" + tg(t)); JSONCONS_VISITOR_RETURN; }
    JSONCONS_VISITOR_RETURN_TYPE visit_bool(bool b, jsoncons::semantic_tag, const jsoncons::ser_context&, std::error_code&) override { add(b ? "T" : "F"); JSONCONS_VISITOR_RETURN; }
    JSONCONS_VISITOR_RETURN_TYPE visit_string(const string_view_type& s, jsoncons::semantic_tag t, const jsoncons::ser_context&, std::error_code&) override { add("S:" + hex(s.data(), s.size()) + tg(t)); JSONCONS_VISITOR_RETURN; }
    JSONCONS_VISITOR_RETURN_TYPE visit_byte_string(const jsoncons::byte_string_view& b, jsoncons::semantic_tag t, const jsoncons::ser_context&, std::error_code&) override { add("B:" + hex(b.data(), b.size()) + tg(t)); JSONCONS_VISITOR_RETURN; }
    JSONCONS_VISITOR_RETURN_TYPE visit_byte_string(const jsoncons::byte_string_view& b, uint64_t ext, const jsoncons::ser_context&, std::error_code&) override { add("B:" + hex(b.data(), b.size()) + ":ext" + std::to_string(ext)); JSONCONS_VISITOR_RETURN; }
    JSONCONS_VISITOR_RETURN_TYPE visit_uint64(uint64_t v, jsoncons::semantic_tag t, const jsoncons::ser_context&, std::error_code&) override { add("U:" + std::to_string(v) + tg(t)); JSONCONS_VISITOR_RETURN; }
    JSONCONS_VISITOR_RETURN_TYPE visit_int64(int64_t v, jsoncons::semantic_tag t, const jsoncons::ser_context&, std::error_code&) override { add("I:" + std::to_string(v) + tg(t)); JSONCONS_VISITOR_RETURN; }
    JSONCONS_VISITOR_RETURN_TYPE visit_half(uint16_t v, jsoncons::semantic_tag t, const jsoncons::ser_context&, std::error_code&) override { add("H:" + std::to_string(v) + tg(t)); JSONCONS_VISITOR_RETURN; }
    JSONCONS_VISITOR_RETURN_TYPE visit_double(double v, jsoncons::semantic_tag t, const jsoncons::ser_context&, std::error_code&) override {
        u64 b = double_to_bits(v); if (v != v) b = 0x7ff8000000000000ULL; char buf[24]; snprintf(buf, sizeof buf, "%016llx", (unsigned long long)b); add(std::string("D:") + buf + tg(t)); JSONCONS_VISITOR_RETURN; }
};

inline std::string render(const jsoncons::staj_event& e) {
    using jsoncons::staj_event_type;
    auto tg = [&]() { return Recorder::tg(e.tag()); };
    switch (e.event_type()) {
    case staj_event_type::begin_array: return "BA" + tg();
    case staj_event_type::end_array: return "EA";
    case staj_event_type::begin_object: return "BO" + tg();
    case staj_event_type::end_object: return "EO";
    case staj_event_type::key: { auto s = e.get<jsoncons::string_view>(); return "K:" + hex(s.data(), s.size()); }
    case staj_event_type::string_value: { auto s = e.get<jsoncons::string_view>(); return "S:" + hex(s.data(), s.size()) + tg(); }
    case staj_event_type::byte_string_value: { auto b = e.get<jsoncons::byte_string_view>(); std::string r = "B:" + hex(b.data(), b.size());
        if (e.tag() == jsoncons::semantic_tag::ext) return r + ":ext" + std::to_string(e.ext_tag()); return r + tg(); }
    case staj_event_type::null_value: return "N" + tg();
    case staj_event_type::bool_value: return e.get<bool>() ? "T" : "F";
    case staj_event_type::int64_value: return "I:" + std::to_string(e.get<int64_t>()) + tg();
    case staj_event_type::uint64_value: return "U:" + std::to_string(e.get<uint64_t>()) + tg();
    case staj_event_type::half_value: return "H:" + std::to_string(e.get<uint16_t>()) + tg();
    case staj_event_type::double_value: { double v = e.get<double>(); u64 b = double_to_bits(v); if (v != v) b = 0x7ff8000000000000ULL; char buf[24]; snprintf(buf, sizeof buf, "%016llx", (unsigned long long)b); return std::string("D:") + buf + tg(); }
    default: return "?";
    }
}

inline std::string join(const std::vector<std::string>& v, size_t from = 0, size_t to = (size_t)-1) {
    std::string s; for (size_t i = from; i < v.size() && i < to; ++i) { if (!s.empty()) s += ' '; s += v[i]; } return s;
}

inline std::string ec_name(const std::error_code& ec) { return ec ? std::string(ec.category().name()) + ":" + std::to_string(ec.value()) + ":" + ec.message() : "ok"; }

} // namespace vf
#endif
