// C17 stage "overloads": one representative type per decode_traits / encode_traits path, additionally through the
// std::ostream / std::istream overloads and the iterator-range overloads of every format.
#define C17_OVERLOADS 1
#include "c17/typed.hpp"
#include "c17/types_class.hpp"
#include "c17/types_poly.hpp"
static_assert(C17_SHARED_REV == 10, "drivers/c17/*.hpp changed: bump the revision here so that the build cache is invalidated");
using namespace c17;
using namespace c17t;
using std::vector; using std::string;

int main(int argc, char** argv) {
    std::vector<TypeEntry> t = {
        entry<int64_t>(), entry<double>(), entry<string>(),
        entry<vector<int32_t>>(), entry<vector<uint8_t>>(), entry<vector<string>>(), entry<std::set<string>>(), entry<std::forward_list<string>>(),
        entry<std::array<int32_t, 3>>(), entry<std::pair<int32_t, string>>(), entry<std::tuple<int32_t, string, double>>(),
        entry<std::map<string, vector<int32_t>>>(), entry<std::map<int32_t, string>>(),
        entry<std::optional<string>>(), entry<std::variant<int64_t, string>>(), entry<Color>(),
        entry<NMember>(), entry<NCtorGetter>(), entry<AllGetterSetterName>(), entry<std::shared_ptr<Shape>>(),
    };
    return run_table(argc, argv, t);
}
