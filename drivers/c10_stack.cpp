// C10 (part 2): values nested up to the default limit are copied, compared, serialized, parsed and destroyed
// within a small fixed stack; destruction stays stack-safe at any depth.
// Built without sanitizers (ASan inflates frames): the thread stack is an mmap'd region painted with a pattern,
// with a PROT_NONE guard page below it; the high-water mark is measured after each operation and a guard-page
// hit (SIGSEGV on the alternate stack) is reported as the violation.
#include "common/jvalue.hpp"
#include <jsoncons/json.hpp>
#include <jsoncons_ext/cbor/cbor.hpp>
#include <jsoncons_ext/msgpack/msgpack.hpp>
#include <pthread.h>
#include <sys/mman.h>

using namespace vf;
using namespace jsoncons;
static Harness H;

static const size_t STACK_BYTES = 256 * 1024;        // the "small fixed stack" of the property
static const size_t GUARD = 4096;

struct Job { std::function<void()> fn; };
static char g_alt[1 << 16];
static void* tramp(void* p) {
    stack_t ss; ss.ss_sp = g_alt; ss.ss_size = sizeof g_alt; ss.ss_flags = 0; sigaltstack(&ss, nullptr);   // so that a guard-page hit can be reported
    ((Job*)p)->fn();
    ss.ss_flags = SS_DISABLE; sigaltstack(&ss, nullptr);
    return nullptr;
}

// runs fn on a painted stack of `bytes`; returns bytes used (high-water mark)
static size_t run_on_stack(size_t bytes, const std::function<void()>& fn) {
    size_t total = bytes + GUARD;
    char* mem = (char*)mmap(nullptr, total, PROT_READ | PROT_WRITE, MAP_PRIVATE | MAP_ANONYMOUS, -1, 0);
    if (mem == MAP_FAILED) { perror("mmap"); exit(3); }
    mprotect(mem, GUARD, PROT_NONE);
    memset(mem + GUARD, 0xA5, bytes);
    pthread_attr_t at; pthread_attr_init(&at); pthread_attr_setstack(&at, mem + GUARD, bytes);
    pthread_t th; Job j{fn};
    if (pthread_create(&th, &at, tramp, &j) != 0) { perror("pthread_create"); exit(3); }
    pthread_join(th, nullptr);
    size_t untouched = 0; const unsigned char* q = (const unsigned char*)mem + GUARD;
    while (untouched < bytes && q[untouched] == 0xA5) ++untouched;
    munmap(mem, total);
    return bytes - untouched;
}

template <class Json> static Json nested(size_t d, int kind) {
    Json v(1);
    for (size_t i = 0; i < d; ++i) {
        bool obj = kind == 1 || (kind == 2 && (i % 2));
        Json w(obj ? Json(json_object_arg) : Json(json_array_arg));
        if (obj) { w.try_emplace("a", std::move(v)); if (kind == 2) w.try_emplace("b", 2); } else { w.push_back(std::move(v)); if (kind == 2) w.push_back("x"); }
        v = std::move(w);
    }
    return v;
}

template <class Json> static void ops_at_depth(const char* policy, size_t d, int kind) {
    static const char* kn[] = {"array", "object", "mixed"};
    Json* src = new Json(nested<Json>(d, kind));      // built and owned on the big main stack
    Json* other = new Json(nested<Json>(d, kind));
    std::string text; std::vector<uint8_t> cb;
    struct Op { const char* name; std::function<void()> fn; };
    Json* copy = nullptr; bool eq = false, lt = false; Json* parsed = nullptr;
    std::vector<Op> ops = {
        {"copy", [&] { copy = new Json(*src); }},
        {"compare-equal", [&] { eq = (*src == *other); }},
        {"compare-less", [&] { lt = (*src < *other); }},
        {"dump", [&] { src->dump(text); }},
        {"dump-pretty", [&] { std::string t; src->dump_pretty(t); }},
        {"parse", [&] { parsed = new Json(Json::parse(text)); }},
        {"encode-cbor", [&] { cbor::encode_cbor(*src, cb); }},
        {"decode-cbor", [&] { Json x = cbor::decode_cbor<Json>(cb); (void)x; }},
        {"copy-assign", [&] { *other = *src; }},
        {"destroy", [&] { delete copy; copy = nullptr; }},
        {"swap+clear", [&] { Json e; e.swap(*other); e.clear(); }},
    };
    for (auto& op : ops) {
        set_flight_desc(std::string(policy) + " " + kn[kind] + " depth " + std::to_string(d) + " " + op.name);
        size_t used = run_on_stack(STACK_BYTES, op.fn);
        std::string key = std::string("stack_bytes.") + op.name;
        if (used > H.counters[key]) H.counters[key] = used;
        H.count_("stack.ops");
        if (used >= STACK_BYTES - 1024) H.violation(std::string("limits/stack/") + policy + "/" + op.name + "/exhausted", J().unum("depth", d).str("kind", kn[kind]).unum("used", used).done());
    }
    if (!eq || lt) H.violation(std::string("limits/stack/") + policy + "/compare-wrong", J().unum("depth", d).done());
    delete parsed; delete src; delete other;
}

// a value nested `d` deep built iteratively and destroyed on the small stack
template <class Json> static void deep_destroy(const char* policy, size_t d, int kind) {
    Json* v = new Json(nested<Json>(d, kind));
    set_flight_desc(std::string(policy) + " destroy depth " + std::to_string(d));
    size_t used = run_on_stack(STACK_BYTES, [&] { delete v; });
    u64& mx = H.counters["stack_bytes.deep-destroy"]; if (used > mx) mx = used;
    H.count_("stack.deep_destroys");
    if (used >= STACK_BYTES - 1024) H.violation(std::string("limits/stack/") + policy + "/deep-destroy/exhausted", J().unum("depth", d).done());
}

int main(int argc, char** argv) {
    H.parse(argc, argv);
    bool thorough = H.tier == "thorough";
    auto body = [&](long long c) {
        Rng r = H.case_rng(c);
        H.note_distinct((u64)c);
        int kind = (int)r.below(3);
        if (c % 3 == 2) { size_t d = (thorough ? 1000000 : 200000) + r.below(1000); if (c % 2) deep_destroy<json>("json", d, kind); else deep_destroy<ojson>("ojson", d, kind); return; }
        size_t d = r.coin() ? 1024 - r.below(3) : 1 + r.below(1024);
        if (c % 2) ops_at_depth<json>("json", d, kind); else ops_at_depth<ojson>("ojson", d, kind);
        if (H.sample_seen < 6) H.sample(J().unum("depth", d).num("kind", kind).done()); else ++H.sample_seen;
    };
    auto regress = [&]() { for (int k = 0; k < 3; ++k) { ops_at_depth<json>("json", 1024, k); ops_at_depth<ojson>("ojson", 1024, k); } deep_destroy<json>("json", 1000000, 0); deep_destroy<ojson>("ojson", 1000000, 1); };
    return H.run(body, regress);
}
