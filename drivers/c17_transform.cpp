// C17 stage "transform": classes described with every *_NAME_TRAITS macro family whose members use the long member form
// (name, mode, match, into, from): Into/From transformed members in mandatory and in optional position, match predicates, a
// JSONCONS_RDONLY tag member.  All common checks of c17/typed.hpp apply (five formats, both routes, same value, try_ variants, shape damage
// including values that the match predicate must refuse).
#include "c17/typed.hpp"
#include "c17/types_transform.hpp"
using namespace c17;
using namespace c17t;

int main(int argc, char** argv) {
    std::vector<TypeEntry> t = {
        entry<TA>(), entry<TN>(), entry<TAC>(), entry<TNC>(), entry<TAG>(), entry<TNG>(),
        entry<std::vector<TN>>(), entry<std::map<std::string, TNC>>(), entry<std::optional<TNG>>(),
    };
    return run_table(argc, argv, t);
}
