// Exec driver for the query-language monitors (C12 JSONPath, C13 JMESPath): executes the real library on
// (document, expression) pairs and reports everything the offline oracles need. Documents travel as JSON text,
// results come back as JSON text produced by dump() (wrapped as latin-1 escaped strings, see jstr()).
#include "common/exec.hpp"
#include <jsoncons/json.hpp>
#include <jsoncons_ext/jsonpath/jsonpath.hpp>
#include <jsoncons_ext/jmespath/jmespath.hpp>

using namespace jsoncons;
using namespace vf;

static std::string ec_text(const std::error_code& ec) { return std::string(ec.category().name()) + ":" + std::to_string(ec.value()) + ":" + ec.message(); }
static std::string dumped(const json& v) { std::string s; v.dump(s); return s; }

// runs f(); on a json_exception adds "<key>_throw": text to out and returns false
template <class F> static bool attempt(std::string& out, const char* key, F f) {
    try { f(); return true; }
    catch (const jsonpath::jsonpath_error& e) { out += "," + kv((std::string(key) + "_throw").c_str(), jstr(std::string("jsonpath_error:") + ec_text(e.code()) + ":" + e.what())); }
    catch (const json_exception&) { try { throw; } catch (const std::exception& e) { out += "," + kv((std::string(key) + "_throw").c_str(), jstr(current_exception_type() + ":" + e.what())); } }
    return false;
}

static std::string do_jsonpath(const json& req) {
    const std::string doc_text = req["doc"].as<std::string>();
    const std::string expr = req["expr"].as<std::string>();
    const std::string marker_text = req.get_value_or<std::string>("marker", "@@MARK@@ replaced by json_replace @@MARK@@");
    const json doc = json::parse(doc_text);
    using jsonpath::result_options;
    std::string out;

    // (g) compiled expression (error_code interface)
    std::error_code ec;
    auto compiled = jsonpath::make_expression<json>(expr, ec);
    out += kv("ok", ec ? "false" : "true");
    if (ec) out += "," + kv("ec", jstr(ec_text(ec)));

    // (a)-(e) one-shot queries
    json paths(json_array_arg);
    bool have_paths = false;
    attempt(out, "values", [&] { json r = jsonpath::json_query(doc, expr); out += "," + kv("values", jstr(dumped(r))); });
    attempt(out, "paths", [&] { paths = jsonpath::json_query(doc, expr, result_options::path); have_paths = true; out += "," + kv("paths", jstr(dumped(paths))); });
    attempt(out, "nodups", [&] { json r = jsonpath::json_query(doc, expr, result_options::path | result_options::nodups); out += "," + kv("nodups", jstr(dumped(r))); });
    attempt(out, "sort", [&] { json r = jsonpath::json_query(doc, expr, result_options::path | result_options::sort); out += "," + kv("sort", jstr(dumped(r))); });
    attempt(out, "nodups_sort", [&] { json r = jsonpath::json_query(doc, expr, result_options::path | result_options::nodups | result_options::sort); out += "," + kv("nodups_sort", jstr(dumped(r))); });
    attempt(out, "nodups_v", [&] { json r = jsonpath::json_query(doc, expr, result_options::nodups); out += "," + kv("nodups_v", jstr(dumped(r))); });
    attempt(out, "sort_v", [&] { json r = jsonpath::json_query(doc, expr, result_options::sort); out += "," + kv("sort_v", jstr(dumped(r))); });
    attempt(out, "nodups_sort_v", [&] { json r = jsonpath::json_query(doc, expr, result_options::nodups | result_options::sort); out += "," + kv("nodups_sort_v", jstr(dumped(r))); });

    // (f) callback overload
    attempt(out, "cb", [&] {
        json cp(json_array_arg), cv(json_array_arg);
        jsonpath::json_query(doc, expr, [&](const std::string& p, const json& v) { cp.push_back(p); cv.push_back(v); });
        out += "," + kv("cb_paths", jstr(dumped(cp))) + "," + kv("cb_values", jstr(dumped(cv)));
    });

    // (g) compiled evaluation
    if (!ec) {
        attempt(out, "c_values", [&] { json r = compiled.evaluate(doc); out += "," + kv("c_values", jstr(dumped(r))); });
        attempt(out, "c_paths", [&] { json r = compiled.evaluate(doc, result_options::path); out += "," + kv("c_paths", jstr(dumped(r))); });
        attempt(out, "c_cb", [&] {
            json cp(json_array_arg), cv(json_array_arg);
            compiled.evaluate(doc, [&](const std::string& p, const json& v) { cp.push_back(p); cv.push_back(v); });
            out += "," + kv("c_cb_paths", jstr(dumped(cp))) + "," + kv("c_cb_values", jstr(dumped(cv)));
        });
        // a second evaluation of the same compiled expression must not depend on the first
        attempt(out, "c_values2", [&] { json r = compiled.evaluate(doc); out += "," + kv("c_values2", jstr(dumped(r))); });
    }

    // (h) every returned normalized path, resolved with json_location::parse + get
    if (have_paths) {
        attempt(out, "get", [&] {
            json found(json_array_arg), vals(json_array_arg), errs(json_array_arg);
            for (const auto& p : paths.array_range()) {
                std::error_code lec;
                auto loc = jsonpath::json_location::parse(p.as<std::string>(), lec);
                if (lec) { found.push_back(false); vals.push_back(json::null()); errs.push_back(ec_text(lec)); continue; }
                auto r = jsonpath::get(doc, loc);
                found.push_back(r.second);
                vals.push_back(r.second ? *r.first : json::null());
                errs.push_back(json::null());
            }
            out += "," + kv("get_found", jstr(dumped(found))) + "," + kv("get_values", jstr(dumped(vals))) + "," + kv("get_errors", jstr(dumped(errs)));
        });
    }

    // the const queries above must not have changed the document
    out += "," + kv("doc_after", jstr(dumped(doc)));
    out += "," + kv("doc_parsed", jstr(dumped(json::parse(doc_text))));

    // (i) json_replace with a marker value (as json and as std::string), and through the callback overload
    // (json_replace takes the new value by forwarding reference and only accepts non-reference T: a temporary)
    attempt(out, "replaced", [&] { json d2 = doc; jsonpath::json_replace(d2, expr, json(marker_text)); out += "," + kv("replaced", jstr(dumped(d2))); });
    attempt(out, "replaced_str", [&] { json d2 = doc; jsonpath::json_replace(d2, expr, std::string(marker_text)); out += "," + kv("replaced_str", jstr(dumped(d2))); });
    attempt(out, "replaced_cb", [&] {
        json d2 = doc; json seen(json_array_arg); const json marker(marker_text);
        jsonpath::json_replace(d2, expr, [&](const std::string& p, json& v) { seen.push_back(p); v = marker; });
        out += "," + kv("replaced_cb", jstr(dumped(d2))) + "," + kv("replaced_cb_paths", jstr(dumped(seen)));
    });
    return out;
}

static std::string do_jmespath(const json& req) {
    const std::string doc_text = req["doc"].as<std::string>();
    const std::string expr = req["expr"].as<std::string>();
    const json doc = json::parse(doc_text);
    std::string out;
    {
        std::error_code ec;
        json r = jmespath::search(doc, expr, ec);
        out += ec ? kv("search_err", jstr(ec_text(ec))) : kv("search", jstr(dumped(r)));
    }
    {
        std::error_code ec;
        auto compiled = jmespath::make_expression<json>(expr, ec);
        if (ec) out += "," + kv("c_err", jstr(ec_text(ec)));
        else {
            for (const char* key : {"c1", "c2"}) {
                std::error_code ec2;
                json r = compiled.evaluate(doc, ec2);
                out += "," + (ec2 ? kv((std::string(key) + "_err").c_str(), jstr(ec_text(ec2))) : kv(key, jstr(dumped(r))));
            }
        }
    }
    out += "," + kv("doc_after", jstr(dumped(doc)));
    out += "," + kv("doc_parsed", jstr(dumped(json::parse(doc_text))));
    return out;
}

static std::string handle(const json& req) {
    std::string op = req["op"].as<std::string>();
    if (op == "jsonpath") return do_jsonpath(req);
    if (op == "jmespath") return do_jmespath(req);
    return kv("error", jstr("unknown op"));
}

int main(int argc, char** argv) { return exec_loop(argc, argv, handle); }
