// Exec driver for the JSON Schema verdict monitor (C11): compiles a schema with the real library and reports, for each
// instance, the verdicts of every validating entry point (is_valid, validate with reporter, throwing validate, is_valid
// again on the same compiled schema) and the instance locations visited by walk. Judged offline by vlib/monitors/c11.py.
//
// request : {"id":n,"schema":"<json text>","instances":["<json text>",...],"policy":"json"|"ojson",
//            "default_version":<uri|null>,"compat":bool?,"format":bool?}
// reply   : {"id":n,"compile_error":"..."}                       schema refused (json_exception)
//         | {"id":n,"parse_error":"..."}                         schema text is not JSON (harness problem)
//         | {"id":n,"results":[{"v":b,"n":k,"msgs":[[keyword,location],..],"threw":b,"v2":b,"walk_n":k,"walk":[[keyword,location],..]},..]}
//           a call that ends in an exception other than validation_error adds "error":{"call":..,"what":..,"type":..} (first such call)
#include "common/exec.hpp"
#include <jsoncons/json.hpp>
#include <jsoncons_ext/jsonschema/jsonschema.hpp>
#include <set>

using namespace jsoncons;
using namespace vf;

static std::string what_of_current() {
    try { throw; }
    catch (const std::exception& e) { return e.what(); }
    catch (const json_exception& e) { return e.what(); }
    catch (...) { return "?"; }
}

template <class Json> static std::string run_schema(const json& req) {
    Json sch;
    try { sch = Json::parse(req["schema"].as<std::string>()); }
    catch (const json_exception&) { return kv("parse_error", jstr(what_of_current())); }

    jsonschema::evaluation_options opts;
    if (req.contains("default_version") && req["default_version"].is_string()) opts.default_version(req["default_version"].as<std::string>());
    if (req.contains("compat") && req["compat"].is_bool()) opts.compatibility_mode(req["compat"].as<bool>());
    if (req.contains("format") && req["format"].is_bool()) opts.require_format_validation(req["format"].as<bool>());

    jsoncons::optional<jsonschema::json_schema<Json>> compiled;
    try { compiled.emplace(jsonschema::make_json_schema(sch, opts)); }
    catch (const json_exception&) { std::string t = current_exception_type(); return kv("compile_error", jstr(what_of_current())) + "," + kv("type", jstr(t)); }

    std::string out = "[";
    bool first = true;
    for (const auto& it : req["instances"].array_range()) {
        Json inst;
        try { inst = Json::parse(it.as<std::string>()); }
        catch (const json_exception&) { return kv("parse_error", jstr(std::string("instance: ") + what_of_current())); }
        std::string err;
        auto note = [&](const char* call) { if (err.empty()) err = J().str("call", call).str("what", what_of_current()).str("type", current_exception_type()).done(); };

        bool v = false, v2 = false, threw = false;
        size_t n = 0; std::string msgs = "[";
        size_t wn = 0; std::set<std::pair<std::string, std::string>> wlocs;

        try { v = compiled->is_valid(inst); } catch (const json_exception&) { note("is_valid"); } catch (const std::exception&) { note("is_valid"); }
        try {
            compiled->validate(inst, [&](const jsonschema::validation_message& m) {
                if (n < 6) { if (n) msgs += ","; msgs += "[" + jstr(m.keyword()) + "," + jstr(m.instance_location().string()) + "]"; }
                ++n; return jsonschema::walk_result::advance; });
        } catch (const json_exception&) { note("validate(reporter)"); } catch (const std::exception&) { note("validate(reporter)"); }
        msgs += "]";
        try { compiled->validate(inst); }
        catch (const jsonschema::validation_error&) { threw = true; }
        catch (const json_exception&) { note("validate"); } catch (const std::exception&) { note("validate"); }
        try { v2 = compiled->is_valid(inst); } catch (const json_exception&) { note("is_valid#2"); } catch (const std::exception&) { note("is_valid#2"); }
        try {
            compiled->walk(inst, [&](const std::string& keyword, const Json& schema, const uri& schema_location, const Json& instance, const jsonpointer::json_pointer& loc) {
                (void)schema; (void)schema_location; (void)instance;
                ++wn; if (wlocs.size() < 64) wlocs.insert(std::make_pair(loc.string(), keyword));
                return jsonschema::walk_result::advance; });
        } catch (const json_exception&) { note("walk"); } catch (const std::exception&) { note("walk"); }

        std::string w = "[";
        { bool f = true; for (const auto& s : wlocs) { if (!f) w += ","; f = false; w += "[" + jstr(s.second) + "," + jstr(s.first) + "]"; } }
        w += "]";
        J rec;
        rec.boolean("v", v).unum("n", n).raw("msgs", msgs).boolean("threw", threw).boolean("v2", v2).unum("walk_n", wn).raw("walk", w);
        if (!err.empty()) rec.raw("error", err);
        if (!first) out += ",";
        first = false;
        out += rec.done();
    }
    out += "]";
    return kv("results", out);
}

static std::string handle(const json& req) {
    std::string policy = req.get_value_or<std::string>("policy", "json");
    if (policy == "ojson") return run_schema<ojson>(req);
    return run_schema<json>(req);
}

int main(int argc, char** argv) { return exec_loop(argc, argv, handle); }
