// C03: decoding does not depend on how the input is delivered.
// Differential monitor: the outcome (event sequence on success, error code on failure) of the reference
// delivery (whole buffer, push visitor) must equal the outcome of every other delivery of the same input:
// stream sources with every/any chunk size, iterator sources, the incremental parser fed with arbitrary
// splits, pull cursors (next walk, read_to, filter view) and staj iterators.
#include "common/events.hpp"
#include <jsoncons/json.hpp>
#include <jsoncons_ext/cbor/cbor.hpp>
#include <jsoncons_ext/msgpack/msgpack.hpp>
#include <jsoncons_ext/ubjson/ubjson.hpp>
#include <jsoncons_ext/bson/bson.hpp>
#include <jsoncons_ext/csv/csv.hpp>
#include <sstream>
#include <forward_list>
#include <memory>
#include <set>

using namespace vf;
using namespace jsoncons;

static Harness H;

struct Outcome {
    std::string status;               // "ok" | "novalue" | error name
    std::vector<std::string> ev;
    std::string key() const { return status == "ok" ? "ok " + join(ev) : status; }
};
static Outcome norm(Outcome o) {
    // a reader that returns without error but produced no value is the outcome json::parse reports as unexpected_eof
    if (o.status == "ok" && o.ev.empty()) o.status = "eof";
    if (o.status.find(":Unexpected end of file") != std::string::npos) o.status = "eof";
    return o;
}
static std::string short_status(const std::string& s) { size_t p = s.find(':'); size_t q = p == std::string::npos ? p : s.find(':', p + 1); return q == std::string::npos ? s : s.substr(0, q); }

static std::set<std::string>* g_states = nullptr;

// ------------------------------------------------------------------ JSON deliveries
static json_options g_jopts;

static Outcome js_ref(const std::string& t) {
    Outcome o; Recorder rec; std::error_code ec;
    json_string_reader rd(t, rec, g_jopts); rd.read(ec);
    o.status = ec_name(ec); o.ev = std::move(rec.ev); return norm(o);
}
static Outcome js_stream(const std::string& t, size_t k) {
    Outcome o; Recorder rec; std::error_code ec; std::istringstream is(t);
    basic_json_reader<char, stream_source<char>> rd(stream_source<char>(is, k), rec, g_jopts); rd.read(ec);
    o.status = ec_name(ec); o.ev = std::move(rec.ev); return norm(o);
}
static Outcome js_iter(const std::string& t, size_t k) {
    Outcome o; Recorder rec; std::error_code ec; std::forward_list<char> fl(t.begin(), t.end());
    using It = std::forward_list<char>::iterator;
    basic_json_reader<char, iterator_source<It>> rd(iterator_source<It>(fl.begin(), fl.end(), k), rec, g_jopts); rd.read(ec);
    o.status = ec_name(ec); o.ev = std::move(rec.ev); return norm(o);
}
// incremental parser fed chunk by chunk, following the protocol json_reader itself uses
static Outcome js_incremental(const std::string& t, const std::vector<size_t>& cuts) {
    Outcome o; Recorder rec; std::error_code ec;
    std::vector<std::unique_ptr<char[]>> bufs; std::vector<size_t> lens;      // each chunk in its own exact-size heap block: over-reads are ASan-visible
    size_t prev = 0;
    for (size_t c : cuts) { if (c > prev) { std::unique_ptr<char[]> b(new char[c - prev]); memcpy(b.get(), t.data() + prev, c - prev); bufs.push_back(std::move(b)); lens.push_back(c - prev); prev = c; } }
    if (t.size() > prev) { std::unique_ptr<char[]> b(new char[t.size() - prev]); memcpy(b.get(), t.data() + prev, t.size() - prev); bufs.push_back(std::move(b)); lens.push_back(t.size() - prev); }
    json_parser parser(g_jopts);
    size_t ci = 0;
    parser.reset();
    while (!parser.stopped()) {
        if (parser.source_exhausted() && ci < bufs.size()) {
#ifdef JSONCONS_VERIF
            if (g_states && ci > 0) g_states->insert(parser.verif_suspend_state());
#endif
            parser.update(bufs[ci].get(), lens[ci]); ++ci;
        }
        bool eof = parser.source_exhausted();
        parser.parse_some(rec, ec);
        if (ec) { o.status = ec_name(ec); o.ev = std::move(rec.ev); return norm(o); }
        if (eof) {
            if (parser.enter()) break;
            else if (!parser.accept()) { o.status = ec_name(make_error_code(json_errc::unexpected_eof)); o.ev = std::move(rec.ev); return norm(o); }
        }
    }
    // trailing content
    parser.check_done(ec);
    while (!ec && ci < bufs.size()) { parser.update(bufs[ci].get(), lens[ci]); ++ci; parser.check_done(ec); }
    o.status = ec_name(ec); o.ev = std::move(rec.ev); return norm(o);
}
template <class Cursor>
static Outcome walk(Cursor& cur, std::error_code& ec, long read_to_at = -1, std::vector<std::string>* sub = nullptr) {
    Outcome o; long ncontainer = 0;
    if (!ec) {
        while (!cur.done()) {
            const auto& e = cur.current();
            bool is_begin = e.event_type() == staj_event_type::begin_array || e.event_type() == staj_event_type::begin_object;
            if (is_begin && ncontainer++ == read_to_at && sub) {
                Recorder r2; cur.read_to(r2, ec);
                if (ec) break;
                *sub = r2.ev;
                for (auto& x : r2.ev) o.ev.push_back(x);
                // cursor now rests on the container's end event, which read_to already reported
                cur.next(ec); if (ec) break;
                continue;
            }
            o.ev.push_back(render(e));
            cur.next(ec);
            if (ec) break;
        }
    }
    if (!ec) cur.check_done(ec);
    o.status = ec_name(ec); return norm(o);
}
static Outcome js_cursor(const std::string& t, long read_to_at = -1, std::vector<std::string>* sub = nullptr) {
    std::error_code ec; json_string_cursor cur(t, g_jopts, ec); return walk(cur, ec, read_to_at, sub);
}
static Outcome js_cursor_stream(const std::string& t, size_t k) {
    std::error_code ec; std::istringstream is(t);
    basic_json_cursor<char, stream_source<char>> cur(stream_source<char>(is, k), g_jopts, ec); return walk(cur, ec);
}

static std::string window(const std::string& a, const std::string& b) {
    size_t i = 0; while (i < a.size() && i < b.size() && a[i] == b[i]) ++i;
    size_t s = i > 40 ? i - 40 : 0; return "@" + std::to_string(i) + " ..." + a.substr(s, 100) + "... vs ..." + b.substr(s, 100) + "...";
}

static void expect_same(const char* fmt, const std::string& mode, const Outcome& ref, const Outcome& got, const std::string& input_hex, const std::string& extra = "") {
    H.count_(std::string(fmt) + ".deliveries");
    std::string a = ref.key(), b = got.key();
    if (a == b) return;
    // maps with non-text keys (not JSON-like): readers stringify the key, pull cursors report the raw item; jsoncons-specific, not judged (DESIGN §3)
    for (auto& e : got.ev) if (e == "?") { H.count_(std::string(fmt) + ".skipped_non_text_key"); return; }
    std::string kind = ref.status == "ok" && got.status == "ok" ? "events-differ" : (ref.status == "ok" ? "ok-vs-" + short_status(got.status) : (got.status == "ok" ? short_status(ref.status) + "-vs-ok" : short_status(ref.status) + "-vs-" + short_status(got.status)));
    H.violation(std::string("delivery/") + fmt + "/" + mode + "/" + kind, J().str("input", input_hex.substr(0, 3000)).str("mode", mode + " " + extra).str("ref", ref.status).str("got", got.status).str("diff", window(a, b)).done());
}

static std::vector<size_t> chunk_sizes(Rng& r, size_t n, bool all) {
    std::vector<size_t> ks = {1, 2, 3, 5, 7, 16, 64, 4096};
    if (all) { ks.clear(); for (size_t k = 1; k <= n + 1; ++k) ks.push_back(k); ks.push_back(4096); }
    else ks.push_back(1 + r.below(n + 2));
    return ks;
}

static void check_json(const std::string& t, Rng& r, bool thorough_small) {
    std::string hx = hex(t);
    Outcome ref = js_ref(t);
    H.count_(ref.status == "ok" ? "json.inputs_ok" : "json.inputs_rejected");
    bool small = t.size() <= 48;
    for (size_t k : chunk_sizes(r, t.size(), small && thorough_small)) {
        expect_same("json", "stream-reader", ref, js_stream(t, k), hx, "k=" + std::to_string(k));
        if (k <= 64 || r.chance(1, 4)) expect_same("json", "cursor-stream", ref, js_cursor_stream(t, k), hx, "k=" + std::to_string(k));
    }
    for (size_t k : {(size_t)1, (size_t)3, (size_t)(1 + r.below(t.size() + 2))}) expect_same("json", "iterator-reader", ref, js_iter(t, k), hx, "k=" + std::to_string(k));
    // incremental: every single split point (or a sample for long inputs), uniform chunks, random multi-way
    size_t n = t.size();
    size_t step = n <= 200 ? 1 : n / 150;
    for (size_t c = 0; c <= n; c += step) expect_same("json", "incremental-split", ref, js_incremental(t, {c}), hx, "cut=" + std::to_string(c));
    for (size_t k : {(size_t)1, (size_t)2, (size_t)3, (size_t)7}) { std::vector<size_t> cuts; for (size_t c = k; c < n; c += k) cuts.push_back(c); expect_same("json", "incremental-uniform", ref, js_incremental(t, cuts), hx, "k=" + std::to_string(k)); }
    for (int i = 0; i < 4; ++i) { std::vector<size_t> cuts; size_t c = 0; while (c < n) { c += 1 + r.below(r.coin() ? 4 : 40); if (c < n) cuts.push_back(c); } expect_same("json", "incremental-random", ref, js_incremental(t, cuts), hx); }
    // pull cursor
    Outcome cw = js_cursor(t);
    expect_same("json", "cursor", ref, cw, hx);
    if (ref.status == "ok") {
        long ncont = 0; for (auto& e : ref.ev) if (e[0] == 'B' && (e[1] == 'A' || e[1] == 'O')) ++ncont;
        if (ncont > 0) {
            long at = (long)r.below((u64)ncont); std::vector<std::string> sub;
            Outcome rt = js_cursor(t, at, &sub);
            expect_same("json", "cursor-read_to", ref, rt, hx, "container#" + std::to_string(at));
            // the slice reported by read_to must be balanced and equal the reference slice
            long seen = 0; size_t b = 0; for (; b < ref.ev.size(); ++b) if (ref.ev[b][0] == 'B' && (ref.ev[b][1] == 'A' || ref.ev[b][1] == 'O') && seen++ == at) break;
            int depth = 0; size_t e2 = b; for (; e2 < ref.ev.size(); ++e2) { const std::string& x = ref.ev[e2]; if (x[0] == 'B' && (x[1] == 'A' || x[1] == 'O')) ++depth; if (x == "EA" || x == "EO") { if (--depth == 0) break; } }
            if (rt.status == "ok" && join(sub) != join(ref.ev, b, e2 + 1)) H.violation("delivery/json/cursor-read_to/subtree-differs", J().str("input", hx.substr(0, 3000)).num("container", at).str("got", join(sub).substr(0, 600)).str("want", join(ref.ev, b, e2 + 1).substr(0, 600)).done());
            H.count_("json.read_to_checked");
        }
        // filter view: drop keys and nulls
        {
            std::error_code ec; json_string_cursor cur(t, g_jopts, ec);
            auto pred = [](const staj_event& ev, const ser_context&) { return ev.event_type() != staj_event_type::key && ev.event_type() != staj_event_type::null_value; };
            std::vector<std::string> got, want;
            if (!ec) { auto fv = cur | pred; while (!fv.done()) { got.push_back(render(fv.current())); fv.next(ec); if (ec) break; } }
            for (auto& x : ref.ev) if (x[0] != 'K' && !(x[0] == 'N')) want.push_back(x);
            if (ec || join(got) != join(want)) H.violation("delivery/json/filter-view/events-differ", J().str("input", hx.substr(0, 3000)).str("ec", ec_name(ec)).str("diff", window(join(want), join(got))).done());
            H.count_("json.filter_view_checked");
        }
        // staj iterators against the DOM
        try {
            ojson dom = ojson::parse(t, g_jopts);
            if (dom.is_array()) {
                json_string_cursor cur(t, g_jopts); auto it = staj_array_iterator<ojson>(cur); size_t i = 0; bool bad = false;
                for (auto end = staj_array_iterator<ojson>(); it != end; ++it, ++i) { if (i >= dom.size() || !strict_diff(dom[i], *it, [] { CmpCfg c; c.ordered_objects = true; return c; }()).empty()) { bad = true; break; } }
                if (bad || i != dom.size()) H.violation("delivery/json/staj_array_iterator/differs-from-dom", J().str("input", hx.substr(0, 3000)).unum("index", i).done());
                H.count_("json.staj_array_iterator_checked");
            } else if (dom.is_object()) {
                json_string_cursor cur(t, g_jopts); auto it = staj_object_iterator<std::string, ojson>(cur); size_t i = 0; bool bad = false;
                auto mem = dom.object_range().begin();
                // the DOM keeps the first of duplicate names; the iterator reports all: compare against event-level members instead when sizes differ
                std::vector<std::pair<std::string, ojson>> got; for (auto end = staj_object_iterator<std::string, ojson>(); it != end; ++it, ++i) got.push_back(*it);
                size_t top_members = 0; { int d = 0; for (auto& x : ref.ev) { if (x[0] == 'K' && d == 1) ++top_members; if (x[0] == 'B' && (x[1] == 'A' || x[1] == 'O')) ++d; if (x == "EA" || x == "EO") --d; } }
                if (got.size() != top_members) bad = true;
                if (!bad && top_members == dom.size()) { for (auto& kv : got) { if (mem == dom.object_range().end() || std::string(mem->key()) != kv.first || !strict_diff(mem->value(), kv.second, [] { CmpCfg c; c.ordered_objects = true; return c; }()).empty()) { bad = true; break; } ++mem; } }
                if (bad) H.violation("delivery/json/staj_object_iterator/differs-from-dom", J().str("input", hx.substr(0, 3000)).done());
                H.count_("json.staj_object_iterator_checked");
            }
        } catch (const std::exception& e) { H.violation("delivery/json/staj-iterator/exception", J().str("input", hx.substr(0, 3000)).str("what", e.what()).done()); }
    }
}

// ------------------------------------------------------------------ streams of several JSON values read with read_next() until eof()
template <class Reader> static Outcome multi_loop(Reader& rd, Recorder& rec) {
    Outcome o; std::error_code ec; int n = 0;
    while (!rd.eof() && n < 60) { rd.read_next(ec); if (ec) break; rec.add("|"); ++n; }
    o.status = ec_name(ec); o.ev = std::move(rec.ev); return norm(o);
}
static Outcome multi_ref(const std::string& t) { Recorder rec; json_string_reader rd(t, rec, g_jopts); return multi_loop(rd, rec); }
static Outcome multi_stream(const std::string& t, size_t k) { Recorder rec; std::istringstream is(t); basic_json_reader<char, stream_source<char>> rd(stream_source<char>(is, k), rec, g_jopts); return multi_loop(rd, rec); }
static void check_multi(const std::string& t, Rng& r, bool all_k) {
    std::string hx = hex(t); Outcome ref = multi_ref(t);
    H.count_(ref.status == "ok" ? "json.multi_value_inputs_ok" : "json.multi_value_inputs_rejected");
    for (size_t k : chunk_sizes(r, t.size(), t.size() <= 48 && all_k)) expect_same("json", "multi-value-stream", ref, multi_stream(t, k), hx, "k=" + std::to_string(k));
}

// ------------------------------------------------------------------ CSV deliveries
static csv::csv_options g_copts; static std::string g_copt_desc;
static Outcome csv_ref(const std::string& t) { Outcome o; Recorder rec; std::error_code ec; csv::csv_string_reader rd(t, rec, g_copts); rd.read(ec); o.status = ec_name(ec); o.ev = std::move(rec.ev); return norm(o); }
static Outcome csv_stream(const std::string& t, size_t k) { Outcome o; Recorder rec; std::error_code ec; std::istringstream is(t); csv::csv_stream_reader rd(stream_source<char>(is, k), rec, g_copts); rd.read(ec); o.status = ec_name(ec); o.ev = std::move(rec.ev); return norm(o); }
template <class Cursor> static Outcome csv_walk(Cursor& cur, std::error_code& ec) { Outcome o; if (!ec) while (!cur.done()) { o.ev.push_back(render(cur.current())); cur.next(ec); if (ec) break; } o.status = ec_name(ec); return norm(o); }
static Outcome csv_cursor(const std::string& t) { std::error_code ec; csv::csv_string_cursor cur(t, g_copts, ec); return csv_walk(cur, ec); }
static Outcome csv_cursor_stream(const std::string& t, size_t k) { std::error_code ec; std::istringstream is(t); csv::csv_stream_cursor cur(stream_source<char>(is, k), g_copts, ec); return csv_walk(cur, ec); }
static void check_csv(const std::string& t, Rng& r, bool all_k) {
    std::string hx = hex(t);
    Outcome ref = csv_ref(t);
    H.count_(ref.status == "ok" ? "csv.inputs_ok" : "csv.inputs_rejected");
    for (size_t k : chunk_sizes(r, t.size(), t.size() <= 40 && all_k)) {
        expect_same("csv", "stream-reader", ref, csv_stream(t, k), hx, g_copt_desc + " k=" + std::to_string(k));
        if (k <= 16 || r.chance(1, 4)) expect_same("csv", "cursor-stream", ref, csv_cursor_stream(t, k), hx, g_copt_desc + " k=" + std::to_string(k));
    }
    expect_same("csv", "cursor", ref, csv_cursor(t), hx, g_copt_desc);
}

// ------------------------------------------------------------------ binary deliveries (generic over format)
template <class Fmt> struct BinModes {
    static Outcome ref(const std::vector<uint8_t>& b) {
        Outcome o; Recorder rec; std::error_code ec;
        typename Fmt::bytes_reader rd(b, rec); rd.read(ec);
        o.status = ec_name(ec); o.ev = std::move(rec.ev); return norm(o);
    }
    static Outcome stream(const std::vector<uint8_t>& b, size_t k) {
        Outcome o; Recorder rec; std::error_code ec; std::string s((const char*)b.data(), b.size()); std::istringstream is(s);
        typename Fmt::template reader<binary_stream_source> rd(binary_stream_source(is, k), rec); rd.read(ec);
        o.status = ec_name(ec); o.ev = std::move(rec.ev); return norm(o);
    }
    static Outcome iter(const std::vector<uint8_t>& b, size_t k) {
        Outcome o; Recorder rec; std::error_code ec; std::forward_list<uint8_t> fl(b.begin(), b.end());
        using It = std::forward_list<uint8_t>::iterator;
        typename Fmt::template reader<iterator_source<It>> rd(iterator_source<It>(fl.begin(), fl.end(), k), rec); rd.read(ec);
        o.status = ec_name(ec); o.ev = std::move(rec.ev); return norm(o);
    }
    template <class Cursor> static Outcome walkb(Cursor& cur, std::error_code& ec, long read_to_at = -1) {
        Outcome o; long ncontainer = 0;
        if (!ec) while (!cur.done()) {
            const auto& e = cur.current();
            bool is_begin = e.event_type() == staj_event_type::begin_array || e.event_type() == staj_event_type::begin_object;
            if (is_begin && ncontainer++ == read_to_at) {
                Recorder r2; cur.read_to(r2, ec); if (ec) break;
                for (auto& x : r2.ev) o.ev.push_back(x);
                if (cur.done()) break;         // read_to may have consumed the whole input
                cur.next(ec); if (ec) break;   // the cursor rests on the container's end event, which read_to already reported
                continue;
            }
            o.ev.push_back(render(e)); cur.next(ec); if (ec) break;
        }
        o.status = ec_name(ec); return norm(o);
    }
    static Outcome cursor(const std::vector<uint8_t>& b, long read_to_at = -1) { std::error_code ec; typename Fmt::bytes_cursor cur(b, ec); return walkb(cur, ec, read_to_at); }
    static Outcome cursor_stream(const std::vector<uint8_t>& b, size_t k) {
        std::error_code ec; std::string s((const char*)b.data(), b.size()); std::istringstream is(s);
        typename Fmt::template cursor<binary_stream_source> cur(binary_stream_source(is, k), ec); return walkb(cur, ec);
    }
};
struct FCbor { static constexpr const char* name = "cbor"; using bytes_reader = cbor::cbor_bytes_reader; template <class S> using reader = cbor::basic_cbor_reader<S>; using bytes_cursor = cbor::cbor_bytes_cursor; template <class S> using cursor = cbor::basic_cbor_cursor<S>; };
struct FMsgpack { static constexpr const char* name = "msgpack"; using bytes_reader = msgpack::msgpack_bytes_reader; template <class S> using reader = msgpack::basic_msgpack_reader<S>; using bytes_cursor = msgpack::msgpack_bytes_cursor; template <class S> using cursor = msgpack::basic_msgpack_cursor<S>; };
struct FUbjson { static constexpr const char* name = "ubjson"; using bytes_reader = ubjson::ubjson_bytes_reader; template <class S> using reader = ubjson::basic_ubjson_reader<S>; using bytes_cursor = ubjson::ubjson_bytes_cursor; template <class S> using cursor = ubjson::basic_ubjson_cursor<S>; };
struct FBson { static constexpr const char* name = "bson"; using bytes_reader = bson::bson_bytes_reader; template <class S> using reader = bson::basic_bson_reader<S>; using bytes_cursor = bson::bson_bytes_cursor; template <class S> using cursor = bson::basic_bson_cursor<S>; };

// typed-array events are expanded by the pull cursor but may reach a push visitor as one typed_array call which the
// default visitor expands to the same begin_array/values/end_array sequence: both sides go through the same Recorder rules.
template <class Fmt>
static void check_bin(const std::vector<uint8_t>& b, Rng& r, bool all_k) {
    using M = BinModes<Fmt>;
    std::string hx = hex(b);
    Outcome ref = M::ref(b);
    H.count_(std::string(Fmt::name) + (ref.status == "ok" ? ".inputs_ok" : ".inputs_rejected"));
    bool small = b.size() <= 40;
    for (size_t k : chunk_sizes(r, b.size(), small && all_k)) {
        expect_same(Fmt::name, "stream-reader", ref, M::stream(b, k), hx, "k=" + std::to_string(k));
        if (k <= 16 || r.chance(1, 4)) expect_same(Fmt::name, "cursor-stream", ref, M::cursor_stream(b, k), hx, "k=" + std::to_string(k));
    }
    for (size_t k : {(size_t)1, (size_t)3, (size_t)(1 + r.below(b.size() + 2))}) expect_same(Fmt::name, "iterator-reader", ref, M::iter(b, k), hx, "k=" + std::to_string(k));
    expect_same(Fmt::name, "cursor", ref, M::cursor(b), hx);
    // read_to from the k-th container on (every container of small inputs, a sample otherwise): same events as the push parse
    if (ref.status == "ok") {
        long ncont = 0; for (auto& e : ref.ev) if (e.size() >= 2 && e[0] == 'B' && (e[1] == 'A' || e[1] == 'O')) ++ncont;
        for (long k = 0; k < ncont; ++k) { if (ncont > 12 && !r.chance(12, (unsigned)ncont)) continue; expect_same(Fmt::name, "cursor-read_to", ref, M::cursor(b, k), hx, "container=" + std::to_string(k)); }
    }
}

template <class Json>
static std::vector<uint8_t> enc(int f, const Json& v, Rng& r) {
    std::vector<uint8_t> out;
    try {
        switch (f) {
        case 0: { cbor::cbor_options o; o.pack_strings(r.chance(1, 4)); cbor::encode_cbor(v, out, o); break; }
        case 1: msgpack::encode_msgpack(v, out); break;
        case 2: ubjson::encode_ubjson(v, out); break;
        default: bson::encode_bson(v, out); break;
        }
    } catch (const std::exception&) { out.clear(); }
    return out;
}

static void mutate_bytes(std::vector<uint8_t>& b, Rng& r) {
    if (b.empty()) { b.push_back((uint8_t)r.next()); return; }
    switch (r.below(6)) {
    case 0: b.resize(r.below(b.size())); break;                                  // truncate
    case 1: b[r.below(b.size())] = (uint8_t)r.next(); break;                     // replace
    case 2: b[r.below(b.size())] ^= (uint8_t)(1u << r.below(8)); break;          // bit flip
    case 3: b.insert(b.begin() + (long)r.below(b.size() + 1), (uint8_t)r.next()); break;
    case 4: b.erase(b.begin() + (long)r.below(b.size())); break;
    default: { size_t n = 1 + r.below(4); for (size_t i = 0; i < n; ++i) b.push_back((uint8_t)r.next()); } break;   // trailing bytes
    }
}
static void mutate_text(std::string& t, Rng& r) {
    static const char* toks[] = {"{", "}", "[", "]", ",", ":", "\"", "\\", "\\u", "\\ud83d", "\\ude00", "true", "false", "null", "1", "-", "0", ".", "e", "E+", " ", "\n", "\r", "\r\n", "\t", "/", "/*", "*/", "//", "1e400", "\xc3", "\xa9"};
    if (t.empty()) { t = r.pick(toks); return; }
    // byte patterns the encoding/BOM detection of the source adaptors looks for, placed beyond the start of the text where they are
    // ordinary content (U+FEFF inside a string) or ordinary garbage: every delivery must treat them like the one-shot parse does
    if (t.size() >= 6 && r.chance(1, 8)) {
        static const std::string enc[] = {"\xef\xbb\xbf", "\xef\xbb\xbf\xef\xbb\xbf", "\xff\xfe", "\xfe\xff", std::string("\0", 1), std::string("\0\0\0", 3), std::string("a\0", 2), std::string("\0\0\xfe\xff", 4), "\xef\xbb", "\xef"};
        size_t n = 1 + r.below(3);
        for (size_t i = 0; i < n; ++i) t.insert(4 + r.below(t.size() - 3), r.pick(enc));
        return;
    }
    switch (r.below(6)) {
    case 0: t.resize(r.below(t.size())); break;
    case 1: t[r.below(t.size())] = (char)r.below(128); break;
    case 2: t.insert(r.below(t.size() + 1), r.pick(toks)); break;
    case 3: t.erase(r.below(t.size()), 1 + r.below(3)); break;
    case 4: t += r.pick(toks); break;
    default: { size_t a = r.below(t.size()), b = r.below(t.size()); std::swap(t[a], t[b]); } break;
    }
}

int main(int argc, char** argv) {
    H.parse(argc, argv);
    bool thorough = H.tier == "thorough";
    std::set<std::string> states; g_states = &states;
    static const char* stress[] = {
        "[123456789012345678901234567890,-0.000001e-10,1E+2,0,-0,1.5]", "\"\\ud83d\\ude00\\u00e9\\n\\\\\\\"\\/\"", "[true,false,null]", " \r\n\t[ \r\n1 \r\n, \r 2\n]\r\n ",
        "{\"a\":{\"b\":[1,{\"c\":null}]},\"a\":2}", "\"\xf0\x9f\x98\x80\xe2\x82\xac\xc3\xa9\"", "123", "-1.5e-3", "tru", "[1,]", "[1 2]", "{\"a\" 1}", "\"abc", "[\"\\u12", "nul", "1 2", "[] []", "{} x", "",
        "   ", "/* c */ [1, // x\n 2]", "[1e309, -1e309, 1e-400, 18446744073709551616, -9223372036854775809]", "\"\\ud83d\"", "\"\\ude00x\"", "[\"a\\",
        "{\"k\":\"v\",\"k2\":[1,2,{\"x\":\"\\u0041\"}],\"k3\":{}}", "[[[[[[[[[[1]]]]]]]]]]",
        "[\"ab\xef\xbb\xbf" "cd\",1]", "{\"key\xef\xbb\xbf\":\"\xef\xbb\xbf\xef\xbb\xbfx\",\"b\":[\"\xef\xbb\xbf\"]}", "[1234,\"\xef\xbb\xbf\",5678,\"x\xef\xbb\xbfy\xef\xbb\xbfz\"]"};
    auto body = [&](long long c) {
        Rng r = H.case_rng(c);
        g_jopts = json_options();
        if (r.chance(1, 5)) g_jopts.allow_comments(false);
        if (r.chance(1, 6)) g_jopts.allow_trailing_comma(true);
        if (r.chance(1, 8)) g_jopts.max_nesting_depth((int)r.below(6));
        if (r.chance(1, 6)) g_jopts.lossless_number(true);
        unsigned mode = (unsigned)r.below(10);
        GenCfg g; g.max_depth = 4; g.max_width = 4; g.string_cap = 40;
        if (mode == 4 && r.coin()) {                    // CSV text
            static const std::vector<std::string> seeds = {"a,b,c\n1,2,3\n4,5,6\n", "\"x,y\",\"q\"\"r\",z\r\n1,,3\r\n", "h1;h2\n1.5;true\nnull;\"multi\nline\"\n", "1,2,3", "a,b\n\"unterminated", "k,v\nx,1;2;3\ny,4\n", "name,n\n\"\xc3\xa9\",-1e3\n\xf0\x9f\x98\x80,0x\n", "\n\na\n\nb\n", "a|b\r1|2\r"};
            static const std::vector<std::string> dict = {",", ";", "|", "\"", "\"\"", "\n", "\r\n", "\r", " ", "1", "-1.5e3", "true", "null", "a", ",,", "\"\n\"", "\xc3\xa9"};
            std::string t = r.pick(seeds);
            for (int i = (int)r.below(4); i > 0 && !t.empty(); --i) switch (r.below(5)) { case 0: t.resize(r.below(t.size())); break; case 1: t.insert(r.below(t.size() + 1), r.pick(dict)); break; case 2: t.erase(r.below(t.size()), 1 + r.below(3)); break; case 3: t += r.pick(dict); break; default: t[r.below(t.size())] = (char)(32 + r.below(95)); }
            if (t.size() > 400) t.resize(400);
            for (size_t i = 0; i < t.size() && i < 4; ++i) if (t[i] == 0) { H.count_("csv.excluded_encoding_detection_prefix"); return; }
            if (t.size() >= 2 && ((unsigned char)t[0] == 0xef || (unsigned char)t[0] == 0xff || (unsigned char)t[0] == 0xfe)) { H.count_("csv.excluded_encoding_detection_prefix"); return; }
            g_copts = csv::csv_options();
            static const csv::csv_mapping_kind mk[] = {csv::csv_mapping_kind::n_rows, csv::csv_mapping_kind::n_objects, csv::csv_mapping_kind::m_columns};
            g_copts.mapping_kind(r.pick(mk)); if (r.coin()) g_copts.assume_header(true); if (r.chance(1, 3)) g_copts.field_delimiter(r.coin() ? ';' : '|'); if (r.chance(1, 4)) g_copts.trim(true); if (r.chance(1, 4)) g_copts.ignore_empty_lines(false);
            if (r.chance(1, 5)) g_copts.subfield_delimiter(';'); if (r.chance(1, 5)) g_copts.header_lines(1 + r.below(2)); if (r.chance(1, 6)) g_copts.infer_types(false);
            if (g_copts.mapping_kind() != csv::csv_mapping_kind::n_rows && !g_copts.assume_header() && r.coin()) g_copts.column_names("x,y,z");
            g_copt_desc = "mapping=" + std::to_string((int)g_copts.mapping_kind()) + " header=" + std::to_string(g_copts.assume_header()) + " delim=" + std::string(1, g_copts.field_delimiter()) + " trim=" + std::to_string(g_copts.trim()) + " ignore_empty=" + std::to_string(g_copts.ignore_empty_lines())
                + " subfield=" + std::to_string((int)g_copts.subfield_delimiter()) + " header_lines=" + std::to_string(g_copts.header_lines()) + " infer=" + std::to_string(g_copts.infer_types()) + " max_lines=" + std::to_string(g_copts.max_lines()) + " names=" + std::to_string(g_copts.column_names().size());
            // open finding D105 (witness in the regression catalogue): column mapping with subfields + a text whose last field is quoted
            // (terminated or not) and not followed by a line break
            if (g_copts.mapping_kind() == csv::csv_mapping_kind::m_columns && g_copts.subfield_delimiter() != 0 && t.find('"') != std::string::npos) { H.count_("csv.excluded_m_columns_subfields_quoted_field"); return; }
            H.note_distinct(hash_str(t, 77)); set_flight_desc("csv " + hex(t).substr(0, 1500));
            check_csv(t, r, thorough || c % 4 == 0);
            if (H.sample_seen < 12 || r.chance(1, 1000)) H.sample(J().str("format", "csv").str("text", t.substr(0, 200)).done()); else ++H.sample_seen;
        } else if (mode == 3 && r.chance(1, 3)) {       // several JSON values in one text, separated and followed by white space
            std::string t; size_t nv = 1 + r.below(4); static const char* sep[] = {" ", "\n", "\r\n", "  ", "\t", " \n \n", ""};
            GenCfg gm = g; gm.max_depth = 2;
            for (size_t i = 0; i < nv; ++i) { json v = gen_value<json>(r, gm); std::string one; v.dump(one); if (i && (isdigit((unsigned char)one[0]) || one[0] == '-' || isalpha((unsigned char)one[0])) && (t.empty() || !isspace((unsigned char)t.back()))) t += " "; t += one; t += r.pick(sep); }
            if (r.chance(1, 4)) t += r.pick(sep);
            if (r.chance(1, 6)) mutate_text(t, r);
            if (t.size() > 300) t.resize(300);
            bool detect = t.size() >= 2 && ((unsigned char)t[0] >= 0xef); for (size_t i = 0; i < t.size() && i < 4; ++i) if (t[i] == 0) detect = true;
            if (detect) { H.count_("json.excluded_encoding_detection_prefix"); return; }
            H.note_distinct(hash_str(t, 99)); set_flight_desc("json-multi " + hex(t).substr(0, 1500));
            check_multi(t, r, thorough || c % 2 == 0);
        } else if (mode < 5) {                          // JSON text
            std::string t;
            if (r.chance(1, 5)) t = r.pick(stress);
            else {
                json v = gen_value<json>(r, g);
                json_options o; if (r.coin()) { o.indent_size((uint8_t)r.below(4)); o.new_line_chars(r.coin() ? "\r\n" : "\n"); if (r.coin()) o.escape_all_non_ascii(true); v.dump(t, o, indenting::indent); } else v.dump(t);
            }
            int nm = r.chance(1, 2) ? 0 : 1 + (int)r.below(3);
            for (int i = 0; i < nm; ++i) mutate_text(t, r);
            if (t.size() > 600) t.resize(600);
            // encoding auto-detection territory (DESIGN §3): a BOM, or a NUL among the first four bytes, makes the reader-level entry points
            // transcode while the bare parser does not; the property is stated for BOM-less UTF-8 text
            { bool detect = false; for (size_t i = 0; i < t.size() && i < 4; ++i) if (t[i] == 0) detect = true;
              if (t.size() >= 2 && (((unsigned char)t[0] == 0xff && (unsigned char)t[1] == 0xfe) || ((unsigned char)t[0] == 0xfe && (unsigned char)t[1] == 0xff) || ((unsigned char)t[0] == 0xef && (unsigned char)t[1] == 0xbb))) detect = true;
              if (detect) { H.count_("json.excluded_encoding_detection_prefix"); return; } }
            H.note_distinct(hash_str(t));
            set_flight_desc("json " + hex(t).substr(0, 1500));
            check_json(t, r, thorough || c % 4 == 0);
            if (H.sample_seen < 10 || r.chance(1, 1000)) H.sample(J().str("format", "json").str("text", t.substr(0, 200)).done()); else ++H.sample_seen;
        } else {                                       // binary
            int f = (int)(mode - 5) % 4; if (mode == 9) f = (int)r.below(4);
            GenCfg gb = g; gb.byte_strings = true; gb.nonfinite = true; gb.half = f == 0; gb.tags = f == 0; gb.string_cap = 300;
            json v = gen_value<json>(r, gb);
            if (f == 3 && !v.is_object()) { json o(json_object_arg); o.try_emplace("r", std::move(v)); v = std::move(o); }
            std::vector<uint8_t> b = enc(f, v, r);
            if (f == 0 && r.chance(1, 6)) {             // typed arrays / multi-dim
                std::vector<double> dv(r.below(20)); for (auto& x : dv) x = gen_double_finite(r);
                cbor::cbor_options o; o.use_typed_arrays(true); b.clear(); cbor::encode_cbor(dv, b, o);
            }
            if (f == 0 && r.chance(1, 8)) {             // RFC 8746 typed array of any element type and byte order, alone or inside an array/map
                unsigned tag = 64 + (unsigned)r.below(24); static const unsigned esz[] = {1, 2, 4, 8, 1, 2, 4, 8, 1, 2, 4, 8, 1, 2, 4, 8, 2, 4, 8, 16, 2, 4, 8, 16};
                size_t n = r.below(6); std::vector<uint8_t> payload(n * esz[tag - 64]); for (auto& x : payload) x = (uint8_t)r.next();
                std::vector<uint8_t> ta = {0xd8, (uint8_t)tag}; if (payload.size() < 24) ta.push_back((uint8_t)(0x40 | payload.size())); else { ta.push_back(0x58); ta.push_back((uint8_t)payload.size()); } ta.insert(ta.end(), payload.begin(), payload.end());
                b.clear(); switch (r.below(3)) { case 0: b = ta; break; case 1: b = {0x83, 0x01}; b.insert(b.end(), ta.begin(), ta.end()); b.push_back(0x61); b.push_back('z'); break; default: b = {0xa1, 0x61, 'k'}; b.insert(b.end(), ta.begin(), ta.end()); }
                H.count_("cbor.typed_array_inputs");
            }
            int nm = r.chance(1, 2) ? 0 : 1 + (int)r.below(3);
            for (int i = 0; i < nm; ++i) mutate_bytes(b, r);
            if (b.size() > 2000) b.resize(2000);
            if (f == 0) {   // multi-dimensional arrays (tag 40 / 1040): the pull cursor flattens them (open finding, witness in the regression catalogue)
                bool md = false; for (size_t i = 0; i + 1 < b.size(); ++i) if ((b[i] == 0xd8 && b[i + 1] == 0x28) || (i + 2 < b.size() && b[i] == 0xd9 && b[i + 1] == 0x04 && b[i + 2] == 0x10)) md = true;
                if (md) { H.count_("cbor.excluded_multi_dim_array_tag"); return; }
            }
            H.note_distinct(fnv1a(b.data(), b.size(), (u64)f));
            set_flight_desc(std::string("bin") + std::to_string(f) + " " + hex(b).substr(0, 1500));
            bool allk = thorough || c % 4 == 0;
            switch (f) { case 0: check_bin<FCbor>(b, r, allk); break; case 1: check_bin<FMsgpack>(b, r, allk); break; case 2: check_bin<FUbjson>(b, r, allk); break; default: check_bin<FBson>(b, r, allk); break; }
            if (H.sample_seen < 10 || r.chance(1, 1000)) H.sample(J().str("format", f == 0 ? "cbor" : f == 1 ? "msgpack" : f == 2 ? "ubjson" : "bson").str("bytes", hex(b).substr(0, 200)).done()); else ++H.sample_seen;
        }
    };
    auto regress = [&]() {
        Rng r(3); g_jopts = json_options();
        for (const char* s : stress) { std::string t = s; set_flight_desc("json-stress " + hex(t)); check_json(t, r, true); for (size_t n = 0; n < t.size(); ++n) check_json(t.substr(0, n), r, false); }
        // witness of an open finding: with max_lines the csv parser stops without closing the open containers (pinned by
        // test_csv_parser_reinitialization, which closes the array by hand) and in cursor mode it also drops the end event of the last record
        { std::string t = "a,b\n1,2\n3,4\n"; g_copts = csv::csv_options(); g_copts.max_lines(1); g_copt_desc = "max_lines=1"; set_flight_desc("csv-max_lines-witness");
          Outcome a = csv_ref(t), c = csv_cursor(t); H.count_("csv.max_lines_witnesses");
          if (a.key() != c.key()) H.violation("delivery/csv/witness/max_lines-cursor-drops-closing-events", J().str("input", hex(t)).str("reader", a.key().substr(0, 300)).str("cursor", c.key().substr(0, 300)).done()); }
        // witness of an open finding: with the column mapping and a subfield delimiter a text that ends inside a quoted field is accepted by the reader and
        // reported as unexpected end of file by the cursor
        { std::string t = "h1;h2\n1.5;\"t"; g_copts = csv::csv_options(); g_copts.mapping_kind(csv::csv_mapping_kind::m_columns); g_copts.assume_header(true); g_copts.subfield_delimiter(';'); g_copt_desc = "m_columns subfield=;"; set_flight_desc("csv-m_columns-witness");
          Outcome a = csv_ref(t), c = csv_cursor(t); H.count_("csv.m_columns_witnesses");
          if (a.key() != c.key()) H.violation("delivery/csv/witness/m_columns-text-ending-inside-quotes-reader-ok-cursor-eof", J().str("input", hex(t)).str("reader", a.key().substr(0, 300)).str("cursor", c.key().substr(0, 300)).done()); }
        // witness of an open finding: a CBOR multi-dimensional array (tag 40 row-major, 1040 column-major) is reported row by row by the
        // reader / push parser but as one flat array by the pull cursor (which offers is_multi_dim()/extents() instead)
        for (auto b : {std::vector<uint8_t>{0xd8, 0x28, 0x82, 0x82, 0x02, 0x02, 0xd8, 0x40, 0x44, 1, 2, 3, 4}, std::vector<uint8_t>{0xd9, 0x04, 0x10, 0x82, 0x82, 0x02, 0x02, 0x84, 1, 2, 3, 4}}) {
            set_flight_desc("cbor-mdarray-witness " + hex(b));
            Outcome a = BinModes<FCbor>::ref(b), c = BinModes<FCbor>::cursor(b); H.count_("cbor.multi_dim_witnesses");
            if (a.key() != c.key()) H.violation("delivery/cbor/witness/multi-dim-array-flattened-by-cursor", J().str("input", hex(b)).str("reader", a.key().substr(0, 300)).str("cursor", c.key().substr(0, 300)).done());
        }
    };
    H.on_finish = [&]() {
        // suspension states (hook H1) seen at a chunk boundary: "parse/string/number" triples; report the triple count and the distinct parse states
        std::set<std::string> ps; for (auto& s : states) ps.insert(s.substr(0, s.find('/')));
        for (auto& s : ps) H.count_("json.suspended_in_parse_state." + s);
        H.count_("json.distinct_suspend_triples", states.size());
    };
    int rc = H.run(body, regress);
    (void)rc;
    return 0;
}
