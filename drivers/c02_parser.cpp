// C02: the JSON parser accepts exactly RFC 8259 and yields the specified value.
// In-process monitor. Judge: the independent RFC 8259 recogniser/evaluator of drivers/common/rfc8259.hpp (written from the
// ABNF; options: max depth, comments, trailing comma). Workloads: (1) bounded-exhaustive: every string of length <= L over a
// 25-symbol token alphabet; (2) generative: foreign-written documents with random spelling; (3) mutational.
// Rule: accept <=> judge accepts (with exactly the enabled relaxations); on accept the value equals the judge's value
// (structure, names, first duplicate wins, strings as scalar sequences, integers exactly, decimals as correctly rounded
// doubles, out-of-range numbers as big-number text); on reject some json_errc is reported.
#include "common/jvalue.hpp"
#include "common/rfc8259.hpp"
#include "common/mutate.hpp"
#include <jsoncons/json.hpp>
#include <sstream>
#include <cerrno>

using namespace vf;
using namespace jsoncons;
static Harness H;

static const char* ALPHA[] = {"{", "}", "[", "]", ",", ":", "\"", "\\", "/", "u", "0", "1", "9", "-", "+", ".", "e", "E", "a", " ", "\n", "'", "true", "false", "null"};
static const int NA = 25;

struct Cfg { bool comments = false; bool trailing = false; int depth = 1024; const char* name = "strict"; bool subst_names_no_inverse = false; };

// is the literal an integer (no frac/exp)?
static bool is_int_lit(const std::string& s) { for (char c : s) if (c == '.' || c == 'e' || c == 'E') return false; return true; }
static bool fits_u64(const std::string& s, u64& out) { if (s[0] == '-') return false; errno = 0; char* e = nullptr; unsigned long long v = strtoull(s.c_str(), &e, 10); if (errno == ERANGE || *e) return false; out = v; return true; }
static bool fits_i64(const std::string& s, i64& out) { errno = 0; char* e = nullptr; long long v = strtoll(s.c_str(), &e, 10); if (errno == ERANGE || *e) return false; out = v; return true; }

template <class Json>
static std::string val_diff(const rfc::Val& e, const Json& g, const std::string& path = "$") {
    switch (e.k) {
    case rfc::Val::Null: return g.is_null() ? "" : path + ": expected null";
    case rfc::Val::True: return (g.is_bool() && g.template as<bool>()) ? "" : path + ": expected true";
    case rfc::Val::False: return (g.is_bool() && !g.template as<bool>()) ? "" : path + ": expected false";
    case rfc::Val::Str: {
        if (e.bad_surrogate) return "";                                   // escape does not denote a scalar value: unspecified
        if (!g.is_string() || norm_tag(g.tag()) != semantic_tag::none) return path + ": expected plain string";
        auto sv = g.as_string_view(); return (sv.size() == e.text.size() && memcmp(sv.data(), e.text.data(), sv.size()) == 0) ? "" : path + ": string content " + hex(std::string(sv)).substr(0, 60) + " expected " + hex(e.text).substr(0, 60);
    }
    case rfc::Val::Num: {
        const std::string& lit = e.text;
        if (is_int_lit(lit)) {
            u64 u; i64 i;
            if (lit == "-0") { if (g.type() == json_type::int64 || g.type() == json_type::uint64) return g.template as<i64>() == 0 ? "" : path + ": -0"; if (g.is_double()) return g.template as<double>() == 0 ? "" : path + ": -0"; return path + ": -0 kind"; }
            if (fits_u64(lit, u)) { if (!(g.type() == json_type::uint64 || g.type() == json_type::int64)) return path + ": integer literal " + lit + " not an integer kind"; if (g.type() == json_type::int64 ? (g.template as<i64>() < 0 || (u64)g.template as<i64>() != u) : g.template as<u64>() != u) return path + ": integer literal " + lit + " has another value"; return ""; }
            if (fits_i64(lit, i)) { if (g.type() != json_type::int64 || g.template as<i64>() != i) return path + ": integer literal " + lit + " wrong"; return ""; }
            // out of native range: digit-for-digit big integer (lossless_bignum default on)
            if (!g.is_string() || g.tag() != semantic_tag::bigint) return path + ": out-of-range integer literal " + lit.substr(0, 40) + " not kept as bigint";
            return std::string(g.as_string_view()) == lit ? "" : path + ": bigint digits changed";
        }
        errno = 0; double d = strtod(lit.c_str(), nullptr);          // glibc strtod is correctly rounded
        bool overflow = errno == ERANGE && (d == HUGE_VAL || d == -HUGE_VAL);
        bool underflow = errno == ERANGE && !overflow;
        if (overflow) { if (g.is_string() && g.tag() == semantic_tag::bigdec) return std::string(g.as_string_view()) == lit ? "" : path + ": bigdec text changed"; return path + ": decimal literal beyond double range not kept as bigdec: " + lit.substr(0, 40); }
        if (underflow && g.is_string() && g.tag() == semantic_tag::bigdec) return std::string(g.as_string_view()) == lit ? "" : path + ": bigdec text changed";
        if (!g.is_double()) return path + ": decimal literal " + lit.substr(0, 40) + " not a double";
        double x = g.template as<double>();
        if (x == d && (x != 0 || true)) return "";
        char buf[120]; snprintf(buf, sizeof buf, ": decimal literal %s parsed as %.17g, correctly rounded value is %.17g", lit.substr(0, 40).c_str(), x, d); return path + buf;
    }
    case rfc::Val::Arr: {
        if (!g.is_array() || g.size() != e.items.size()) return path + ": array shape";
        size_t i = 0; for (const auto& x : g.array_range()) { std::string d = val_diff(e.items[i], x, path + "[" + std::to_string(i) + "]"); if (!d.empty()) return d; ++i; }
        return "";
    }
    case rfc::Val::Obj: {
        if (!g.is_object()) return path + ": expected object";
        // first of duplicate names wins
        std::vector<size_t> firsts; for (size_t i = 0; i < e.names.size(); ++i) { bool dup = false; for (size_t j = 0; j < i; ++j) if (e.names[j] == e.names[i]) dup = true; if (!dup) firsts.push_back(i); }
        for (size_t i : firsts) if (e.name_bad[i]) return "";
        if (g.size() != firsts.size()) return path + ": object has " + std::to_string(g.size()) + " members, expected " + std::to_string(firsts.size());
        for (size_t i : firsts) { auto it = g.find(e.names[i]); if (it == g.object_range().end()) return path + ": member missing " + hex(e.names[i]).substr(0, 40); std::string d = val_diff(e.items[i], it->value(), path + "." + e.names[i].substr(0, 12)); if (!d.empty()) return d; }
        return "";
    }
    }
    return "";
}

static int classify_reject(const std::string& t) { return t.empty() ? 0 : 1; }

// does the text contain a \uXXXX escape in the surrogate range that is not part of a high+low pair? (textual scan, errs towards "yes")
static bool has_unpaired_surrogate_escape(const std::string& t) {
    auto hexv = [](char c) { return (c >= '0' && c <= '9') ? c - '0' : ((c | 32) >= 'a' && (c | 32) <= 'f') ? (c | 32) - 'a' + 10 : -1; };
    auto esc_at = [&](size_t i, unsigned& v) { if (i + 6 > t.size() || t[i] != '\\' || t[i + 1] != 'u') return false; v = 0; for (int k = 2; k < 6; ++k) { int h = hexv(t[i + (size_t)k]); if (h < 0) return false; v = v * 16 + (unsigned)h; } return true; };
    for (size_t i = 0; i + 6 <= t.size(); ++i) {
        unsigned v;
        if (!esc_at(i, v)) continue;
        if (v >= 0xD800 && v <= 0xDBFF) { unsigned w; if (esc_at(i + 6, w) && w >= 0xDC00 && w <= 0xDFFF) { i += 11; continue; } return true; }
        if (v >= 0xDC00 && v <= 0xDFFF) return true;
        i += 5;
    }
    return false;
}

static void judge_text(const std::string& t, const Cfg& c, const char* workload, int route) {
    if (has_unpaired_surrogate_escape(t)) { H.count_(std::string(workload) + ".not_judged_non_scalar_escape"); return; }   // RFC 8259 leaves such texts open (DESIGN §3)
    rfc::Opts ro; ro.max_depth = c.depth; ro.allow_comments = c.comments; ro.allow_trailing_comma = c.trailing;
    rfc::Val exp; rfc::Parser info(nullptr, 0, ro);
    bool want = rfc::accepts(t, ro, &exp, nullptr, &info);
    json_options o; o.allow_comments(c.comments).allow_trailing_comma(c.trailing).max_nesting_depth(c.depth);
    // names for NaN/Inf/-Inf registered for serialization only (enable_inverse = false): parsing must leave such strings alone
    if (c.subst_names_no_inverse) { o.nan_to_str("NaN", false); o.inf_to_str("Inf", false); o.neginf_to_str("NegInf", false); }
    bool got = true; std::error_code ec; ojson v;
    try {
        if (route == 0) v = ojson::parse(t, o);
        else if (route == 1) { json_decoder<ojson> d; std::istringstream is(t); json_stream_reader rd(is, d, o); rd.read(ec); if (ec || !d.is_valid()) got = false; else v = d.get_result(); }
        else { json_decoder<ojson> d; json_parser p(o); p.update(t.data(), t.size()); p.finish_parse(d, ec); if (!ec) p.check_done(ec); if (ec || !d.is_valid()) got = false; else v = d.get_result(); }
    } catch (const ser_error& e) { got = false; ec = e.code(); }
    if (want && info.any_bad_surrogate) { H.count_(std::string(workload) + ".not_judged_non_scalar_escape"); return; }   // lone/mismatched surrogate escapes: RFC 8259 leaves the result open (DESIGN §3)
    H.count_(std::string(workload) + (want ? ".judge_accepts" : ".judge_rejects"));
    static const char* rn[] = {"parse", "stream-reader", "parser"};
    if (want != got) {
        // where do they disagree? coarse construct class from the first offending character region
        std::string cls = want ? "valid-rejected" : "invalid-accepted";
        std::string shape; for (char ch : t.substr(0, 24)) shape.push_back((ch >= '0' && ch <= '9') ? '9' : (isalpha((unsigned char)ch) ? 'a' : ch));
        // recognisable construct classes get their own signature
        if (want && c.comments && info.saw_comment && ec == make_error_code(json_errc::extra_character)) cls += "/comment-after-the-document";
        if (cls.find("comment-after-the-document") != std::string::npos) { H.violation("parser/valid-rejected/comment-after-the-document", J().str("text", t.substr(0, 400)).str("cfg", c.name).str("route", rn[route]).str("ec", ec.message()).done()); return; }
        H.violation(std::string("parser/") + c.name + "/" + cls + "/" + rn[route], J().str("text", t.substr(0, 400)).str("hex", hex(t).substr(0, 400)).str("cfg", c.name).num("depth_limit", c.depth).str("ec", ec ? ec.message() : "").str("shape", shape).done());
        return;
    }
    if (!want) { if (route != 0 && !ec) { /* reader produced no value without error: same outcome as parse reporting unexpected eof */ } return; }
    std::string d = val_diff(exp, v);
    if (!d.empty()) {
        std::string kind = d.substr(d.find(": ") + 2); kind = kind.substr(0, kind.find(' ', kind.find(' ') + 1));
        H.violation(std::string("parser/") + c.name + "/wrong-value/" + kind, J().str("text", t.substr(0, 400)).str("why", d.substr(0, 300)).str("got", describe(v).substr(0, 300)).done());
    }
    // the same text through the wide-character parser: accepted, and the value it holds - written back and narrowed by a UTF-32 -> UTF-8
    // conversion of the monitor's own - is the value the narrow parser produced
    if (std::string(workload) != "exhaustive" || (hash_str(t) & 7) == 0) {
        std::wstring wt; bool convertible = true;
        for (size_t i = 0; i < t.size();) { unsigned char ch = (unsigned char)t[i]; uint32_t cp; int n; if (ch < 0x80) { cp = ch; n = 1; } else if (ch >= 0xc2 && ch < 0xe0) { cp = ch & 0x1f; n = 2; } else if (ch >= 0xe0 && ch < 0xf0) { cp = ch & 0x0f; n = 3; } else if (ch >= 0xf0 && ch < 0xf5) { cp = ch & 0x07; n = 4; } else { convertible = false; break; }
            if (i + (size_t)n > t.size()) { convertible = false; break; } for (int k = 1; k < n; ++k) { unsigned char c2 = (unsigned char)t[i + (size_t)k]; if ((c2 & 0xc0) != 0x80) { convertible = false; break; } cp = (cp << 6) | (c2 & 0x3f); } if (!convertible) break; wt.push_back((wchar_t)cp); i += (size_t)n; }
        if (convertible) {
            wjson_options wo; wo.allow_comments(c.comments).allow_trailing_comma(c.trailing).max_nesting_depth(c.depth);
            if (c.subst_names_no_inverse) { wo.nan_to_str(L"NaN", false); wo.inf_to_str(L"Inf", false); wo.neginf_to_str(L"NegInf", false); }
            H.count_(std::string(workload) + ".wide_parser_texts");
            try { wojson wv = wojson::parse(wt, wo); std::wstring back; { wjson_options wd; wd.max_nesting_depth(1 << 20); wv.dump(back, wd); }
                std::string nb; for (wchar_t wc : back) put_utf8(nb, (uint32_t)wc);
                json_options ro; ro.max_nesting_depth(1 << 20);
                ojson again = ojson::parse(nb, ro); std::string d1 = describe(again), d2 = describe(v);
                // numbers are re-read from text here: compare after one narrow round trip of the narrow value as well
                std::string vb; v.dump(vb, ro); std::string d3 = describe(ojson::parse(vb, ro));
                if (d1 != d3) H.violation(std::string("parser/") + c.name + "/wide-parser-value-differs", J().str("text", t.substr(0, 400)).str("wide", d1.substr(0, 300)).str("narrow", d3.substr(0, 300)).done()); (void)d2; }
            catch (const std::exception& e) { H.violation(std::string("parser/") + c.name + "/valid-rejected/wide-parser", J().str("text", t.substr(0, 400)).str("what", e.what()).done()); }
        }
    }
    // the same text into the sorted-object policy (duplicate names: the first one wins there too) and into wide characters
    if (std::string(workload) != "exhaustive" || t.find('{') != std::string::npos) {
        try { json sv = json::parse(t, o); std::string ds = val_diff(exp, sv); H.count_(std::string(workload) + ".sorted_policy_values");
            if (!ds.empty()) { std::string kind = ds.substr(ds.find(": ") + 2); kind = kind.substr(0, kind.find(' ', kind.find(' ') + 1)); H.violation(std::string("parser/") + c.name + "/wrong-value-sorted-policy/" + kind, J().str("text", t.substr(0, 600)).str("why", ds.substr(0, 300)).str("got", describe(sv).substr(0, 300)).done()); } }
        catch (const std::exception& e) { H.violation(std::string("parser/") + c.name + "/valid-rejected/sorted-policy", J().str("text", t.substr(0, 400)).str("what", e.what()).done()); }
    }
}

// ---- foreign writer: serialises a generated value with random legal spelling ---------------------------------
static void put_str(std::string& out, const std::string& s, Rng& r) {
    out.push_back('"');
    size_t i = 0;
    while (i < s.size()) {
        unsigned char c = (unsigned char)s[i];
        uint32_t cp; int n;
        if (c < 0x80) { cp = c; n = 1; } else if (c < 0xE0) { cp = c & 0x1F; n = 2; } else if (c < 0xF0) { cp = c & 0x0F; n = 3; } else { cp = c & 0x07; n = 4; }
        for (int k = 1; k < n; ++k) cp = (cp << 6) | ((unsigned char)s[i + (size_t)k] & 0x3F);
        bool must = cp < 0x20 || cp == '"' || cp == '\\';
        if (must || r.chance(1, 6)) {
            char buf[16];
            if (cp == '"' && r.coin()) out += "\\\""; else if (cp == '\\' && r.coin()) out += "\\\\"; else if (cp == '/' && r.coin()) out += "\\/";
            else if (cp == '\b' && r.coin()) out += "\\b"; else if (cp == '\f' && r.coin()) out += "\\f"; else if (cp == '\n' && r.coin()) out += "\\n"; else if (cp == '\r' && r.coin()) out += "\\r"; else if (cp == '\t' && r.coin()) out += "\\t";
            else if (cp < 0x10000) { snprintf(buf, sizeof buf, r.coin() ? "\\u%04x" : "\\u%04X", cp); out += buf; }
            else { uint32_t v = cp - 0x10000; snprintf(buf, sizeof buf, "\\u%04x\\u%04x", 0xD800 + (v >> 10), 0xDC00 + (v & 0x3FF)); out += buf; }
        } else out.append(s, i, (size_t)n);
        i += (size_t)n;
    }
    out.push_back('"');
}
static void ws(std::string& out, Rng& r) { static const char* w[] = {"", "", "", " ", "\n", "\t", "\r\n", "  "}; out += r.pick(w); }
static void put_num(std::string& out, Rng& r) {
    switch (r.below(8)) {
    case 0: out += std::to_string(gen_i64(r)); break;
    case 1: out += std::to_string(gen_u64(r)); break;
    case 2: { static const char* s[] = {"-0", "0", "0e0", "0.0", "-0.0", "1E+2", "1e-2", "1.5e300", "1e308", "1.7976931348623157e308", "1.7976931348623159e308", "1e309", "-1e400", "5e-324", "4.9e-324", "2e-324", "1e-400", "123456789012345678901234567890", "-9223372036854775808", "-9223372036854775809", "18446744073709551615", "18446744073709551616", "9007199254740993", "0.1", "0.30000000000000004", "2.2250738585072011e-308", "2.2250738585072014e-308", "1.00000000000000011102230246251565404236316680908203125", "1.00000000000000011102230246251565404236316680908203124", "1.00000000000000011102230246251565404236316680908203126"}; out += r.pick(s); break; }
    case 3: { char buf[40]; snprintf(buf, sizeof buf, "%.17g", gen_double_finite(r)); std::string t = buf; if (t.find_first_of(".e") == std::string::npos) t += ".0"; out += t; break; }
    case 4: { std::string t = r.coin() ? "-" : ""; t += gen_digits(r, 1 + r.below(25)); if (r.coin()) { t += "."; t += gen_digits(r, 1 + r.below(r.chance(1, 10) ? 400 : 20), false); } if (r.coin()) { t += r.coin() ? "e" : "E"; t += r.coin() ? "-" : (r.coin() ? "+" : ""); t += std::to_string(r.below(r.chance(1, 5) ? 400 : 30)); } out += t; break; }
    case 5: out += gen_bigint_text(r); break;
    case 6: out += gen_bigdec_text(r); break;
    default: out += std::to_string(r.range(-100, 100)); break;
    }
}
static void put_val(std::string& out, Rng& r, int depth) {
    unsigned k = (unsigned)r.below(10);
    if (depth <= 0 || k < 5) {
        switch (r.below(6)) { case 0: out += "null"; break; case 1: out += "true"; break; case 2: out += "false"; break; case 3: put_str(out, gen_string(r, 30), r); break; default: put_num(out, r); break; }
        return;
    }
    size_t n = r.below(5);
    bool wide = false;
    if (k >= 8 && r.chance(1, 25)) { n = 14 + r.below(40); wide = true; }     // wide objects with repeated names (sort stability beyond 16 elements)
    if (wide) { out += "{"; ws(out, r); size_t m = 3 + r.below(n); for (size_t i = 0; i < n; ++i) { if (i) { out += ","; ws(out, r); } put_str(out, "k" + std::to_string(r.below(m)), r); ws(out, r); out += ":"; ws(out, r); out += std::to_string(i); ws(out, r); } out += "}"; return; }
    if (k < 8) { out += "["; ws(out, r); for (size_t i = 0; i < n; ++i) { if (i) { out += ","; ws(out, r); } put_val(out, r, depth - 1); ws(out, r); } out += "]"; }
    else { out += "{"; ws(out, r); for (size_t i = 0; i < n; ++i) { if (i) { out += ","; ws(out, r); } static const char* ks[] = {"a", "b", "a", "", "k\"q", "\xc3\xa9"}; put_str(out, r.chance(2, 3) ? std::string(r.pick(ks)) : gen_string(r, 10), r); ws(out, r); out += ":"; ws(out, r); put_val(out, r, depth - 1); ws(out, r); } out += "}"; }
}

int main(int argc, char** argv) {
    H.parse(argc, argv);
    std::string mode = H.opt("mode", "generative");
    static const Cfg CFGS[] = {{false, false, 1024, "strict"}, {true, false, 1024, "comments"}, {false, true, 1024, "trailing-comma"}, {false, false, 2, "depth2"}};
    if (mode == "exhaustive") {
        // case index -> string over the token alphabet: all strings of length 0..L in order of length
        int L = (int)H.opt_int("L", 5);
        std::vector<u64> first(1, 0); u64 total = 0, p = 1; for (int l = 0; l <= L; ++l) { first.push_back(total += p); p *= NA; }
        if ((u64)(H.start + H.count) > total) H.count = (long long)total - H.start;          // never beyond the enumeration
        auto body = [&](long long c) {
            int len = 0; while ((u64)c >= first[(size_t)len + 1]) ++len;
            u64 idx = (u64)c - first[(size_t)len];
            std::string t; for (int i = 0; i < len; ++i) { t += ALPHA[idx % NA]; idx /= NA; }
            if (c % 65536 == 0) set_flight_desc("exhaustive " + hex(t));
            if (len >= 1) ++H.distinct_counted;
            for (const Cfg& cfg : CFGS) judge_text(t, cfg, "exhaustive", 0);
            if (c % 2000 == 0) judge_text(t, CFGS[0], "exhaustive", 1 + (int)((c / 2000) % 2));
            if (c % 400000 == 7) H.sample(J().str("text", t).done());
        };
        int rc = H.run(body);
        (void)rc; return 0;
    }
    std::vector<std::string> suite;
    { std::string repo = getenv("VERIF_REPO") ? getenv("VERIF_REPO") : "/repo"; for (auto& f : list_files(repo + "/test/corelib/input/JSONTestSuite", ".json")) { std::string s = read_file(f); if (s.size() <= 2000) suite.push_back(s); } }
    static const std::vector<std::string> DICT = {"{", "}", "[", "]", ",", ":", "\"", "\\", "\\u", "\\ud83d", "\\ude00", "\\u0000", "\\uDFFF", "true", "false", "null", "1", "-", "0", "01", ".", "e", "E+", "+1", " ", "\n", "\t", "\f", "\x01", "/", "/*", "*/", "//", "'", "NaN", "Infinity", "1e400", "\xc3", "\xa9", "\xff", "0x1", "1.", ".5", "1e", "tru", ",]", ",}"};
    auto body = [&](long long c) {
        Rng r = H.case_rng(c);
        std::string t;
        unsigned k = (unsigned)r.below(10);
        bool subst = false;
        if (r.chance(1, 14)) {      // raw UTF-8 around every boundary of the well-formedness table (Unicode 15, table 3-7), inside a string value or a member name
            static const std::vector<std::string> seqs = {"\xc2\x80", "\xc1\xbf", "\xc0\x80", "\xdf\xbf", "\xe0\xa0\x80", "\xe0\x9f\xbf", "\xe1\x80\x80", "\xec\xbf\xbf", "\xed\x9f\xbf", "\xed\xa0\x80", "\xed\xbf\xbf", "\xee\x80\x80", "\xef\xbf\xbf",
                "\xf0\x90\x80\x80", "\xf0\x8f\xbf\xbf", "\xf1\x80\x80\x80", "\xf3\xbf\xbf\xbf", "\xf4\x80\x80\x80", "\xf4\x8f\xbf\xbf", "\xf4\x90\x80\x80", "\xf4\x90\x80\xbf", "\xf5\x80\x80\x80", "\xf8\x88\x80\x80\x80", "\xff", "\xfe", "\x80", "\xbf", "\xe2\x82", "\xf0\x9f\x98", "\xe2\x28\xa1", "\xf0\x28\x8c\xbc"};
            std::string pre = gen_string(r, 6), post = gen_string(r, 6); std::string body; for (unsigned char ch : pre + r.pick(seqs) + post) { if (ch == '"' || ch == '\\' || ch < 0x20) continue; body.push_back((char)ch); }
            switch (r.below(3)) { case 0: t = "\"" + body + "\""; break; case 1: t = "[1,\"" + body + "\"]"; break; default: t = "{\"" + body + "\":0}"; }
        }
        else if (r.chance(1, 14)) { subst = true; static const char* names[] = {"NaN", "Inf", "NegInf", "-Inf", "nan", "Infinity"}; t = "["; size_t n = 1 + r.below(4); for (size_t i = 0; i < n; ++i) { if (i) t += ","; if (r.coin()) { t += "\""; t += r.pick(names); t += "\""; } else put_val(t, r, 1); } t += "]"; if (r.coin()) t = "{\"NegInf\":" + t + ",\"k\":\"NegInf\"}"; }
        else if (k < 5) { ws(t, r); put_val(t, r, 4); ws(t, r); }
        else if (k < 8) { ws(t, r); put_val(t, r, 3); ws(t, r); mutate_text(t, r, DICT, 3); }
        else if (!suite.empty()) { t = r.pick(suite); if (r.coin()) mutate_text(t, r, DICT, 2); }
        // BOM / UTF-16/32 auto-detection territory is outside the property (BOM-less UTF-8 text)
        if (t.size() >= 3 && (unsigned char)t[0] == 0xEF && (unsigned char)t[1] == 0xBB) return;
        for (size_t i = 0; i < t.size() && i < 4; ++i) if (t[i] == 0) return;
        set_flight_desc("text " + hex(t).substr(0, 3000));
        H.note_distinct(hash_str(t));
        Cfg cfg = CFGS[r.below(3)];
        if (r.chance(1, 5)) { cfg.depth = (int)r.below(5); cfg.name = "depth-limit"; }
        if (subst || r.chance(1, 10)) { cfg.subst_names_no_inverse = true; cfg.name = "substitution-names-without-inverse"; }
        judge_text(t, cfg, "generative", (int)r.below(3));
        if (H.sample_seen < 8 || r.chance(1, 5000)) H.sample(J().str("text", t.substr(0, 200)).done()); else ++H.sample_seen;
    };
    auto regress = [&]() {
        // nesting exactly at / around the limit
        for (int L : {0, 1, 2, 3, 64, 1023, 1024, 1025}) for (int dd = -1; dd <= 1; ++dd) { int d = L + dd; if (d < 0) continue; Cfg c; c.depth = L; c.name = "depth-limit";
            std::string t(std::string((size_t)d, '[') + std::string((size_t)d, ']')); if (d == 0) t = "1"; judge_text(t, c, "regress", 0);
            std::string o; for (int i = 0; i < d; ++i) o += "{\"a\":"; o += "1"; for (int i = 0; i < d; ++i) o += "}"; judge_text(o, c, "regress", 0); }
    };
    return H.run(body, regress);
}
