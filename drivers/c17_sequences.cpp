// C17 stage "sequences": vector (incl. the typed-array element types, vector<uint8_t> and vector<bool>), set, multiset,
// unordered_set; nested sequences.
#include "c17/typed.hpp"
static_assert(C17_SHARED_REV == 10, "drivers/c17/*.hpp changed: bump the revision here so that the build cache is invalidated");
using namespace c17;
using std::vector; using std::string;

int main(int argc, char** argv) {
    std::vector<TypeEntry> t = {
        entry<vector<bool>>(), entry<vector<int8_t>>(), entry<vector<int16_t>>(), entry<vector<int32_t>>(), entry<vector<int64_t>>(),
        entry<vector<uint8_t>>(), entry<vector<uint16_t>>(), entry<vector<uint32_t>>(), entry<vector<uint64_t>>(),
        entry<vector<float>>(), entry<vector<double>>(), entry<vector<string>>(),
        entry<vector<vector<int32_t>>>(), entry<vector<vector<string>>>(), entry<vector<vector<uint8_t>>>(), entry<vector<std::optional<int32_t>>>(), entry<vector<std::optional<string>>>(),
        entry<std::set<string>>(), entry<std::set<int32_t>>(), entry<std::multiset<string>>(), entry<std::unordered_set<string>>(), entry<std::unordered_set<int64_t>>(),
        entry<std::set<vector<int32_t>>>(), entry<vector<std::set<string>>>(),
    };
    // set<int32> / unordered_set<int64>: while ext_traits::is_typed_array matches containers without data(), their streaming encode does
    // not compile; Tr<>::can_stream_encode follows the trait, and the skipped route is counted per value (uncompilable.stream-encode.*)
    return run_table(argc, argv, t);
}
