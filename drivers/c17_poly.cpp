// C17 stage "poly": polymorphic hierarchies via JSONCONS_POLYMORPHIC_TRAITS held in shared_ptr / unique_ptr, in vectors and maps
// of them, and as class members.
#include "c17/typed.hpp"
#include "c17/types_poly.hpp"
static_assert(C17_SHARED_REV == 10, "drivers/c17/*.hpp changed: bump the revision here so that the build cache is invalidated");
using namespace c17;
using namespace c17t;

int main(int argc, char** argv) {
    std::vector<TypeEntry> t = {
        entry<Circle>(), entry<Rect>(), entry<Tri>(),
        entry<std::shared_ptr<Shape>>(), entry<std::unique_ptr<Shape>>(),
        entry<std::vector<std::shared_ptr<Shape>>>(), entry<std::vector<std::unique_ptr<Shape>>>(),
        entry<std::map<std::string, std::shared_ptr<Shape>>>(), entry<Scene>(), entry<std::vector<Scene>>(),
        entry<std::pair<std::string, std::shared_ptr<Shape>>>(), entry<std::optional<Scene>>(),
    };
    return run_table(argc, argv, t, {"stream-encode.N_MEMBER-class-with-shared_ptr<Base>-member"});
}
