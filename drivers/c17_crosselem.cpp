// C17 stage "crosselem": a sequence written with element type S must decode into a vector of every element type D that represents all
// values of S exactly, identically through the streaming traits (decode_X<std::vector<D>> from bytes and from a stream: typed-array fast
// paths such as basic_staj_cursor::read_typed_array) and through the basic_json route (decode_X<json>(bytes).as<std::vector<D>>()), and both
// must equal the element-wise conversion of the source.  CBOR with typed arrays on (RFC 8746 tags) and off, MessagePack, UBJSON (typed
// containers), BSON (array root); half-precision source arrays are written through cbor_encoder::typed_array(half_arg, ...).
#include "common/jvalue.hpp"
#include <jsoncons/json.hpp>
#include <jsoncons_ext/cbor/cbor.hpp>
#include <jsoncons_ext/msgpack/msgpack.hpp>
#include <jsoncons_ext/ubjson/ubjson.hpp>
#include <jsoncons_ext/bson/bson.hpp>
#include <sstream>

using namespace vf;
using jsoncons::json;

static Harness H;

struct half_t { uint16_t bits; };            // source element "half": IEEE 754 binary16 bit pattern

template <class T> struct Nm;
#define NM(T, S) template <> struct Nm<T> { static const char* name() { return S; } };
NM(int8_t, "int8") NM(int16_t, "int16") NM(int32_t, "int32") NM(int64_t, "int64") NM(uint8_t, "uint8") NM(uint16_t, "uint16") NM(uint32_t, "uint32") NM(uint64_t, "uint64")
NM(float, "float") NM(double, "double") NM(half_t, "half")

// reference half -> double (written for the monitor)
static double half_to_double(uint16_t h) {
    int sign = (h >> 15) & 1, exp = (h >> 10) & 0x1f, man = h & 0x3ff;
    double v = exp == 0 ? std::ldexp((double)man, -24) : std::ldexp((double)(man + 1024), exp - 25);
    return sign ? -v : v;
}

template <class S> S gen_elem(Rng& r) {
    using L = std::numeric_limits<S>;
    if constexpr (std::is_integral<S>::value) {
        switch (r.below(8)) {
        case 0: return L::min();
        case 1: return L::max();
        case 2: return (S)(std::is_signed<S>::value ? -1 : 1);
        case 3: return 0;
        case 4: return (S)(L::min() + 1);
        case 5: return (S)(L::max() - 1);
        case 6: return (S)((std::is_signed<S>::value && r.coin()) ? -(int64_t)r.below(130) : (int64_t)r.below(130));     // around the int8 / CBOR short-form boundaries
        default: return (S)r.next();
        }
    } else {
        for (;;) {
            float f;
            switch (r.below(4)) {
            case 0: { static const float b[] = {0.0f, -0.0f, 1.0f, -1.0f, 0.5f, 3.4028234663852886e38f, -3.4028234663852886e38f, 1.1754943508222875e-38f, 1.4e-45f, 65504.0f, 16777217.0f, 0.1f}; f = r.pick(b); break; }
            case 1: { uint32_t u = (uint32_t)r.next(); memcpy(&f, &u, 4); break; }
            case 2: f = (float)r.range(-1000, 1000); break;
            default: f = (float)r.range(-100000, 100000) / 8.0f; break;
            }
            if (std::isfinite(f)) return f;
        }
    }
}
template <> half_t gen_elem<half_t>(Rng& r) {
    static const uint16_t b[] = {0x0000, 0x8000, 0x3c00, 0xbc00, 0x7bff, 0xfbff, 0x0001, 0x8001, 0x0400, 0x03ff, 0x3555};
    for (;;) { uint16_t h = r.chance(1, 3) ? r.pick(b) : (uint16_t)r.next(); if (((h >> 10) & 0x1f) != 0x1f) return half_t{h}; }      // finite only
}

template <class S, class D> D conv(S s) { return static_cast<D>(s); }
template <class D> D conv_half(half_t s) { return static_cast<D>(half_to_double(s.bits)); }

template <class D> std::string show(const std::vector<D>& v) {
    std::string s = "[";
    for (size_t i = 0; i < v.size() && i < 40; ++i) { if (i) s += ","; char buf[40]; if (std::is_floating_point<D>::value) snprintf(buf, sizeof buf, "%.9g", (double)v[i]); else if (std::is_signed<D>::value) snprintf(buf, sizeof buf, "%lld", (long long)v[i]); else snprintf(buf, sizeof buf, "%llu", (unsigned long long)v[i]); s += buf; }
    return s + (v.size() > 40 ? ",...]" : "]");
}

enum Fmt { CBOR_TYPED, CBOR_PLAIN, MSGPACK, UBJSON, BSON };
static const char* fmt_names[] = {"cbor-typed", "cbor-plain", "msgpack", "ubjson", "bson"};

// encodings of the source vector (per S)
template <class S> bool encode_src(int f, const std::vector<S>& v, std::vector<uint8_t>& b) {
    switch (f) {
    case CBOR_TYPED: jsoncons::cbor::encode_cbor(v, b, jsoncons::cbor::cbor_options{}.use_typed_arrays(true)); return true;
    case CBOR_PLAIN: jsoncons::cbor::encode_cbor(v, b, jsoncons::cbor::cbor_options{}.use_typed_arrays(false)); return true;
    case MSGPACK: jsoncons::msgpack::encode_msgpack(v, b); return true;
    case UBJSON: jsoncons::ubjson::encode_ubjson(v, b); return true;
    default: jsoncons::bson::encode_bson(v, b); return true;
    }
}
template <> bool encode_src<half_t>(int f, const std::vector<half_t>& v, std::vector<uint8_t>& b) {
    if (f != CBOR_TYPED && f != CBOR_PLAIN) return false;
    std::vector<uint16_t> raw; for (auto h : v) raw.push_back(h.bits);
    jsoncons::cbor::cbor_bytes_encoder enc(b, jsoncons::cbor::cbor_options{}.use_typed_arrays(f == CBOR_TYPED));
    enc.typed_array(jsoncons::half_arg, jsoncons::span<const uint16_t>(raw.data(), raw.size()));
    enc.flush();
    return true;
}
// decoders (per D)
template <class T> T decode_bytes(int f, const std::vector<uint8_t>& b) {
    switch (f) {
    case CBOR_TYPED: case CBOR_PLAIN: return jsoncons::cbor::decode_cbor<T>(b);
    case MSGPACK: return jsoncons::msgpack::decode_msgpack<T>(b);
    case UBJSON: return jsoncons::ubjson::decode_ubjson<T>(b);
    default: return jsoncons::bson::decode_bson<T>(b);
    }
}
template <class T> T decode_stream(int f, std::istream& is) {
    switch (f) {
    case CBOR_TYPED: case CBOR_PLAIN: return jsoncons::cbor::decode_cbor<T>(is);
    case MSGPACK: return jsoncons::msgpack::decode_msgpack<T>(is);
    case UBJSON: return jsoncons::ubjson::decode_ubjson<T>(is);
    default: return jsoncons::bson::decode_bson<T>(is);
    }
}
// BSON reads an array root back as a document with index keys when the target is basic_json: its values in key order are the elements
static json bson_root_to_array(const json& doc) {
    json a(jsoncons::json_array_arg);
    if (!doc.is_object()) return doc;
    for (size_t i = 0; i < doc.size(); ++i) a.push_back(doc.at(std::to_string(i)));
    return a;
}

template <class S, class D> void cross(Rng& r) {
    const std::string pair = std::string(Nm<S>::name()) + "-to-" + Nm<D>::name();
    size_t n = r.chance(1, 12) ? 24 + r.below(280) : r.below(12);
    std::vector<S> src; std::vector<D> want;
    for (size_t i = 0; i < n; ++i) {
        S s = gen_elem<S>(r); src.push_back(s);
        if constexpr (std::is_same<S, half_t>::value) want.push_back(conv_half<D>(s)); else want.push_back(conv<S, D>(s));
    }
    const std::string wanted = show(want);
    set_flight_desc("crosselem " + pair + " " + wanted);
    H.count_("pair." + pair);
    H.note_distinct(hash_str(wanted, hash_str(pair)));
    for (int f = CBOR_TYPED; f <= BSON; ++f) {
        std::vector<uint8_t> b;
        try { if (!encode_src<S>(f, src, b)) continue; }
        catch (const jsoncons::json_exception& e) {
            // BSON has no unsigned 64-bit integer: values above INT64_MAX are refused by the encoder
            if (f == BSON && std::is_same<S, uint64_t>::value) { H.count_("skip.bson.uint64-above-int64-max"); continue; }
            H.violation(std::string("typed/cross-element-type/") + fmt_names[f] + "/encode/" + pair, J().str("source", wanted).str("error", e.what()).done());
            continue;
        }
        H.count_(std::string("executed.") + fmt_names[f]);
        auto judge = [&](const char* route, auto&& produce) {
            std::string sig = std::string("typed/cross-element-type/") + fmt_names[f] + "/" + route + "/" + pair;
            try {
                std::vector<D> got = produce();
                bool same = got.size() == want.size();
                for (size_t i = 0; same && i < got.size(); ++i) same = got[i] == want[i];
                if (!same) H.violation(sig, J().str("source_as_destination", wanted).str("got", show(got)).str("encoding", hex(b.data(), b.size() > 400 ? 400 : b.size())).done());
                else H.count_(std::string("ok.") + route);
            } catch (const jsoncons::assertion_error& e) { H.violation("typed/foreign-exception/cross-element-type/" + pair + "/jsoncons::assertion_error", J().str("what", e.what()).done()); }
            catch (const jsoncons::json_exception& e) { H.violation(sig, J().str("source_as_destination", wanted).str("error", e.what()).str("encoding", hex(b.data(), b.size() > 400 ? 400 : b.size())).done()); }
        };
        judge("decode", [&] { return decode_bytes<std::vector<D>>(f, b); });
        judge("decode-istream", [&] { std::istringstream is(std::string(b.begin(), b.end())); return decode_stream<std::vector<D>>(f, is); });
        judge("json-route", [&] { json j = decode_bytes<json>(f, b); if (f == BSON) j = bson_root_to_array(j); return j.as<std::vector<D>>(); });
    }
}

struct Entry { const char* s; const char* d; void (*fn)(Rng&); };
template <class S, class D> Entry entry() { return Entry{Nm<S>::name(), Nm<D>::name(), &cross<S, D>}; }

int main(int argc, char** argv) {
    H.parse(argc, argv);
    // D represents every value of S exactly
    const std::vector<Entry> table = {
        entry<int8_t, int16_t>(), entry<int8_t, int32_t>(), entry<int8_t, int64_t>(), entry<int8_t, float>(), entry<int8_t, double>(),
        entry<int16_t, int32_t>(), entry<int16_t, int64_t>(), entry<int16_t, float>(), entry<int16_t, double>(),
        entry<int32_t, int64_t>(), entry<int32_t, double>(),
        entry<uint8_t, int16_t>(), entry<uint8_t, uint16_t>(), entry<uint8_t, int32_t>(), entry<uint8_t, uint32_t>(), entry<uint8_t, int64_t>(), entry<uint8_t, uint64_t>(), entry<uint8_t, float>(), entry<uint8_t, double>(),
        entry<uint16_t, int32_t>(), entry<uint16_t, uint32_t>(), entry<uint16_t, int64_t>(), entry<uint16_t, uint64_t>(), entry<uint16_t, float>(), entry<uint16_t, double>(),
        entry<uint32_t, int64_t>(), entry<uint32_t, uint64_t>(), entry<uint32_t, double>(),
        entry<float, double>(),
        entry<half_t, float>(), entry<half_t, double>(),
        // same element type, as a control of the harness (also covered by the sequences stage)
        entry<int8_t, int8_t>(), entry<int64_t, int64_t>(), entry<uint64_t, uint64_t>(), entry<double, double>(),
    };
    H.count_("pairs-in-table", table.size());
    auto body = [&](long long c) {
        Rng r = H.case_rng(c);
        table[(size_t)(c % (long long)table.size())].fn(r);
    };
    return H.run(body);
}
