// Exec driver for the binary-format monitors (C07, C08): decodes bytes with the real decoders, feeds event
// sequences into the real encoders, transcodes decoded values into every other format.
#include "common/exec.hpp"
#include <jsoncons/json.hpp>
#include <jsoncons_ext/cbor/cbor.hpp>
#include <jsoncons_ext/msgpack/msgpack.hpp>
#include <jsoncons_ext/ubjson/ubjson.hpp>
#include <jsoncons_ext/bson/bson.hpp>
#include <sstream>

using namespace jsoncons;
using namespace vf;
using Bytes = std::vector<uint8_t>;

static semantic_tag tag_of(const std::string& t) {
    static const std::pair<const char*, semantic_tag> m[] = {{"none", semantic_tag::none}, {"bigint", semantic_tag::bigint}, {"bigdec", semantic_tag::bigdec}, {"datetime", semantic_tag::datetime}, {"epoch_second", semantic_tag::epoch_second},
        {"epoch_milli", semantic_tag::epoch_milli}, {"epoch_nano", semantic_tag::epoch_nano}, {"base16", semantic_tag::base16}, {"base64", semantic_tag::base64}, {"base64url", semantic_tag::base64url}, {"bigfloat", semantic_tag::bigfloat},
        {"uri", semantic_tag::uri}, {"undefined", semantic_tag::undefined}, {"regex", semantic_tag::regex}, {"code", semantic_tag::code}, {"id", semantic_tag::id}, {"float128", semantic_tag::float128}, {"clamped", semantic_tag::clamped}};
    for (auto& p : m) if (t == p.first) return p.second;
    return semantic_tag::none;
}
static std::string str_of_hex(const std::string& h) { Bytes b = unhex(h); return std::string(b.begin(), b.end()); }

template <class Json> static Json decode_fmt(const std::string& fmt, const Bytes& b, int route) {
    if (route == 1) { std::string s((const char*)b.data(), b.size()); std::istringstream is(s);
        if (fmt == "cbor") return cbor::decode_cbor<Json>(is); if (fmt == "msgpack") return msgpack::decode_msgpack<Json>(is); if (fmt == "ubjson") return ubjson::decode_ubjson<Json>(is); return bson::decode_bson<Json>(is); }
    if (fmt == "cbor") return cbor::decode_cbor<Json>(b); if (fmt == "msgpack") return msgpack::decode_msgpack<Json>(b); if (fmt == "ubjson") return ubjson::decode_ubjson<Json>(b); return bson::decode_bson<Json>(b);
}

static std::string err_fields(const std::exception& e) {
    std::string code = "?";
    if (auto se = dynamic_cast<const ser_error*>(&e)) code = std::string(se->code().category().name()) + ":" + std::to_string(se->code().value()) + ":" + se->code().message();
    return kv("ok", "false") + "," + kv("ec", jstr(code)) + "," + kv("what", jstr(e.what())) + "," + kv("type", jstr(current_exception_type()));
}

// feed an event list into a visitor
static void feed(const json& evs, json_visitor& v, std::error_code& ec) {
    ser_context ctx;
    for (const auto& e : evs.array_range()) {
        std::string k = e[0].as<std::string>();
        semantic_tag t = e.size() > 2 && e[2].is_string() ? tag_of(e[2].as<std::string>()) : semantic_tag::none;
        if (k == "BA") { if (e.size() > 1 && !e[1].is_null()) v.begin_array(e[1].as<size_t>(), t, ctx, ec); else v.begin_array(t, ctx, ec); }
        else if (k == "EA") v.end_array(ctx, ec);
        else if (k == "BO") { if (e.size() > 1 && !e[1].is_null()) v.begin_object(e[1].as<size_t>(), t, ctx, ec); else v.begin_object(t, ctx, ec); }
        else if (k == "EO") v.end_object(ctx, ec);
        else if (k == "K") v.key(str_of_hex(e[1].as<std::string>()), ctx, ec);
        else if (k == "S") v.string_value(str_of_hex(e[1].as<std::string>()), t, ctx, ec);
        else if (k == "B") { Bytes b = unhex(e[1].as<std::string>()); v.byte_string_value(byte_string_view(b.data(), b.size()), t, ctx, ec); }
        else if (k == "BX") { Bytes b = unhex(e[1].as<std::string>()); v.byte_string_value(byte_string_view(b.data(), b.size()), e[2].as<uint64_t>(), ctx, ec); }
        else if (k == "N") v.null_value(e.size() > 1 && e[1].is_string() ? tag_of(e[1].as<std::string>()) : semantic_tag::none, ctx, ec);
        else if (k == "T") v.bool_value(true, semantic_tag::none, ctx, ec);
        else if (k == "F") v.bool_value(false, semantic_tag::none, ctx, ec);
        else if (k == "I") v.int64_value((int64_t)std::stoll(e[1].as<std::string>()), t, ctx, ec);
        else if (k == "U") v.uint64_value((uint64_t)std::stoull(e[1].as<std::string>()), t, ctx, ec);
        else if (k == "D") v.double_value(bits_to_double(std::stoull(e[1].as<std::string>(), nullptr, 16)), t, ctx, ec);
        else if (k == "H") v.half_value((uint16_t)e[1].as<unsigned>(), t, ctx, ec);
        else if (k == "TA") { std::string ty = e[1].as<std::string>();
            if (ty == "u8") { std::vector<uint8_t> d; for (auto& x : e[2].array_range()) d.push_back(x.as<uint8_t>()); v.typed_array(jsoncons::span<const uint8_t>(d.data(), d.size()), semantic_tag::none, ctx, ec); }
            else if (ty == "i32") { std::vector<int32_t> d; for (auto& x : e[2].array_range()) d.push_back(x.as<int32_t>()); v.typed_array(jsoncons::span<const int32_t>(d.data(), d.size()), semantic_tag::none, ctx, ec); }
            else if (ty == "u64") { std::vector<uint64_t> d; for (auto& x : e[2].array_range()) d.push_back((uint64_t)std::stoull(x.as<std::string>())); v.typed_array(jsoncons::span<const uint64_t>(d.data(), d.size()), semantic_tag::none, ctx, ec); }
            else { std::vector<double> d; for (auto& x : e[2].array_range()) d.push_back(bits_to_double(std::stoull(x.as<std::string>(), nullptr, 16))); v.typed_array(jsoncons::span<const double>(d.data(), d.size()), semantic_tag::none, ctx, ec); } }
        if (ec) return;
    }
    v.flush();
}

static std::string handle(const json& req) {
    std::string op = req["op"].as<std::string>();
    if (op == "decode") {
        std::string fmt = req["fmt"].as<std::string>(); Bytes b = unhex(req["hex"].as<std::string>()); int route = req.get_value_or<int>("route", 0);
        try { ojson v = decode_fmt<ojson>(fmt, b, route); return kv("ok", "true") + "," + kv("v", describe(v)); }
        catch (const json_exception&) { try { throw; } catch (const std::exception& e) { return err_fields(e); } }
    }
    if (op == "transcode") {
        std::string fmt = req["fmt"].as<std::string>(); Bytes b = unhex(req["hex"].as<std::string>());
        ojson v;
        try { v = decode_fmt<ojson>(fmt, b, 0); } catch (const json_exception&) { return kv("ok", "false"); }
        std::string out = kv("ok", "true") + "," + kv("v", describe(v));
        { std::string s; std::error_code ec; v.dump(s, json_options(), indenting::no_indent, ec); out += "," + (ec ? kv("json_err", jstr(ec.message())) : kv("json", jstr(hex(s)))); }
        { std::string s; std::error_code ec; v.dump(s, json_options(), indenting::indent, ec); out += "," + (ec ? kv("pretty_err", jstr(ec.message())) : kv("pretty", jstr(hex(s)))); }
        for (const char* f : {"cbor", "msgpack", "ubjson", "bson"}) {
            Bytes o; std::string key = f;
            try { if (key == "cbor") cbor::encode_cbor(v, o); else if (key == "msgpack") msgpack::encode_msgpack(v, o); else if (key == "ubjson") ubjson::encode_ubjson(v, o); else bson::encode_bson(v, o); out += "," + kv(f, jstr(hex(o))); }
            catch (const json_exception&) { try { throw; } catch (const std::exception& e) { out += "," + kv((key + "_err").c_str(), jstr(e.what())); } }
        }
        return out;
    }
    if (op == "events") {
        std::string enc = req["enc"].as<std::string>();
        std::error_code ec; std::string outhex;
        try {
            if (enc == "json" || enc == "json_pretty") { std::string s; json_options o; if (enc == "json") { compact_json_string_encoder e(s, o); feed(req["ev"], e, ec); } else { json_string_encoder e(s, o); feed(req["ev"], e, ec); } outhex = hex(s); }
            else if (enc == "cbor") { Bytes o; cbor::cbor_options opt; opt.pack_strings(req.get_value_or<bool>("pack", false)); opt.use_typed_arrays(req.get_value_or<bool>("typed", false)); cbor::cbor_bytes_encoder e(o, opt); feed(req["ev"], e, ec); outhex = hex(o); }
            else if (enc == "msgpack") { Bytes o; msgpack::msgpack_bytes_encoder e(o); feed(req["ev"], e, ec); outhex = hex(o); }
            else if (enc == "ubjson") { Bytes o; ubjson::ubjson_bytes_encoder e(o); feed(req["ev"], e, ec); outhex = hex(o); }
            else { Bytes o; bson::bson_bytes_encoder e(o); feed(req["ev"], e, ec); outhex = hex(o); }
        } catch (const json_exception&) { try { throw; } catch (const std::exception& e) { return err_fields(e); } }
        if (ec) return kv("ok", "false") + "," + kv("ec", jstr(std::string(ec.category().name()) + ":" + std::to_string(ec.value()) + ":" + ec.message()));
        return kv("ok", "true") + "," + kv("hex", jstr(outhex));
    }
    return kv("error", jstr("unknown op"));
}

int main(int argc, char** argv) { return exec_loop(argc, argv, handle); }
