// C04: numbers survive conversion between text and binary exactly.
// Oracles, all independent of the library: glibc strtod/snprintf (correctly rounded; the library uses std::from_chars and
// Grisu3), native __int128 arithmetic, and a small schoolbook big-integer (Big, base 2^32) written here.
#include "common/jvalue.hpp"
#include <jsoncons/json.hpp>
#include <jsoncons_ext/cbor/cbor.hpp>
#include <jsoncons_ext/msgpack/msgpack.hpp>
#include <jsoncons_ext/ubjson/ubjson.hpp>
#include <jsoncons_ext/bson/bson.hpp>
#include <cmath>
#include <cfloat>
#include <cerrno>

using namespace jsoncons;
using namespace vf;
static Harness H;
static std::string g_desc;   // what the case in flight is about (sampled into the evidence)
using Bytes = std::vector<uint8_t>;
typedef __int128 i128;
typedef unsigned __int128 u128;

// ---------------------------------------------------------------- schoolbook big integer (oracle)
struct Big {
    bool neg = false;
    std::vector<uint32_t> m;   // little endian, no leading zero limbs
    void trim() { while (!m.empty() && m.back() == 0) m.pop_back(); if (m.empty()) neg = false; }
    bool zero() const { return m.empty(); }
    static Big from_u64(u64 v, bool n = false) { Big b; while (v) { b.m.push_back((uint32_t)v); v >>= 32; } b.neg = n && !b.m.empty(); return b; }
    void mul_small(uint32_t k) { u64 c = 0; for (auto& x : m) { u64 t = (u64)x * k + c; x = (uint32_t)t; c = t >> 32; } if (c) m.push_back((uint32_t)c); trim(); }
    void add_small(uint32_t k) { u64 c = k; for (size_t i = 0; i < m.size() && c; ++i) { u64 t = (u64)m[i] + c; m[i] = (uint32_t)t; c = t >> 32; } if (c) m.push_back((uint32_t)c); }
    uint32_t divmod_small(uint32_t k) { u64 r = 0; for (size_t i = m.size(); i-- > 0;) { u64 t = (r << 32) | m[i]; m[i] = (uint32_t)(t / k); r = t % k; } trim(); return (uint32_t)r; }
    static Big from_dec(const std::string& s) { Big b; size_t i = 0; bool n = false; if (i < s.size() && s[i] == '-') { n = true; ++i; } for (; i < s.size(); ++i) { b.mul_small(10); b.add_small((uint32_t)(s[i] - '0')); } b.trim(); b.neg = n && !b.zero(); return b; }
    std::string dec() const { if (zero()) return "0"; Big t = *this; std::string out; while (!t.zero()) { uint32_t r = t.divmod_small(1000000000u); for (int k = 0; k < 9; ++k) { out.push_back((char)('0' + r % 10)); r /= 10; } } while (out.size() > 1 && out.back() == '0') out.pop_back(); if (neg) out.push_back('-'); std::reverse(out.begin(), out.end()); return out; }
    std::string hexs(bool upper) const { if (zero()) return "0"; std::string out; const char* d = upper ? "0123456789ABCDEF" : "0123456789abcdef"; for (size_t i = m.size(); i-- > 0;) for (int k = 28; k >= 0; k -= 4) out.push_back(d[(m[i] >> k) & 15]); size_t p = out.find_first_not_of('0'); out = out.substr(p); return (neg ? "-" : "") + out; }
    Bytes bytes_be() const { Bytes b; for (size_t i = m.size(); i-- > 0;) for (int k = 24; k >= 0; k -= 8) b.push_back((uint8_t)(m[i] >> k)); size_t p = 0; while (p < b.size() && b[p] == 0) ++p; return Bytes(b.begin() + (long)p, b.end()); }
    static int cmpmag(const Big& a, const Big& b) { if (a.m.size() != b.m.size()) return a.m.size() < b.m.size() ? -1 : 1; for (size_t i = a.m.size(); i-- > 0;) if (a.m[i] != b.m[i]) return a.m[i] < b.m[i] ? -1 : 1; return 0; }
    static int cmp(const Big& a, const Big& b) { if (a.neg != b.neg) return a.neg ? -1 : 1; int c = cmpmag(a, b); return a.neg ? -c : c; }
    static Big addmag(const Big& a, const Big& b) { Big r; u64 c = 0; for (size_t i = 0; i < std::max(a.m.size(), b.m.size()) || c; ++i) { u64 t = c; if (i < a.m.size()) t += a.m[i]; if (i < b.m.size()) t += b.m[i]; r.m.push_back((uint32_t)t); c = t >> 32; } r.trim(); return r; }
    static Big submag(const Big& a, const Big& b) { Big r; int64_t c = 0; for (size_t i = 0; i < a.m.size(); ++i) { int64_t t = (int64_t)a.m[i] - c - (i < b.m.size() ? (int64_t)b.m[i] : 0); c = t < 0; if (t < 0) t += ((int64_t)1 << 32); r.m.push_back((uint32_t)t); } r.trim(); return r; }
    static Big add(const Big& a, const Big& b) { Big r; if (a.neg == b.neg) { r = addmag(a, b); r.neg = a.neg; } else { int c = cmpmag(a, b); if (c == 0) return Big(); if (c > 0) { r = submag(a, b); r.neg = a.neg; } else { r = submag(b, a); r.neg = b.neg; } } r.trim(); return r; }
    static Big negate(Big a) { if (!a.zero()) a.neg = !a.neg; return a; }
    static Big sub(const Big& a, const Big& b) { return add(a, negate(b)); }
    static Big mul(const Big& a, const Big& b) { Big r; if (a.zero() || b.zero()) return r; r.m.assign(a.m.size() + b.m.size(), 0); for (size_t i = 0; i < a.m.size(); ++i) { u64 c = 0; for (size_t j = 0; j < b.m.size() || c; ++j) { u64 t = r.m[i + j] + c + (j < b.m.size() ? (u64)a.m[i] * b.m[j] : 0); r.m[i + j] = (uint32_t)t; c = t >> 32; } } r.neg = a.neg != b.neg; r.trim(); return r; }
    static Big shl(const Big& a, unsigned k) { Big r; if (a.zero()) return r; r.m.assign(k / 32, 0); unsigned s = k % 32; uint32_t c = 0; for (auto x : a.m) { r.m.push_back(s ? (x << s) | c : x); c = s ? x >> (32 - s) : 0; } if (c) r.m.push_back(c); r.neg = a.neg; r.trim(); return r; }
    static Big shr_mag(const Big& a, unsigned k) { Big r; size_t q = k / 32; unsigned s = k % 32; for (size_t i = q; i < a.m.size(); ++i) { uint32_t lo = a.m[i] >> s; uint32_t hi = (s && i + 1 < a.m.size()) ? a.m[i + 1] << (32 - s) : 0; r.m.push_back(lo | hi); } r.neg = a.neg; r.trim(); return r; }
    static Big pow_small(uint32_t b, unsigned e) { Big r = from_u64(1); for (unsigned i = 0; i < e; ++i) r.mul_small(b); return r; }
};

static Big gen_big(Rng& r, unsigned max_limbs32) {
    Big b; size_t n = r.chance(1, 4) ? r.below(5) : r.below(max_limbs32 + 1);
    int style = (int)r.below(6);
    for (size_t i = 0; i < n; ++i) {
        uint32_t x;
        switch (style) { case 0: x = (uint32_t)r.next(); break; case 1: x = 0xffffffffu; break; case 2: x = 0; break; case 3: x = r.coin() ? 0xffffffffu : 0; break; case 4: x = r.chance(1, 3) ? (uint32_t)r.next() : (r.coin() ? 0xffffffffu : 0); break; default: x = (uint32_t)1 << r.below(32); }
        b.m.push_back(x);
    }
    if (style == 2 && n) b.m.back() = (uint32_t)1 << r.below(32);       // exact powers of two (limb aligned when bit 0)
    b.trim();
    if (!b.zero() && r.chance(1, 5)) { if (r.coin()) b = Big::add(b, Big::from_u64(1 + r.below(2))); else b = Big::sub(b, Big::from_u64(1 + r.below(2))); }
    b.neg = !b.zero() && r.coin();
    return b;
}

// ---------------------------------------------------------------- helpers
static bool is_json_number(const std::string& s) {
    size_t i = 0, n = s.size();
    if (i < n && s[i] == '-') ++i;
    if (i >= n) return false;
    if (s[i] == '0') ++i; else if (s[i] >= '1' && s[i] <= '9') { while (i < n && isdigit((unsigned char)s[i])) ++i; } else return false;
    if (i < n && s[i] == '.') { ++i; size_t j = i; while (i < n && isdigit((unsigned char)s[i])) ++i; if (i == j) return false; }
    if (i < n && (s[i] == 'e' || s[i] == 'E')) { ++i; if (i < n && (s[i] == '+' || s[i] == '-')) ++i; size_t j = i; while (i < n && isdigit((unsigned char)s[i])) ++i; if (i == j) return false; }
    return i == n;
}
// significant digits of the mantissa: leading and trailing zeros do not count
static int sig_digits(const std::string& s) {
    std::string d; for (char c : s) { if (c == 'e' || c == 'E') break; if (isdigit((unsigned char)c)) d.push_back(c); }
    size_t a = d.find_first_not_of('0'); if (a == std::string::npos) return 1;
    size_t b = d.find_last_not_of('0'); return (int)(b - a + 1);
}
static double c_strtod(const std::string& s, bool* range_err = nullptr) { errno = 0; char* e = nullptr; double d = strtod(s.c_str(), &e); if (range_err) *range_err = errno == ERANGE; return d; }
static std::string dstr(double d) { char b[64]; snprintf(b, sizeof b, "%.17g", d); return b; }
static std::string bitsx(double d) { char b[32]; snprintf(b, sizeof b, "%016llx", (unsigned long long)double_to_bits(d)); return b; }
static std::string u128s(u128 v) { if (!v) return "0"; std::string s; while (v) { s.push_back((char)('0' + (int)(v % 10))); v /= 10; } std::reverse(s.begin(), s.end()); return s; }
static std::string i128s(i128 v) { return v < 0 ? "-" + u128s((u128)0 - (u128)v) : u128s((u128)v); }

static u64 gen_boundary_u64(Rng& r) {
    switch (r.below(9)) {
    case 0: return r.next();
    case 1: return r.next() >> r.below(64);
    case 2: { u64 p = (u64)1 << r.below(64); return p + (u64)r.range(-3, 3); }
    case 3: { u64 p = 1; int k = (int)r.below(20); for (int i = 0; i < k; ++i) p *= 10; return p + (u64)r.range(-3, 3); }
    case 4: return UINT64_MAX - r.below(12);
    case 5: return (u64)INT64_MAX + (u64)r.range(-6, 6);
    case 6: return r.below(1200);
    case 7: { static const u64 c[] = {1844674407370955161ULL, 1844674407370955160ULL, 1844674407370955162ULL, 922337203685477580ULL, 922337203685477581ULL, 9223372036854775800ULL, 18446744073709551609ULL, 18446744073709551610ULL, 9999999999999999999ULL, 10000000000000000000ULL, 9007199254740992ULL, 9007199254740993ULL, 4294967295ULL, 4294967296ULL}; return r.pick(c); }
    default: { int nd = 1 + (int)r.below(20); u128 v = 0; for (int i = 0; i < nd; ++i) v = v * 10 + (i == 0 ? 1 + r.below(9) : r.below(10)); return v > UINT64_MAX ? UINT64_MAX : (u64)v; }
    }
}

template <class T> static void check_dec_to_integer(const std::string& text, i128 truth, bool truth_fits_128, const char* tname) {
    T v{}; auto res = jsoncons::dec_to_integer(text.data(), text.size(), v);
    bool in_range = truth_fits_128 && truth >= (i128)std::numeric_limits<T>::lowest() && truth <= (i128)(std::numeric_limits<T>::max)();
    H.count_(in_range ? "dec_to_integer.in_range" : "dec_to_integer.out_of_range");
    if (in_range) { if (!res || (i128)v != truth) H.violation(std::string("int/dec_to_integer/") + tname + "/in-range-wrong", J().str("text", text).str("got", res ? i128s((i128)v) : "error").done()); }
    else if (res) H.violation(std::string("int/dec_to_integer/") + tname + "/out-of-range-accepted", J().str("text", text).str("got", i128s((i128)v)).done());
}
template <class T> static void check_from_integer(T v, const char* tname) {
    std::string s; jsoncons::from_integer(v, s);
    std::string want = i128s((i128)v);
    H.count_("from_integer");
    if (s != want) H.violation(std::string("int/from_integer/") + tname, J().str("want", want).str("got", s).done());
}

template <class Json> static bool bin_roundtrip(const Json& v, int f, Json& back) {
    Bytes b;
    switch (f) { case 0: cbor::encode_cbor(v, b); back = cbor::decode_cbor<Json>(b); break; case 1: msgpack::encode_msgpack(v, b); back = msgpack::decode_msgpack<Json>(b); break;
                 case 2: ubjson::encode_ubjson(v, b); back = ubjson::decode_ubjson<Json>(b); break; default: { Json o(json_object_arg); o.try_emplace("a", v); bson::encode_bson(o, b); Json d = bson::decode_bson<Json>(b); back = d.at("a"); } }
    return true;
}
static const char* FMT[] = {"cbor", "msgpack", "ubjson", "bson"};

// ---------------------------------------------------------------- integers
static void ints(Rng& r) {
    u64 n = gen_boundary_u64(r);
    std::string pos = u128s(n);
    H.note_distinct(n); g_desc = "integer " + pos;
    {   // positive literal
        json j = json::parse(pos); H.count_("int.literal");
        if (!j.is_number() || j.is_double() || !j.is<uint64_t>() || j.as<uint64_t>() != n) H.violation("int/parse/uint64-literal-wrong", J().str("text", pos).str("got", j.to_string()).done());
        else {
            if (j.to_string() != pos) H.violation("int/print/uint64-digits-wrong", J().str("want", pos).str("got", j.to_string()).done());
            if (n <= (u64)INT64_MAX && (!j.is<int64_t>() || j.as<int64_t>() != (int64_t)n)) H.violation("int/as/int64-view-wrong", J().str("text", pos).done());
            if (j.as<double>() != (double)n) H.violation("int/as/double-view-not-correctly-rounded", J().str("text", pos).str("got", dstr(j.as<double>())).done());
        }
        json k(n); std::string s; k.dump(s); if (s != pos) H.violation("int/print/uint64-digits-wrong", J().str("want", pos).str("got", s).done());
        std::ostringstream os; os << pretty_print(json(json_array_arg, {k})); std::string p = os.str(); if (p.find(pos) == std::string::npos) H.violation("int/print/uint64-digits-wrong-pretty", J().str("want", pos).str("got", p).done());
        wjson wj = wjson::parse(std::wstring(pos.begin(), pos.end())); if (!wj.is<uint64_t>() || wj.as<uint64_t>() != n) H.violation("int/parse/uint64-literal-wrong-wchar", J().str("text", pos).done());
        std::wstring ws; wj.dump(ws); if (std::string(ws.begin(), ws.end()) != pos) H.violation("int/print/uint64-digits-wrong-wchar", J().str("want", pos).done());
    }
    if (n <= (u64)1 << 63) {   // negative literal
        std::string negt = "-" + pos; int64_t want = (int64_t)(0 - n);
        json j = json::parse(negt); H.count_("int.literal");
        if (!j.is_number() || j.is_double() || !j.is<int64_t>() || j.as<int64_t>() != want) H.violation("int/parse/int64-literal-wrong", J().str("text", negt).str("got", j.to_string()).done());
        else if (n != 0 && j.to_string() != negt) H.violation("int/print/int64-digits-wrong", J().str("want", negt).str("got", j.to_string()).done());
        json k(want); std::string s; k.dump(s); if (s != (n ? negt : "0")) H.violation("int/print/int64-digits-wrong", J().str("want", negt).str("got", s).done());
        if (n != 0 && j.is<uint64_t>()) H.violation("int/is/negative-claims-uint64", J().str("text", negt).done());
    }
    // binary formats keep the integer
    for (int f = 0; f < 4; ++f) {
        if (f == 3 && n > (u64)INT64_MAX) continue;     // BSON has no unsigned 64-bit type
        json back; bin_roundtrip(json(n), f, back); H.count_("int.binary_roundtrip");
        if (f == 2 && n > (u64)INT64_MAX) { if (!back.is_string() || back.as<std::string>() != pos) H.violation("int/binary/ubjson/uint64-changed", J().str("n", pos).str("got", describe(back)).done()); }   // UBJSON has no uint64: high-precision number
        else if (back.is_double() || !back.is<uint64_t>() || back.as<uint64_t>() != n) H.violation(std::string("int/binary/") + FMT[f] + "/uint64-changed", J().str("n", pos).str("got", back.to_string()).done());
        if (n <= (u64)1 << 63) { int64_t w = (int64_t)(0 - n); json b2; bin_roundtrip(json(w), f, b2); if (b2.is_double() || !b2.is<int64_t>() || b2.as<int64_t>() != w) H.violation(std::string("int/binary/") + FMT[f] + "/int64-changed", J().str("n", "-" + pos).str("got", b2.to_string()).done()); }
    }
    // fixed-width conversions around every type's limits
    {
        static const i128 lim[] = {INT8_MIN, INT8_MAX, UINT8_MAX, INT16_MIN, INT16_MAX, UINT16_MAX, INT32_MIN, INT32_MAX, UINT32_MAX, INT64_MIN, INT64_MAX, (i128)UINT64_MAX, 0};
        i128 t = r.coin() ? r.pick(lim) + r.range(-3, 3) : (r.coin() ? (i128)n : -(i128)n);
        std::string text = i128s(t);
        check_dec_to_integer<int8_t>(text, t, true, "int8"); check_dec_to_integer<uint8_t>(text, t, true, "uint8"); check_dec_to_integer<int16_t>(text, t, true, "int16"); check_dec_to_integer<uint16_t>(text, t, true, "uint16");
        check_dec_to_integer<int32_t>(text, t, true, "int32"); check_dec_to_integer<uint32_t>(text, t, true, "uint32"); check_dec_to_integer<int64_t>(text, t, true, "int64"); check_dec_to_integer<uint64_t>(text, t, true, "uint64");
        check_from_integer<int64_t>((int64_t)(u64)t, "int64"); check_from_integer<uint64_t>((u64)t, "uint64"); check_from_integer<int32_t>((int32_t)(u64)t, "int32"); check_from_integer<uint32_t>((uint32_t)(u64)t, "uint32");
        check_from_integer<int16_t>((int16_t)(u64)t, "int16"); check_from_integer<uint8_t>((uint8_t)(u64)t, "uint8"); check_from_integer<int8_t>((int8_t)(u64)t, "int8");
        // digit strings far beyond 128 bits are out of range for every type
        if (r.chance(1, 4)) { std::string big = (r.coin() ? "-" : "") + gen_digits(r, 20 + r.below(60)); Big bb = Big::from_dec(big); bool fits = bb.m.size() <= 2;
            if (!fits) { check_dec_to_integer<int64_t>(big, 0, false, "int64"); check_dec_to_integer<uint64_t>(big, 0, false, "uint64"); check_dec_to_integer<int32_t>(big, 0, false, "int32"); check_dec_to_integer<uint8_t>(big, 0, false, "uint8"); } }
    }
}

// ---------------------------------------------------------------- literals outside the native ranges
static void bigliterals(Rng& r) {
    Big b;
    switch (r.below(4)) {
    case 0: b = Big::add(Big::shl(Big::from_u64(1), 64), Big::from_u64(r.below(40))); break;                         // 2^64 + d
    case 1: b = Big::negate(Big::add(Big::shl(Big::from_u64(1), 63), Big::from_u64(1 + r.below(40)))); break;          // -(2^63 + 1 + d)
    case 2: b = Big::from_dec((r.coin() ? "-" : "") + gen_digits(r, 20 + (size_t)r.below(r.chance(1, 5) ? 600 : 40))); break;
    default: b = gen_big(r, 40); break;
    }
    bool native = b.neg ? Big::cmp(b, Big::negate(Big::shl(Big::from_u64(1), 63))) >= 0 : b.m.size() <= 2;
    if (native) { H.count_("bigliteral.skipped_native_range"); return; }
    std::string text = b.dec();
    H.note_distinct(hash_str(text)); H.count_("bigliteral.lossless_on"); g_desc = "big literal " + text.substr(0, 80);
    {   // lossless (default): digits are kept
        json j = json::parse(text);
        if (!j.is_string() || j.tag() != semantic_tag::bigint || j.as<std::string>() != text) H.violation("bigliteral/lossless-on/not-kept-digit-for-digit", J().str("text", text).str("got", describe(j)).done());
        else {
            std::string s; j.dump(s); if (s != text) H.violation("bigliteral/lossless-on/printed-differently", J().str("text", text).str("got", s).done());
            bigint v = j.as<bigint>(); if (v.to_string() != text) H.violation("bigliteral/lossless-on/as-bigint-differs", J().str("text", text).str("got", v.to_string()).done());
            for (int f = 0; f < 3; ++f) { json back; bin_roundtrip(j, f, back); H.count_("bigliteral.binary_roundtrip");
                // UBJSON keeps it as a high-precision number, MessagePack as a string; CBOR as a tagged bignum
                if (!back.is_string() || back.as<std::string>() != text) H.violation(std::string("bigliteral/binary/") + FMT[f] + "/digits-changed", J().str("text", text).str("got", describe(back)).done()); }
        }
        ojson in_array = ojson::parse("[" + text + ",1]"); if (in_array[0].as<std::string>() != text || in_array[0].tag() != semantic_tag::bigint) H.violation("bigliteral/lossless-on/not-kept-digit-for-digit", J().str("text", text).done());
    }
    {   // lossless off: correctly rounded double
        bool rerr; double want = c_strtod(text, &rerr);
        json_options o; o.lossless_bignum(false);
        json j = json::parse(text, o);
        if (std::isfinite(want)) { H.count_("bigliteral.lossless_off");
            if (!j.is_double() || double_to_bits(j.as<double>()) != double_to_bits(want)) H.violation("bigliteral/lossless-off/not-correctly-rounded", J().str("text", text).str("want", dstr(want)).str("got", describe(j)).done()); }
        else H.count_("bigliteral.lossless_off.beyond_double_range_not_judged");
    }
}

// ---------------------------------------------------------------- doubles
static double gen_hard_double_raw(Rng& r) {
    switch (r.below(10)) {
    case 0: { u64 b = r.next(); if (((b >> 52) & 0x7ff) == 0x7ff) b &= ~((u64)1 << 62); return bits_to_double(b); }
    case 1: return bits_to_double((r.next() & 0x800fffffffffffffULL) >> (r.coin() ? 0 : r.below(52)) | (r.coin() ? (u64)1 << 63 : 0));           // subnormals
    case 2: { double d = std::ldexp(1.0, (int)r.range(-1074, 1023)); u64 b = double_to_bits(d) + (u64)r.range(-2, 2); return bits_to_double(b & 0x7fffffffffffffffULL); }
    case 3: { char t[32]; snprintf(t, sizeof t, "1e%d", (int)r.range(-323, 308)); double d = strtod(t, nullptr); u64 b = double_to_bits(d) + (u64)r.range(-2, 2); return bits_to_double(b & 0x7fffffffffffffffULL); }
    case 4: return (double)(((u64)1 << 53) + (u64)r.range(-40, 40)) * (r.coin() ? 1.0 : -1.0);
    case 5: { u64 m = r.below(r.coin() ? 100000 : 100000000000000000ULL); int k = (int)r.below(25); char t[64]; snprintf(t, sizeof t, "%llue-%d", (unsigned long long)m, k); return strtod(t, nullptr); }   // short decimals
    case 6: return r.coin() ? DBL_MAX : (r.coin() ? DBL_MIN : 4.9406564584124654e-324);
    case 7: return (double)(float)bits_to_double(r.next() & 0x7fefffffffffffffULL);
    case 8: return (double)(int64_t)r.next() / (double)(1 << r.below(20));
    default: return gen_double_finite(r);
    }
}

static double gen_hard_double(Rng& r) { double d = gen_hard_double_raw(r); return std::isfinite(d) ? d : DBL_MAX; }

static void check_printed(double d, const std::string& s, const char* route, bool digits17 = true) {
    if (!is_json_number(s)) { H.violation(std::string("double/print/") + route + "/not-a-json-number", J().str("bits", bitsx(d)).str("text", s).done()); return; }
    if (digits17 && sig_digits(s) > 17) H.violation(std::string("double/print/") + route + "/more-than-17-significant-digits", J().str("bits", bitsx(d)).str("text", s).done());
    double back = c_strtod(s);
    if (d == 0 && back == 0) { if (std::signbit(d) != std::signbit(back)) H.count_("observed.negative_zero_printed_without_sign"); return; }
    if (double_to_bits(back) != double_to_bits(d)) H.violation(std::string("double/print/") + route + "/does-not-parse-back", J().str("bits", bitsx(d)).str("value", dstr(d)).str("text", s).done());
}

static void doubles_one(double d, Rng& r, bool light) {
    std::string s; json(d).dump(s); H.count_("double.printed");
    check_printed(d, s, "default");
    {   // the library's own parser reads it back
        json j = json::parse(s);
        if (!j.is_double() || (double_to_bits(j.as<double>()) != double_to_bits(d) && !(d == 0 && j.as<double>() == 0))) H.violation("double/reparse/own-output-reads-back-differently", J().str("bits", bitsx(d)).str("text", s).str("got", describe(j)).done());
    }
    if (light) return;
    { std::ostringstream os; os << pretty_print(json(json_array_arg, {json(d)})); std::string p = os.str(); size_t a = p.find_first_of("-0123456789"); size_t b = p.find_last_of("0123456789"); if (a == std::string::npos || p.substr(a, b - a + 1) != s) H.violation("double/print/pretty-differs-from-compact", J().str("compact", s).str("pretty", p).done()); }
    { std::wstring ws; wjson(d).dump(ws); std::string n(ws.begin(), ws.end()); check_printed(d, n, "wchar"); wjson wj = wjson::parse(ws); if (!wj.is_double() || (double_to_bits(wj.as<double>()) != double_to_bits(d) && !(d == 0 && wj.as<double>() == 0))) H.violation("double/reparse/own-output-reads-back-differently-wchar", J().str("bits", bitsx(d)).str("text", n).done()); }
    // round-trip formats without a precision: still the shortest-or-17 discipline
    { json_options o; o.float_format(float_chars_format::scientific); std::string t; json(d).dump(t, o); H.count_("double.printed.scientific"); check_printed(d, t, "scientific", false); }
    { json_options o; o.float_format(float_chars_format::fixed); std::string t; json(d).dump(t, o); H.count_("double.printed.fixed"); check_printed(d, t, "fixed", false); }
    // explicit precision: the value printed is the decimal rounding printf gives
    { static const float_chars_format ff[] = {float_chars_format::general, float_chars_format::fixed, float_chars_format::scientific}; static const char* conv[] = {"g", "f", "e"};
      int fi = (int)r.below(3); int p = 1 + (int)r.below(r.chance(1, 6) ? 120 : 20);
      json_options o; o.float_format(ff[fi]).precision((int8_t)p); std::string t; json(d).dump(t, o); H.count_("double.printed.precision");
      char fmt[16]; snprintf(fmt, sizeof fmt, "%%.%d%s", p, conv[fi]); char buf[600]; snprintf(buf, sizeof buf, fmt, d);
      if (!is_json_number(t)) H.violation(std::string("double/print/precision-") + conv[fi] + "/not-a-json-number", J().str("bits", bitsx(d)).num("precision", p).str("text", t).done());
      else if (double_to_bits(c_strtod(t)) != double_to_bits(c_strtod(buf))) H.violation(std::string("double/print/precision-") + conv[fi] + "/value-differs-from-decimal-rounding", J().str("bits", bitsx(d)).num("precision", p).str("text", t).str("want", buf).done());
    }
    // binary formats keep the bits
    for (int f = 0; f < 4; ++f) { json back; bin_roundtrip(json(d), f, back); H.count_("double.binary_roundtrip"); if (!back.is_double() || double_to_bits(back.as<double>()) != double_to_bits(d)) H.violation(std::string("double/binary/") + FMT[f] + "/bits-changed", J().str("bits", bitsx(d)).str("got", describe(back)).done()); }
}
static void doubles(Rng& r) { double d = gen_hard_double(r); H.note_distinct(double_to_bits(d)); g_desc = "double " + bitsx(d) + " " + dstr(d); doubles_one(d, r, false); }

// ---------------------------------------------------------------- decimal literals -> correctly rounded double
// exact decimal expansion of m * 2^e (m odd or even, e any) as digits and decimal exponent: value = digits * 10^dexp
static void exact_decimal(u64 m, int e, std::string& digits, int& dexp) {
    Big b = Big::from_u64(m);
    if (e >= 0) { b = Big::shl(b, (unsigned)e); dexp = 0; }
    else { Big p = Big::pow_small(5, (unsigned)-e); b = Big::mul(b, p); dexp = e; }
    digits = b.dec();
}
static std::string place_point(const std::string& digits, int dexp, Rng& r) {
    // render digits*10^dexp either with an exponent or positionally
    if (r.coin() || dexp > 0) { std::string s = digits; if (s.size() > 1 && r.coin()) s.insert(1, "."), dexp += (int)digits.size() - 1; if (dexp != 0 || r.coin()) s += (r.coin() ? "e" : "E") + std::string(dexp >= 0 && r.coin() ? "+" : "") + std::to_string(dexp); return s; }
    int point = (int)digits.size() + dexp;     // position of the decimal point
    if (point <= 0) return "0." + std::string((size_t)-point, '0') + digits;
    if ((size_t)point >= digits.size()) return digits + std::string((size_t)point - digits.size(), '0');
    return digits.substr(0, (size_t)point) + "." + digits.substr((size_t)point);
}
static std::string gen_literal(Rng& r, std::string& kind) {
    switch (r.below(6)) {
    case 0: { kind = "random"; std::string s = gen_digits(r, 1 + r.below(r.chance(1, 6) ? 400 : 25)); if (r.coin()) { size_t p = r.below(s.size()) + 1; if (p < s.size()) s.insert(p, "."); } if (s.size() > 1 && s[0] == '0' && s[1] != '.') s = "0." + s; if (r.coin()) s += "e" + std::to_string(r.range(-340, 320)); return s; }
    case 1: case 2: case 3: {   // halfway between two adjacent doubles, and just above/below it
        double d = std::fabs(gen_hard_double(r)); if (d == DBL_MAX) d = 1.0;
        u64 bits = double_to_bits(d); u64 frac = bits & 0xfffffffffffffULL; int ex = (int)(bits >> 52);
        u64 m = ex ? frac | ((u64)1 << 52) : frac; int e = ex ? ex - 1075 : -1074;
        std::string digits; int dexp; exact_decimal(2 * m + 1, e - 1, digits, dexp);        // (2m+1) * 2^(e-1)
        int v = (int)r.below(3);
        if (v == 0) kind = "midpoint";
        else if (v == 1) { kind = "above-midpoint"; size_t k = r.below(30); digits += std::string(k, '0') + "1"; dexp -= (int)k + 1; }
        else { kind = "below-midpoint"; Big b = Big::from_dec(digits); b.mul_small(1000); b = Big::sub(b, Big::from_u64(1)); digits = b.dec(); dexp -= 3; }
        return place_point(digits, dexp, r);
    }
    case 4: { kind = "exact-double"; double d = std::fabs(gen_hard_double(r)); u64 bits = double_to_bits(d); u64 frac = bits & 0xfffffffffffffULL; int ex = (int)(bits >> 52); u64 m = ex ? frac | ((u64)1 << 52) : frac; int e = ex ? ex - 1075 : -1074; if (m == 0) return "0.0"; std::string digits; int dexp; exact_decimal(m, e, digits, dexp); return place_point(digits, dexp, r); }
    default: { kind = "range-edge"; static const char* c[] = {"1.7976931348623157e308", "1.7976931348623158e308", "1.79769313486231580793728971405301e308", "1.797693134862315807e308", "2.2250738585072014e-308", "2.2250738585072011e-308", "2.2250738585072012e-308", "4.9406564584124654e-324", "4.9e-324", "2.4703282292062328e-324", "2.4703282292062327e-324", "2.4703282292062329e-324", "1e-323", "8.5e-324", "3e-324", "2e-324", "0.000001e-318", "123456789012345678901234567890e-340", "9007199254740993.0", "9007199254740992.5", "9007199254740993.00000000000000000000000001", "0.1", "0.3", "5e-1", "1e23", "8.41e21", "9.5e-1", "1e0", "0e999999", "0.0e-999999", "1e-400", "1e400", "123e-500", "0." "00000000000000000000000000000000000000000000000000000000000000000001e+60"}; return r.pick(c); }
    }
}
static void dec_literals(Rng& r) {
    std::string kind; std::string text = gen_literal(r, kind); if (r.coin()) text = "-" + text;
    if (!is_json_number(text)) { H.count_("literal.generator_rejected"); return; }
    bool has_frac = text.find_first_of(".eE") != std::string::npos;
    bool rerr; double want = c_strtod(text, &rerr);
    bool all_zero = text.find_first_of("123456789") == std::string::npos || text.find_first_of("123456789") > text.find_first_of("eE");
    H.note_distinct(hash_str(text)); g_desc = "literal (" + kind + ") " + text.substr(0, 80);
    auto judge_one = [&](const char* cfg, bool parsed, const std::string& what, bool is_double, double dv, bool is_bigdec_text_kept, const std::string& got, bool lossless_bignum) {
        if (!parsed) { H.violation(std::string("literal/") + cfg + "/valid-number-rejected", J().str("text", text).str("what", what).done()); return; }
        if (!has_frac) return;   // integer literals are judged by ints/bigliterals
        if (std::isfinite(want) && (want != 0 || all_zero)) {
            H.count_(std::string("literal.judged.") + kind); if (rerr) H.count_("literal.judged.subnormal");
            if (!is_double || double_to_bits(dv) != double_to_bits(want)) H.violation(std::string("literal/") + cfg + "/" + (rerr ? "subnormal-" : "") + "not-the-correctly-rounded-double", J().str("text", text).str("kind", kind).str("want", dstr(want)).str("want_bits", bitsx(want)).str("got", got).done());
        } else if (std::isfinite(want)) {     // underflows to zero: zero or the digits kept as big decimal are both faithful; anything else replaces the value
            H.count_("literal.underflow");
            bool zero = is_double && dv == 0;
            if (!(zero || (lossless_bignum && is_bigdec_text_kept))) H.violation(std::string("literal/") + cfg + "/underflowing-literal-replaced", J().str("text", text).str("got", got).done());
        } else {                               // beyond the double range: digits kept when lossless; otherwise anything but a finite double
            H.count_("literal.overflow");
            if (lossless_bignum) { if (!is_bigdec_text_kept) H.violation(std::string("literal/") + cfg + "/overflowing-literal-not-kept", J().str("text", text).str("got", got).done()); }
            else if (is_double && std::isfinite(dv)) H.violation(std::string("literal/") + cfg + "/overflowing-literal-replaced-by-finite-double", J().str("text", text).str("got", got).done());
        }
    };
    auto judge = [&](const char* cfg, const json_options& o, bool lossless_bignum) {
        json j; try { j = json::parse(text, o); } catch (const std::exception& e) { judge_one(cfg, false, e.what(), false, 0, false, "", lossless_bignum); return; }
        judge_one(cfg, true, "", j.is_double(), j.is_double() ? j.as<double>() : 0, j.is_string() && j.tag() == semantic_tag::bigdec && j.as<std::string>() == text, describe(j), lossless_bignum);
    };
    auto wjudge = [&](const char* cfg, const wjson_options& o, bool lossless_bignum) {
        if (text.size() > 300) return;
        std::wstring wt(text.begin(), text.end());
        wjson j; try { j = wjson::parse(wt, o); } catch (const std::exception& e) { judge_one(cfg, false, e.what(), false, 0, false, "", lossless_bignum); return; }
        judge_one(cfg, true, "", j.is_double(), j.is_double() ? j.as<double>() : 0, j.is_string() && j.tag() == semantic_tag::bigdec && j.as<std::wstring>() == wt, j.is_double() ? dstr(j.as<double>()) : "(not a double)", lossless_bignum);
    };
    judge("default", json_options(), true);
    { json_options o; o.lossless_bignum(false); judge("lossless-bignum-off", o, false); }
    wjudge("wchar", wjson_options(), true);
    { wjson_options o; o.lossless_bignum(false); wjudge("wchar-lossless-bignum-off", o, false); }
    if (has_frac) { json_options o; o.lossless_number(true); json j = json::parse(text, o); H.count_("literal.lossless_number");
        if (!j.is_string() || j.tag() != semantic_tag::bigdec || j.as<std::string>() != text) H.violation("literal/lossless-number/not-kept-digit-for-digit", J().str("text", text).str("got", describe(j)).done());
        else { std::string s; j.dump(s); if (s != text) H.violation("literal/lossless-number/printed-differently", J().str("text", text).str("got", s).done()); } }
    // the low-level entry used by every text format
    if (has_frac && std::isfinite(want) && !rerr) { double v = 0; auto res = jsoncons::decstr_to_double(text.data(), text.size(), v); H.count_("literal.decstr_to_double"); if (!res || double_to_bits(v) != double_to_bits(want)) H.violation("literal/decstr_to_double/not-the-correctly-rounded-double", J().str("text", text).str("want", dstr(want)).str("got", dstr(v)).done()); }
}

// ---------------------------------------------------------------- arbitrary-precision integer
static std::string bs(const bigint& b) { return b.to_string(); }
static void bigints(Rng& r) {
    unsigned maxl = r.chance(1, 8) ? 130 : 12;
    Big A = gen_big(r, maxl), B = gen_big(r, r.coin() ? maxl : 3);
    std::string as = A.dec(), bsx = B.dec();
    H.note_distinct(hash_str(as + "|" + bsx)); g_desc = "bigint a=" + as.substr(0, 60) + " b=" + bsx.substr(0, 40);
    bigint a(as.c_str()), b(bsx.c_str());
    auto expect = [&](const char* op, const bigint& got, const Big& want) {
        H.count_(std::string("bigint.") + op);
        std::string g = got.to_string(), w = want.dec();
        if (g != w) { H.violation(std::string("bigint/") + op + "/wrong-result", J().str("a", as).str("b", bsx).str("want", w).str("got", g).done()); return; }
        bigint ref(w.c_str()); if (!(got == ref) || got != ref || got < ref || got > ref) H.violation(std::string("bigint/") + op + "/result-not-equal-to-same-value", J().str("a", as).str("b", bsx).str("value", w).done());
    };
    // decimal
    H.count_("bigint.decimal"); if (a.to_string() != as) H.violation("bigint/decimal/round-trip", J().str("text", as).str("got", a.to_string()).done());
    { std::string s; a.write_string(s); if (s != as) H.violation("bigint/decimal/write_string", J().str("text", as).str("got", s).done()); }
    { bigint v; auto res = to_bigint(as.data(), as.size(), v); if (!res || v.to_string() != as) H.violation("bigint/decimal/to_bigint", J().str("text", as).done()); }
    // hex
    { H.count_("bigint.hex"); std::string hx = a.to_string_hex(); std::string wl = A.hexs(false), wu = A.hexs(true); if (hx != wl && hx != wu) H.violation("bigint/hex/to_string_hex", J().str("a", as).str("want", wu).str("got", hx).done());
      std::string src = r.coin() ? wl : wu; bigint v = bigint::parse_radix(src.data(), src.size(), 16); if (v.to_string() != as) H.violation("bigint/hex/parse_radix16", J().str("hex", src).str("want", as).str("got", v.to_string()).done()); }
    // bytes
    { H.count_("bigint.bytes"); Bytes wb = A.bytes_be(); int sg = 7; Bytes out; a.write_bytes_be(sg, out); Bytes o2 = out; size_t p = 0; while (p < o2.size() && o2[p] == 0) ++p; o2.erase(o2.begin(), o2.begin() + (long)p);
      int wsg = A.zero() ? 0 : (A.neg ? -1 : 1);
      if (o2 != wb || sg != wsg) H.violation("bigint/bytes/write_bytes_be", J().str("a", as).str("want", hex(wb)).str("got", hex(out)).num("signum", sg).done());
      Bytes in = wb; size_t lead = r.below(3); in.insert(in.begin(), lead, 0); bigint v = bigint::from_bytes_be(A.neg ? -1 : 1, in.data(), in.size()); if (v.to_string() != as) H.violation("bigint/bytes/from_bytes_be", J().str("bytes", hex(in)).str("want", as).str("got", v.to_string()).done()); }
    // comparison
    { H.count_("bigint.compare"); int c = Big::cmp(A, B); bool ok = (a < b) == (c < 0) && (a > b) == (c > 0) && (a == b) == (c == 0) && (a != b) == (c != 0) && (a <= b) == (c <= 0) && (a >= b) == (c >= 0) && (b < a) == (c > 0);
      if (!ok) H.violation("bigint/compare/disagrees-with-true-order", J().str("a", as).str("b", bsx).num("true_cmp", c).done());
      bigint a2(as.c_str()); if (!(a == a2) || a < a2 || a > a2) H.violation("bigint/compare/not-reflexive", J().str("a", as).done()); }
    // + - *
    expect("add", a + b, Big::add(A, B)); expect("sub", a - b, Big::sub(A, B)); expect("mul", a * b, Big::mul(A, B));
    { bigint t = a; t += b; expect("add-assign", t, Big::add(A, B)); t = a; t -= b; expect("sub-assign", t, Big::sub(A, B)); t = a; t *= b; expect("mul-assign", t, Big::mul(A, B)); t = a; t += t; expect("add-self", t, Big::add(A, A)); t = a; t *= t; expect("mul-self", t, Big::mul(A, A)); t = a; t -= t; expect("sub-self", t, Big()); }
    expect("negate", -a, Big::negate(A));
    { int64_t k = (int64_t)gen_i64(r); Big K = Big::from_u64(k < 0 ? (u64)0 - (u64)k : (u64)k, k < 0); expect("add-int64", a + k, Big::add(A, K)); expect("sub-int64", a - k, Big::sub(A, K)); expect("mul-int64", a * k, Big::mul(A, K)); }
    // / % : q*b + r == a, |r| < |b|, r has the sign of a (truncating division, as the built-in integer types)
    if (!B.zero()) {
        H.count_("bigint.divmod"); bigint q = a / b, m = a % b;
        Big Q = Big::from_dec(q.to_string()), R = Big::from_dec(m.to_string());
        Big back = Big::add(Big::mul(Q, B), R);
        bool ok = Big::cmp(back, A) == 0 && Big::cmpmag(R, B) < 0 && (R.zero() || R.neg == A.neg);
        if (!ok) H.violation("bigint/divmod/law-violated", J().str("a", as).str("b", bsx).str("q", q.to_string()).str("r", m.to_string()).done());
        bigint t = a; t /= b; if (t.to_string() != q.to_string()) H.violation("bigint/divmod/div-assign-differs", J().str("a", as).str("b", bsx).done());
        t = a; t %= b; if (t.to_string() != m.to_string()) H.violation("bigint/divmod/mod-assign-differs", J().str("a", as).str("b", bsx).done());
        // (a*b)/b == a
        bigint p = a * b; bigint q2 = p / b; if (q2.to_string() != as) H.violation("bigint/divmod/product-divided-by-factor", J().str("a", as).str("b", bsx).str("got", q2.to_string()).done());
        if (!((p % b) == 0)) H.violation("bigint/divmod/product-mod-factor-nonzero", J().str("a", as).str("b", bsx).done());
    }
    // native range agrees with the built-in operators
    { i128 x = (i128)(int64_t)gen_i64(r), y = (i128)(int64_t)gen_i64(r); if (r.coin()) y = r.range(-1000, 1000);
      bigint bx((int64_t)x), by((int64_t)y); H.count_("bigint.native_cross_check");
      auto chk = [&](const char* op, const bigint& got, i128 want) { if (got.to_string() != i128s(want)) H.violation(std::string("bigint/native/") + op, J().str("x", i128s(x)).str("y", i128s(y)).str("want", i128s(want)).str("got", got.to_string()).done()); };
      chk("add", bx + by, x + y); chk("sub", bx - by, x - y); chk("mul", bx * by, x * y); if (y != 0) { chk("div", bx / by, x / y); chk("mod", bx % by, x % y); }
      if ((int64_t)bx != (int64_t)x) H.violation("bigint/native/to-int64", J().str("x", i128s(x)).done());
      u64 ux = r.next(); bigint bu(ux); if (bu.to_string() != u128s(ux) || (uint64_t)bu != ux) H.violation("bigint/native/from-uint64", J().str("x", u128s(ux)).done()); }
    // shifts
    { unsigned k = (unsigned)(r.chance(1, 3) ? 64 * r.below(5) : r.below(300)); expect("shl", a << k, Big::shl(A, k)); { bigint t = a; t <<= k; expect("shl-assign", t, Big::shl(A, k)); }
      H.count_("bigint.shr"); bigint s = a >> k; Big trunc = Big::shr_mag(A, k); Big fl = trunc; if (A.neg) { Big chk = Big::shl(trunc, k); if (Big::cmp(chk, A) != 0) fl = Big::sub(trunc, Big::from_u64(1)); }
      std::string g = s.to_string(); if (g != trunc.dec() && g != fl.dec()) H.violation(A.neg ? "bigint/shr/negative-wrong-result" : "bigint/shr/wrong-result", J().str("a", as).num("k", k).str("want", fl.dec()).str("got", g).done());
      bigint zero(0); if (g == "0" && !(s == zero)) H.violation("bigint/shr/zero-result-not-equal-to-zero", J().str("a", as).num("k", k).done());
      bigint u = (a << k) >> k; if (u.to_string() != as) H.violation("bigint/shr/shl-then-shr-not-identity", J().str("a", as).num("k", k).str("got", u.to_string()).done()); }
    // through a json value and CBOR bignum bytes (RFC 8949 3.4.3: tag 2 = n, tag 3 = -1 - n)
    { H.count_("bigint.json_and_cbor"); json j(a); std::string s; j.dump(s); bool native = A.m.size() <= 2 && (!A.neg || Big::cmp(A, Big::negate(Big::shl(Big::from_u64(1), 63))) >= 0);
      if (s != as && s != "\"" + as + "\"") H.violation("bigint/json/printed-digits-differ", J().str("a", as).str("got", s).done());
      if (!native) { Bytes cb; cbor::encode_cbor(j, cb); Big mag = A; mag.neg = false; if (A.neg) mag = Big::sub(mag, Big::from_u64(1)); Bytes wb = mag.bytes_be();
        Bytes want; want.push_back(A.neg ? 0xc3 : 0xc2); size_t n = wb.size(); if (n < 24) want.push_back((uint8_t)(0x40 | n)); else if (n < 256) { want.push_back(0x58); want.push_back((uint8_t)n); } else { want.push_back(0x59); want.push_back((uint8_t)(n >> 8)); want.push_back((uint8_t)n); }
        want.insert(want.end(), wb.begin(), wb.end());
        if (cb != want) H.violation("bigint/cbor/bignum-bytes-differ", J().str("a", as).str("want", hex(want)).str("got", hex(cb)).done());
        json back = cbor::decode_cbor<json>(want); if (!back.is_string() || back.as<std::string>() != as || back.tag() != semantic_tag::bigint) H.violation("bigint/cbor/decoded-digits-differ", J().str("a", as).str("got", describe(back)).done()); } }
}

// ---------------------------------------------------------------- float16 / float32 exhaustive
static double half_ref(uint16_t h) { int s = h >> 15, e = (h >> 10) & 31, f = h & 1023; double v = e == 0 ? std::ldexp((double)f, -24) : e == 31 ? (f ? NAN : INFINITY) : std::ldexp((double)(f + 1024), e - 25); return s ? -v : v; }
static void f16_all() {
    Rng r(1);
    for (unsigned h = 0; h < 65536; ++h) {
        double want = half_ref((uint16_t)h); ++H.distinct_counted; H.count_("f16.values");
        json j(half_arg, (uint16_t)h);
        double got = j.as<double>();
        if (std::isnan(want) ? !std::isnan(got) : double_to_bits(got) != double_to_bits(want)) { H.violation("f16/as-double/wrong-value", J().num("half", h).str("want", dstr(want)).str("got", dstr(got)).done()); continue; }
        Bytes in = {0xf9, (uint8_t)(h >> 8), (uint8_t)h}; json d = cbor::decode_cbor<json>(in); double dv = d.as<double>();
        if (std::isnan(want) ? !std::isnan(dv) : double_to_bits(dv) != double_to_bits(want)) H.violation("f16/cbor-decode/wrong-value", J().num("half", h).str("want", dstr(want)).str("got", dstr(dv)).done());
        Bytes out; cbor::encode_cbor(j, out); json d2 = cbor::decode_cbor<json>(out); double dv2 = d2.as<double>();
        if (std::isnan(want) ? !std::isnan(dv2) : double_to_bits(dv2) != double_to_bits(want)) H.violation("f16/cbor-encode/value-changed", J().num("half", h).str("bytes", hex(out)).done());
        if (std::isfinite(want)) { std::string s; j.dump(s); check_printed(want, s, "half"); doubles_one(want, r, true); }
    }
}
static void f32_block(u64 block, u64 stride) {
    Rng r(1);
    for (u64 i = 0; i < 65536; i += stride) {
        uint32_t bits = (uint32_t)(block * 65536 + i); float f; memcpy(&f, &bits, 4);
        if (!std::isfinite(f)) { H.count_("f32.nonfinite_skipped"); continue; }
        double d = (double)f; ++H.distinct_counted; H.count_("f32.values");
        doubles_one(d, r, true);
        json j(f); if (double_to_bits(j.as<double>()) != double_to_bits(d)) H.violation("f32/construct/value-changed", J().unum("bits", bits).done());
        if ((i & 15) == 0) { Bytes out; cbor::encode_cbor(j, out); json back = cbor::decode_cbor<json>(out); if (!back.is_double() || double_to_bits(back.as<double>()) != double_to_bits(d)) H.violation("f32/cbor/value-changed", J().unum("bits", bits).str("bytes", hex(out)).done());
            if (out.size() != 5 && out.size() != 3) H.count_("f32.cbor_not_shrunk"); }
    }
}

int main(int argc, char** argv) {
    H.parse(argc, argv);
    std::string mode = H.opt("mode", "gen");
    if (mode == "f16") return H.run([&](long long c) { if (c == 0) { f16_all(); H.sample(J().str("case", "all 65536 half-precision bit patterns").done()); } });
    if (mode == "f32") { bool exhaustive = H.opt_int("exhaustive", 0) != 0; u64 stride = (u64)H.opt_int("stride", 1);
        return H.run([&](long long c) { Rng r = H.case_rng(c); u64 block = exhaustive ? (u64)c : r.below(65536); set_flight_desc("f32 block " + std::to_string(block)); f32_block(block, stride); if (H.sample_seen < 6) H.sample(J().str("case", "float32 bit patterns of block " + std::to_string(block)).done()); else ++H.sample_seen; }); }
    auto body = [&](long long c) {
        Rng r = H.case_rng(c);
        switch (c % 5) {
        case 0: set_flight_desc("ints"); ints(r); break;
        case 1: set_flight_desc("bigliterals"); bigliterals(r); break;
        case 2: set_flight_desc("doubles"); doubles(r); break;
        case 3: set_flight_desc("literals"); dec_literals(r); break;
        default: set_flight_desc("bigints"); bigints(r); break;
        }
        if (H.sample_seen < 10 || r.chance(1, 20000)) H.sample(J().str("case", g_desc).done()); else ++H.sample_seen;
    };
    return H.run(body);
}
