// C20: immutable artifacts are safe to share across threads.
// Built with -fsanitize=thread. An episode shares compiled JSON Schemas, JSONPath and JMESPath expressions and
// const json/ojson documents between N threads released together (spin barrier + random start skew); every thread
// performs a seeded mix of read-only operations and compares each result with the result computed single-threaded
// before the threads started. ThreadSanitizer reports are collected from its log by the Python stage.
#include "common/jvalue.hpp"
#include <jsoncons/json.hpp>
#include <jsoncons_ext/jsonschema/jsonschema.hpp>
#include <jsoncons_ext/jsonpath/jsonpath.hpp>
#include <jsoncons_ext/jmespath/jmespath.hpp>
#include <jsoncons_ext/jsonpointer/jsonpointer.hpp>
#include <jsoncons_ext/cbor/cbor.hpp>
#include <thread>
#include <atomic>
#include <chrono>

using namespace vf;
using namespace jsoncons;
static Harness H;

static const char* SCHEMAS[] = {
    R"({"$schema":"https://json-schema.org/draft/2020-12/schema","type":"object","properties":{"id":{"type":"integer","minimum":0},"name":{"type":"string","pattern":"^[a-z]+$","maxLength":8},"tags":{"type":"array","items":{"$ref":"#/$defs/tag"},"uniqueItems":true,"maxItems":4}},"required":["id"],"$defs":{"tag":{"type":"string","minLength":1}},"unevaluatedProperties":false})",
    R"({"$schema":"https://json-schema.org/draft/2019-09/schema","anyOf":[{"type":"array","items":{"type":"number","multipleOf":0.5},"contains":{"const":1}},{"type":"object","propertyNames":{"maxLength":3},"dependentRequired":{"a":["b"]}}],"unevaluatedItems":false})",
    R"({"$schema":"http://json-schema.org/draft-07/schema#","type":"object","properties":{"email":{"type":"string","format":"email"},"when":{"type":"string","format":"date-time"},"ip":{"format":"ipv4"}},"if":{"required":["email"]},"then":{"required":["when"]},"else":{"maxProperties":2},"additionalProperties":{"type":["integer","null"]}})",
    R"({"$schema":"http://json-schema.org/draft-04/schema#","oneOf":[{"type":"integer","minimum":5,"exclusiveMinimum":true},{"type":"string","enum":["a","b"]},{"type":"array","items":[{"type":"boolean"}],"additionalItems":false}]})",
    R"({"$schema":"http://json-schema.org/draft-06/schema#","definitions":{"node":{"type":"object","properties":{"v":{"type":"integer"},"next":{"$ref":"#/definitions/node"}},"required":["v"],"additionalProperties":false}},"$ref":"#/definitions/node"})",
    R"({"$schema":"https://json-schema.org/draft/2020-12/schema","$id":"https://example.com/root","$defs":{"pos":{"$anchor":"pos","type":"integer","exclusiveMinimum":0}},"type":"array","prefixItems":[{"$ref":"#pos"},{"type":"string"}],"items":{"not":{"type":"null"}},"minContains":1,"contains":{"type":"string"}})",
};
static const char* INSTANCES[] = {
    R"({"id":1,"name":"abc","tags":["x","y"]})", R"({"id":-1,"name":"ABC","tags":["x","x"],"extra":true})", R"([1,0.5,2.5])", R"([1,0.3])", R"({"a":1,"b":2})", R"({"a":1,"long":2})",
    R"({"email":"a@b.org","when":"2020-01-01T00:00:00Z"})", R"({"email":"not an email","ip":"1.2.3.400","x":1.5})", R"(7)", R"(5)", R"("a")", R"([true])", R"([true,false])",
    R"({"v":1,"next":{"v":2,"next":{"v":3}}})", R"({"v":1,"next":{"v":"2"}})", R"([3,"s",1,2])", R"([0,"s",null])", R"(null)", R"("zzz")",
};
static const char* DOCS[] = {
    R"({"store":{"book":[{"category":"reference","author":"Nigel Rees","title":"Sayings of the Century","price":8.95},{"category":"fiction","author":"Evelyn Waugh","title":"Sword of Honour","price":12.99},{"category":"fiction","author":"Herman Melville","title":"Moby Dick","isbn":"0-553-21311-3","price":8.99},{"category":"fiction","author":"J. R. R. Tolkien","title":"The Lord of the Rings","isbn":"0-395-19395-8","price":22.99}],"bicycle":{"color":"red","price":19.95}},"expensive":10})",
    R"({"people":[{"name":"a","age":30,"tags":["x","y"]},{"name":"b","age":25,"tags":[]},{"name":"c","age":41,"tags":["z"]}],"m":{"k1":1,"k2":[1,2,3],"k3":{"deep":[{"x":1},{"x":2}]}},"s":"a string that is long enough to be stored on the heap","n":null,"big":18446744073709551616,"f":1.5})",
    R"([[1,2,[3,[4,[5]]]],{"a":{"b":{"c":{"d":[1,2,3]}}}},"text",12345678901234567890,-1.25e-3,true,null,{"":0,"k~/\"":1}])",
    // per-item regular expressions taken from the document (function arguments that differ from call to call)
    R"({"t":[{"text":"alpha,beta;gamma delta","sep":","},{"text":"alpha,beta;gamma delta","sep":";"},{"text":"alpha,beta;gamma delta","sep":" "},{"text":"a1b22c333d","sep":"[0-9]+"}],"text":"x-y-z","sep":"-","people":[{"name":"zed","age":1}]})",
    // doubles for which the shortest-digit algorithm gives up and the printf fallback of the number writer runs, extremes, a big integer and a big decimal
    R"([893.87625490769085,-4096.4000000000005,0.0067924430597862615,2.8176814629473077e-132,1.7976931348623157e308,4.9406564584124654e-324,0.30000000000000004,123456789.12345679,-2.2250738585072014e-308,1e23,9007199254740993,1e400,123456789012345678901234567890])",
};
static const char* JSONPATHS[] = {"tokenize($.text, $.sep)", "$.t[?(length(tokenize(@.text, @.sep)) > 2)].sep", "$.t[*].tokenize(@.text, @.sep)","$.store.book[*].author", "$..price", "$.store.book[?(@.price < 10)].title", "$..book[-1:]", "$.store.*", "$..book[?(@.isbn)]", "$.store.book[?(@.category == 'fiction' && @.price > 20)]", "$..*", "sum($..price)",
    "$.store.book[0,1]['author','title']", "$.people[?(@.age > 26)].name", "$..[?(@.x)]", "$.store.book[?(@.author =~ /Evelyn.*?/)]", "length($..book[*])", "$..book[?(@.price > $.expensive)].title", "$[0][2][1]", "$..d[1:]", "max($.store.book[*].price)", "keys($.m)", "$.people[*].tags[*]"};
static const char* JMESPATHS[] = {"people[?age > `26`].name", "people[*].tags[]", "sort_by(people, &age)[].name", "max_by(people, &age).name", "merge(m, {k9: `3`})", "join(', ', people[].name)", "people[].{n: name, a: age}", "length(people)", "to_string(m)", "people | [0]", "keys(m)", "map(&name, people)",
    "store.book[?price < `10`].title", "store.book[*].price | sum(@)", "avg(store.book[].price)", "store.book[-1].author", "reverse(store.book[].title)", "contains(store.book[].category, 'fiction')", "type(@)", "[0][2][1]", "not_null(n, s)", "m.k3.deep[*].x", "sort(people[].name) | [0]", "starts_with(s, 'a')"};

struct Shared {
    std::vector<jsonschema::json_schema<json>> schemas;
    std::vector<json> instances;
    std::vector<json> docs; std::vector<ojson> odocs;
    std::vector<jsonpath::jsonpath_expression<json>> paths;
    std::vector<jmespath::jmespath_expression<json>> jmes;
};

// op kinds
enum Op { SCHEMA_IS_VALID, SCHEMA_VALIDATE, SCHEMA_WALK, JSONPATH_EVAL, JSONPATH_PATHS, JMES_EVAL, DOC_DUMP, DOC_COPY_CMP, DOC_LOOKUP, DOC_ITERATE, DOC_FLATTEN, DOC_CBOR, DOC_AS, ODOC_DUMP, NOPS };
static const char* OPN[] = {"schema.is_valid", "schema.validate", "schema.walk", "jsonpath.evaluate", "jsonpath.evaluate(paths)", "jmespath.evaluate", "doc.dump", "doc.copy+compare", "doc.lookup", "doc.iterate", "doc.flatten", "doc.encode_cbor", "doc.as<T>", "odoc.dump"};

static size_t n_art(const Shared& s, int op) { switch (op) { case SCHEMA_IS_VALID: case SCHEMA_VALIDATE: case SCHEMA_WALK: return s.schemas.size(); case JSONPATH_EVAL: case JSONPATH_PATHS: return s.paths.size(); case JMES_EVAL: return s.jmes.size(); case ODOC_DUMP: return s.odocs.size(); default: return s.docs.size(); } }
static size_t n_in(const Shared& s, int op) { switch (op) { case SCHEMA_IS_VALID: case SCHEMA_VALIDATE: case SCHEMA_WALK: return s.instances.size(); case JSONPATH_EVAL: case JSONPATH_PATHS: case JMES_EVAL: return s.docs.size(); default: return 1; } }

static std::string do_op(const Shared& s, int op, size_t a, size_t in) {
    try {
        switch (op) {
        case SCHEMA_IS_VALID: return s.schemas[a].is_valid(s.instances[in]) ? "valid" : "invalid";
        case SCHEMA_VALIDATE: { std::string out; auto rep = [&](const jsonschema::validation_message& m) { out += m.keyword() + "@" + m.instance_location().string() + ";"; return jsonschema::walk_result::advance; }; s.schemas[a].validate(s.instances[in], rep); return out; }
        case SCHEMA_WALK: { size_t n = 0; auto rep = [&](const std::string&, const json&, const uri&, const json&, const jsonpointer::json_pointer&) { ++n; return jsonschema::walk_result::advance; }; s.schemas[a].walk(s.instances[in], rep); return std::to_string(n); }
        case JSONPATH_EVAL: return s.paths[a].evaluate(s.docs[in]).to_string();
        case JSONPATH_PATHS: return s.paths[a].evaluate(s.docs[in], jsonpath::result_options::path | jsonpath::result_options::nodups).to_string();
        case JMES_EVAL: { std::error_code ec; json r = s.jmes[a].evaluate(s.docs[in], ec); return ec ? "ec:" + ec.message() : r.to_string(); }
        case DOC_DUMP: { std::string t; s.docs[a].dump_pretty(t); return t; }
        case DOC_COPY_CMP: { json c(s.docs[a]); bool eq = c == s.docs[a]; bool lt = c < s.docs[(a + 1) % s.docs.size()]; return std::string(eq ? "eq" : "ne") + (lt ? "lt" : "ge") + std::to_string(c.size()); }
        case DOC_LOOKUP: { const json& d = s.docs[a]; std::string out; if (d.is_object()) { for (const char* k : {"store", "people", "m", "s", "missing"}) { out += d.contains(k) ? "1" : "0"; auto it = d.find(k); if (it != d.object_range().end()) out += std::to_string(it->value().size()); out += std::to_string(d.count(k)); } if (d.contains("m")) out += d.at("m").at("k2").at(1).as<std::string>(); } else { out = std::to_string(d.size()) + d.at(0).at(1).as<std::string>(); } return out; }
        case DOC_ITERATE: { size_t n = 0; std::function<void(const json&)> walk = [&](const json& v) { ++n; if (v.is_array()) for (const auto& e : v.array_range()) walk(e); else if (v.is_object()) for (const auto& m : v.object_range()) { n += m.key().size(); walk(m.value()); } }; walk(s.docs[a]); return std::to_string(n); }
        case DOC_FLATTEN: return jsonpointer::flatten(s.docs[a]).to_string();
        case DOC_CBOR: { std::vector<uint8_t> b; cbor::encode_cbor(s.docs[a], b); return hex(b); }
        case DOC_AS: { const json& d = s.docs[a]; if (d.is_object() && d.contains("expensive")) return std::to_string(d["expensive"].as<int>()) + std::to_string(d["store"]["bicycle"]["price"].as<double>()); if (d.is_object()) return d["s"].as<std::string>() + std::to_string(d["f"].as<double>()) + d["big"].as<std::string>(); return std::to_string(d[3].as<uint64_t>()) + std::to_string(d[4].as<double>()); }
        case ODOC_DUMP: { std::string t; s.odocs[a].dump(t); return t; }
        }
    } catch (const std::exception& e) { return std::string("exception:") + e.what(); }
    return "";
}

int main(int argc, char** argv) {
    H.parse(argc, argv);
    int fixed_threads = (int)H.opt_int("threads", 0);
    long ops_per_thread = H.opt_int("ops", 300);
    Shared S;
    for (const char* t : SCHEMAS) S.schemas.push_back(jsonschema::make_json_schema(json::parse(t), jsonschema::evaluation_options{}.require_format_validation(true)));
    for (const char* t : INSTANCES) S.instances.push_back(json::parse(t));
    for (const char* t : DOCS) { S.docs.push_back(json::parse(t)); S.odocs.push_back(ojson::parse(t)); }
    for (const char* t : JSONPATHS) S.paths.push_back(jsonpath::make_expression<json>(t));
    for (const char* t : JMESPATHS) S.jmes.push_back(jmespath::make_expression<json>(t));
    const Shared& CS = S;
    // expected results, single-threaded
    std::map<std::tuple<int, size_t, size_t>, std::string> expected;
    for (int op = 0; op < NOPS; ++op) for (size_t a = 0; a < n_art(CS, op); ++a) for (size_t in = 0; in < n_in(CS, op); ++in) expected[{op, a, in}] = do_op(CS, op, a, in);
    H.count_("expected_results", expected.size());

    auto body = [&](long long c) {
        Rng r = H.case_rng(c);
        static const int tc[] = {2, 4, 8, 16};
        int nt = fixed_threads ? fixed_threads : r.pick(tc);
        // biased mix: few artifacts, many threads
        int focus_op = (int)r.below(NOPS); size_t focus_a = r.below(n_art(CS, focus_op));
        std::atomic<int> ready{0}; std::atomic<bool> go{false};
        struct PerThread { std::vector<std::string> mismatches; std::vector<u64> opcount; long n = 0; };
        std::vector<PerThread> pt((size_t)nt);
        std::vector<std::thread> th;
        for (int t = 0; t < nt; ++t) {
            u64 seed = mix(mix(H.seed, (u64)c), (u64)t + 1);
            th.emplace_back([&, t, seed]() {
                Rng tr(seed);
                PerThread& me = pt[(size_t)t]; me.opcount.assign(NOPS, 0);
                unsigned skew = (unsigned)tr.below(50);
                ready.fetch_add(1);
                while (!go.load(std::memory_order_acquire)) { }
                auto t0 = std::chrono::steady_clock::now(); while (std::chrono::steady_clock::now() - t0 < std::chrono::microseconds(skew)) { }
                for (long i = 0; i < ops_per_thread; ++i) {
                    int op; size_t a;
                    if (tr.chance(1, 2)) { op = focus_op; a = focus_a; } else { op = (int)tr.below(NOPS); a = tr.below(n_art(CS, op)); }
                    size_t in = tr.below(n_in(CS, op));
                    std::string got = do_op(CS, op, a, in);
                    ++me.opcount[(size_t)op]; ++me.n;
                    const std::string& want = expected.at({op, a, in});
                    if (got != want && me.mismatches.size() < 5) me.mismatches.push_back(std::string(OPN[op]) + " artifact " + std::to_string(a) + " input " + std::to_string(in) + ": got " + got.substr(0, 200) + " want " + want.substr(0, 200));
                }
            });
        }
        while (ready.load() < nt) { }
        go.store(true, std::memory_order_release);
        for (auto& x : th) x.join();
        // merge per-thread buffers after join (the monitor has no shared mutable state while threads run)
        for (auto& p : pt) { H.count_("operations", (u64)p.n); for (int op = 0; op < NOPS; ++op) H.count_(std::string("ops.") + OPN[op], p.opcount[(size_t)op]);
            for (auto& m : p.mismatches) H.violation(std::string("threads/result-differs/") + m.substr(0, m.find(' ')), J().num("threads", nt).str("what", m).done()); }
        H.count_("episodes.threads_" + std::to_string(nt));
        H.note_distinct(mix((u64)c, (u64)nt));
        if (H.sample_seen < 5) H.sample(J().num("threads", nt).str("focus", std::string(OPN[focus_op]) + "#" + std::to_string(focus_a)).num("ops_per_thread", ops_per_thread).done()); else ++H.sample_seen;
    };
    return H.run(body);
}
