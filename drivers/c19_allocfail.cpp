// C19: allocation failure at any point is handled cleanly (fault enumeration).
// Global operator new/delete are replaced by a counting fail-point. For each (scenario, input) the operation window is
// first run without faults (N allocations), then once for every k = 1..N with the k-th allocation throwing bad_alloc.
// Oracle: the exception reaching the caller is std::bad_alloc (or the operation completes with the fault-free result);
// surviving objects stay usable (dump, assign, destroy under ASan); after the survivors are destroyed no block allocated
// inside the window is still live; for strong-guarantee scenarios that holds immediately after unwinding;
// apply_patch leaves the target equal to its pre-call value.
// Second pass: a tracking stateful allocator checks that every block returns to an equal allocator with its size.
#include "common/jvalue.hpp"
#include <jsoncons/json.hpp>
#include <jsoncons_ext/cbor/cbor.hpp>
#include <jsoncons_ext/msgpack/msgpack.hpp>
#include <jsoncons_ext/ubjson/ubjson.hpp>
#include <jsoncons_ext/bson/bson.hpp>
#include <jsoncons_ext/jsonpatch/jsonpatch.hpp>
#include <jsoncons_ext/jsonpath/jsonpath.hpp>
#include <jsoncons_ext/jmespath/jmespath.hpp>
#include <jsoncons_ext/jsonschema/jsonschema.hpp>
#include <jsoncons_ext/mergepatch/mergepatch.hpp>
#include <sstream>
#include <scoped_allocator>
#include <map>

// ---- fail-point ---------------------------------------------------------------------------------------------
static bool g_win = false;             // inside the operation window
static long g_n = 0;                   // allocations seen in the window
static long g_fail_at = 0;             // 1-based index of the allocation that throws (0 = none)
static long g_live_blocks = 0; static long g_live_bytes = 0;   // window blocks still live
static bool g_fired = false;
struct Hdr { size_t size; size_t tag; };
static const size_t WIN_TAG = 0x57494e44u;
static void* fp_alloc(size_t n) {
    bool in = g_win;
    if (in) { ++g_n; if (g_fail_at && g_n == g_fail_at) { g_fired = true; throw std::bad_alloc(); } }
    Hdr* h = (Hdr*)malloc(sizeof(Hdr) + n);
    if (!h) abort();
    h->size = n; h->tag = in ? WIN_TAG : 0;
    if (in) { ++g_live_blocks; g_live_bytes += (long)n; }
    return h + 1;
}
static void fp_free(void* p, size_t sized = (size_t)-1) noexcept {
    if (!p) return; Hdr* h = (Hdr*)p - 1;
    if (sized != (size_t)-1 && sized != h->size) { fprintf(stderr, "SIZED-DELETE-MISMATCH requested=%zu freed-as=%zu\n", h->size, sized); abort(); }
    if (h->tag == WIN_TAG) { --g_live_blocks; g_live_bytes -= (long)h->size; }
    h->tag = 0xdead; free(h);
}
void* operator new(size_t n) { return fp_alloc(n); }
void* operator new[](size_t n) { return fp_alloc(n); }
void* operator new(size_t n, const std::nothrow_t&) noexcept { try { return fp_alloc(n); } catch (...) { return nullptr; } }
void* operator new[](size_t n, const std::nothrow_t&) noexcept { try { return fp_alloc(n); } catch (...) { return nullptr; } }
void operator delete(void* p) noexcept { fp_free(p); }
void operator delete[](void* p) noexcept { fp_free(p); }
void operator delete(void* p, size_t n) noexcept { fp_free(p, n); }
void operator delete[](void* p, size_t n) noexcept { fp_free(p, n); }

using namespace vf;
using namespace jsoncons;
static Harness H;

// A scenario instance: prepare() builds inputs outside the window; op() runs inside; after() probes survivors and
// destroys them (still tracked); result() renders the fault-free result for comparison.
struct Instance {
    std::function<void()> op;               // may throw
    std::function<std::string()> result;    // rendered result after a successful op (outside window)
    std::function<std::string()> probe;     // after a failed op: use survivors (dump/assign); returns "" or a complaint
    std::function<void()> destroy;          // destroy everything the scenario owns
    bool strong = false;                    // no window block may be live right after unwinding
};
using Maker = std::function<Instance(Rng&)>;
struct Scenario { const char* name; Maker make; };

static GenCfg small_cfg() { GenCfg g; g.max_depth = 3; g.max_width = 4; g.string_cap = 40; g.big_numbers = true; return g; }
static json gen_doc(Rng& r) { GenCfg g = small_cfg(); json v = gen_value<json>(r, g); if (!v.is_object() && !v.is_array()) { json a(json_array_arg); a.push_back(v); a.push_back("a string long enough to live on the heap, not in the small buffer"); v = a; } return v; }
static json gen_obj(Rng& r) { json o(json_object_arg); size_t n = 1 + r.below(5); GenCfg g = small_cfg(); for (size_t i = 0; i < n; ++i) o.insert_or_assign("key_" + std::to_string(i) + std::string(r.below(20), 'k'), gen_value<json>(r, g, 1)); return o; }

template <class T> struct Box { std::shared_ptr<T> p; T& operator*() const { return *p; } };

static std::vector<Scenario> scenarios() {
    std::vector<Scenario> S;
    S.push_back({"parse-string", [](Rng& r) { auto text = std::make_shared<std::string>(); gen_doc(r).dump(*text); auto out = std::make_shared<json>();
        Instance i; i.strong = true; i.op = [=] { json v = json::parse(*text); *out = std::move(v); }; i.result = [=] { return out->to_string(); }; i.probe = [=] { return std::string(); }; i.destroy = [=] { *out = json::null(); }; return i; }});
    S.push_back({"parse-stream", [](Rng& r) { auto text = std::make_shared<std::string>(); gen_doc(r).dump_pretty(*text); auto out = std::make_shared<json>();
        Instance i; i.strong = true; i.op = [=] { std::istringstream is(*text); json v = json::parse(is); *out = std::move(v); }; i.result = [=] { return out->to_string(); }; i.probe = [] { return std::string(); }; i.destroy = [=] { *out = json::null(); }; return i; }});
    for (int f = 0; f < 4; ++f) {
        static const char* nm[] = {"decode-cbor", "decode-msgpack", "decode-ubjson", "decode-bson"};
        S.push_back({nm[f], [f](Rng& r) { auto b = std::make_shared<std::vector<uint8_t>>(); json v = f == 3 ? gen_obj(r) : gen_doc(r);
            if (f == 3) { std::vector<uint8_t> t; try { bson::encode_bson(v, t); } catch (const std::exception&) { v = json::parse(R"({"a":[1,2,{"b":"a string long enough for the heap, really"}],"c":1.5})"); } }
            switch (f) { case 0: { cbor::cbor_options o; o.pack_strings(r.coin()); cbor::encode_cbor(v, *b, o); break; } case 1: msgpack::encode_msgpack(v, *b); break; case 2: ubjson::encode_ubjson(v, *b); break; default: bson::encode_bson(v, *b); break; }
            auto out = std::make_shared<json>();
            Instance i; i.strong = true; i.op = [=] { json x; switch (f) { case 0: x = cbor::decode_cbor<json>(*b); break; case 1: x = msgpack::decode_msgpack<json>(*b); break; case 2: x = ubjson::decode_ubjson<json>(*b); break; default: x = bson::decode_bson<json>(*b); break; } *out = std::move(x); };
            i.result = [=] { return out->to_string(); }; i.probe = [] { return std::string(); }; i.destroy = [=] { *out = json::null(); }; return i; }});
    }
    S.push_back({"deep-copy", [](Rng& r) { auto a = std::make_shared<json>(gen_doc(r)); auto out = std::make_shared<json>();
        Instance i; i.strong = true; i.op = [=] { json c(*a); *out = std::move(c); }; i.result = [=] { return out->to_string(); };
        i.probe = [=] { std::string s; a->dump(s); return std::string(); }; i.destroy = [=] { *out = json::null(); *a = json::null(); }; return i; }});
    S.push_back({"copy-assign", [](Rng& r) { auto a = std::make_shared<json>(r.chance(1, 4) ? gen_value<json>(r, small_cfg()) : gen_doc(r)); auto b = std::make_shared<json>(r.chance(1, 4) ? gen_value<json>(r, small_cfg()) : gen_doc(r));
        auto before = std::make_shared<std::string>(b->to_string()); auto src = std::make_shared<std::string>(a->to_string());
        Instance i; i.op = [=] { *b = *a; }; i.result = [=] { return b->to_string(); };
        i.probe = [=] { std::string s; b->dump(s); if (a->to_string() != *src) return std::string("source changed"); *b = json("reassigned after failure, long enough to allocate"); return std::string(); };
        i.destroy = [=] { *a = json::null(); *b = json::null(); }; return i; }});
    S.push_back({"ojson-copy-assign", [](Rng& r) { GenCfg g = small_cfg(); auto a = std::make_shared<ojson>(gen_value<ojson>(r, g)); auto b = std::make_shared<ojson>(gen_value<ojson>(r, g));
        Instance i; i.op = [=] { *b = *a; }; i.result = [=] { return b->to_string(); }; i.probe = [=] { std::string s; b->dump(s); *b = ojson(5); return std::string(); }; i.destroy = [=] { *a = ojson::null(); *b = ojson::null(); }; return i; }});
    S.push_back({"insert-realloc", [](Rng& r) { auto o = std::make_shared<json>(gen_obj(r)); auto arr = std::make_shared<json>(json_array_arg); size_t n = r.below(9); for (size_t k = 0; k < n; ++k) arr->push_back(gen_value<json>(r, small_cfg(), 2));
        auto val = std::make_shared<json>(gen_doc(r)); auto key = std::make_shared<std::string>("new key long enough to need heap storage " + std::to_string(r.below(100)));
        auto o_before = std::make_shared<std::string>(o->to_string()); auto a_before = std::make_shared<std::string>(arr->to_string()); int which = (int)r.below(5);
        Instance i; i.op = [=] { switch (which) { case 0: o->try_emplace(*key, *val); break; case 1: o->insert_or_assign(*key, *val); break; case 2: arr->push_back(*val); break; case 3: arr->insert(arr->array_range().begin(), *val); break; default: o->insert_or_assign(std::string(o->object_range().begin()->key()), *val); break; } };
        i.result = [=] { return o->to_string() + arr->to_string(); };
        i.probe = [=] { std::string s; o->dump(s); arr->dump(s); std::string ob = o->to_string(), ab = arr->to_string();
            // basic guarantee: containers are valid; they hold either the old content or the old content plus the new element, never a hole
            if (which == 2 && ab != *a_before) { json t = json::parse(*a_before); t.push_back(*val); if (t.to_string() != ab) return std::string("array neither old nor new: ") + ab; }
            if ((which == 0 || which == 1) && ob != *o_before) { json t = json::parse(*o_before); t.insert_or_assign(*key, *val); if (t.to_string() != ob) return std::string("object neither old nor new: ") + ob; }
            return std::string(); };
        i.destroy = [=] { *o = json::null(); *arr = json::null(); *val = json::null(); }; return i; }});
    S.push_back({"merge", [](Rng& r) { auto a = std::make_shared<json>(gen_obj(r)); auto b = std::make_shared<json>(gen_obj(r)); b->insert_or_assign("extra member with a long name " + std::to_string(r.below(9)), gen_doc(r)); bool upd = r.coin();
        Instance i; i.op = [=] { if (upd) a->merge_or_update(*b); else a->merge(*b); }; i.result = [=] { return a->to_string(); }; i.probe = [=] { std::string s; a->dump(s); b->dump(s); return std::string(); }; i.destroy = [=] { *a = json::null(); *b = json::null(); }; return i; }});
    S.push_back({"apply-patch", [](Rng& r) { auto doc = std::make_shared<json>(gen_obj(r)); auto target = std::make_shared<json>(*doc);
        json mod = *doc; mod.insert_or_assign("added member " + std::to_string(r.below(9)), gen_doc(r)); if (mod.size() > 1) mod.erase(mod.object_range().begin()); for (auto& m : mod.object_range()) { if (r.coin()) { m.value() = gen_value<json>(r, small_cfg(), 2); break; } }
        auto patch = std::make_shared<json>(jsonpatch::from_diff(*doc, mod)); auto before = std::make_shared<std::string>(doc->to_string());
        Instance i; i.op = [=] { std::error_code ec; jsonpatch::apply_patch(*target, *patch, ec); if (ec) throw std::runtime_error("patch failed: " + ec.message()); };
        i.result = [=] { return target->to_string(); };
        i.probe = [=] { std::string s; target->dump(s); if (s != *before) return std::string("apply_patch: target not restored: ") + s.substr(0, 300) + " expected " + before->substr(0, 300); return std::string(); };
        i.destroy = [=] { *doc = json::null(); *target = json::null(); *patch = json::null(); }; return i; }});
    // every pair of heap-backed storage kinds on the two sides of a copy assignment (long string, byte string, array, object, big number text)
    S.push_back({"copy-assign-kind-pairs", [](Rng& r) {
        auto mk = [](Rng& rr, int k) -> json {
            switch (k) {
            case 0: return json(std::string(40 + rr.below(60), 's'));
            case 1: return json(byte_string_arg, std::vector<uint8_t>(40 + rr.below(60), (uint8_t)7));
            case 2: { json a(json_array_arg); size_t n = 1 + rr.below(4); for (size_t i = 0; i < n; ++i) a.push_back(std::string(40, 'a')); return a; }
            case 3: { json o(json_object_arg); size_t n = 1 + rr.below(4); for (size_t i = 0; i < n; ++i) o.try_emplace("member name long enough for the heap " + std::to_string(i), std::string(40, 'o')); return o; }
            case 4: return json(std::string(50, '9'), semantic_tag::bigint);
            case 5: return json(byte_string_arg, std::vector<uint8_t>(40 + rr.below(60), (uint8_t)9), (uint64_t)rr.below(300));
            default: return json((int64_t)rr.below(100));
            } };
        int ka = (int)r.below(7), kb = (int)r.below(7);
        auto a = std::make_shared<json>(mk(r, ka)); auto b = std::make_shared<json>(mk(r, kb)); auto src = std::make_shared<std::string>(a->to_string());
        Instance i; i.op = [=] { *b = *a; }; i.result = [=] { return b->to_string(); };
        i.probe = [=] { std::string s; b->dump(s); if (a->to_string() != *src) return std::string("source changed"); json c(*b); *b = json(std::string(60, 'r')); return std::string(); };
        i.destroy = [=] { *a = json::null(); *b = json::null(); }; return i; }});
    // patches with move/copy operations and long operation sequences (every length 1..18: undo log growth at every size)
    S.push_back({"apply-patch-moves", [](Rng& r) {
        auto doc = std::make_shared<json>(json_object_arg); std::vector<std::string> keys; size_t nk = 3 + r.below(4);
        for (size_t k = 0; k < nk; ++k) { std::string key = "key_" + std::to_string(k) + std::string(r.below(12), 'k'); keys.push_back(key); doc->try_emplace(key, r.coin() ? json(std::string(30 + r.below(30), 'v')) : json((int64_t)k)); }
        auto patch = std::make_shared<json>(json_array_arg); size_t nops = 1 + r.below(18); int fresh = 0;
        for (size_t n = 0; n < nops; ++n) {
            json op(json_object_arg); size_t kind = r.below(5); if (keys.size() < 2) kind = 2;
            if (kind == 0) { op["op"] = "replace"; op["path"] = "/" + r.pick(keys); op["value"] = std::string(30 + r.below(30), 'r'); }
            else if (kind == 1) { size_t j = r.below(keys.size()); std::string to = "moved_" + std::to_string(fresh++) + std::string(r.below(12), 'm'); op["op"] = "move"; op["from"] = "/" + keys[j]; op["path"] = "/" + to; keys[j] = to; }
            else if (kind == 2) { std::string to = "added_" + std::to_string(fresh++); op["op"] = "add"; op["path"] = "/" + to; op["value"] = std::string(30, 'a'); keys.push_back(to); }
            else if (kind == 3) { size_t j = r.below(keys.size()); op["op"] = "remove"; op["path"] = "/" + keys[j]; keys.erase(keys.begin() + (long)j); }
            else { std::string to = "copied_" + std::to_string(fresh++); op["op"] = "copy"; op["from"] = "/" + r.pick(keys); op["path"] = "/" + to; keys.push_back(to); }
            patch->push_back(std::move(op));
        }
        auto target = std::make_shared<json>(*doc); auto before = std::make_shared<std::string>(doc->to_string());
        Instance i; i.op = [=] { std::error_code ec; jsonpatch::apply_patch(*target, *patch, ec); if (ec) throw std::runtime_error("patch failed: " + ec.message()); };
        i.result = [=] { return target->to_string(); };
        i.probe = [=] { std::string s; target->dump(s); if (s != *before) return std::string("apply_patch: target not restored: ") + s.substr(0, 300) + " expected " + before->substr(0, 300) + " patch " + patch->to_string().substr(0, 400); return std::string(); };
        i.destroy = [=] { *doc = json::null(); *target = json::null(); *patch = json::null(); }; return i; }});
    S.push_back({"from-diff", [](Rng& r) { auto a = std::make_shared<json>(gen_obj(r)); auto b = std::make_shared<json>(gen_obj(r)); auto out = std::make_shared<json>(); bool mp = r.coin();
        Instance i; i.strong = true; i.op = [=] { json d = mp ? mergepatch::from_diff(*a, *b) : jsonpatch::from_diff(*a, *b); *out = std::move(d); }; i.result = [=] { return out->to_string(); }; i.probe = [] { return std::string(); }; i.destroy = [=] { *a = json::null(); *b = json::null(); *out = json::null(); }; return i; }});
    S.push_back({"json-query", [](Rng& r) { auto doc = std::make_shared<json>(json::parse(R"({"store":{"book":[{"category":"reference","author":"Nigel Rees","title":"Sayings of the Century","price":8.95},{"category":"fiction","author":"Evelyn Waugh","title":"Sword of Honour","price":12.99},{"category":"fiction","author":"J. R. R. Tolkien","title":"The Lord of the Rings","isbn":"0-395-19395-8","price":22.99}],"bicycle":{"color":"red","price":19.95}}})"));
        static const char* qs[] = {"$.store.book[*].author", "$..price", "$.store.book[?(@.price < 10)].title", "$..book[-1:]", "$.store.*", "$..book[?(@.isbn)]", "$.store.book[?(@.category == 'fiction' && @.price > 20)]", "$..*", "sum($..price)", "$.store.book[0,1]['author','title']"};
        auto q = std::make_shared<std::string>(r.pick(qs)); auto out = std::make_shared<json>(); bool paths = r.coin();
        Instance i; i.strong = true; i.op = [=] { json x = jsonpath::json_query(*doc, *q, paths ? jsonpath::result_options::path : jsonpath::result_options()); *out = std::move(x); }; i.result = [=] { return out->to_string(); };
        i.probe = [=] { std::string s; doc->dump(s); return std::string(); }; i.destroy = [=] { *doc = json::null(); *out = json::null(); }; return i; }});
    S.push_back({"jmespath-search", [](Rng& r) { auto doc = std::make_shared<json>(json::parse(R"({"people":[{"name":"a","age":30,"tags":["x","y"]},{"name":"b","age":25,"tags":[]},{"name":"c","age":41,"tags":["z"]}],"m":{"k1":1,"k2":[1,2,3]}})"));
        static const char* qs[] = {"people[?age > `26`].name", "people[*].tags[]", "sort_by(people, &age)[].name", "max_by(people, &age).name", "merge(m, {k3: `3`})", "join(', ', people[].name)", "people[].{n: name, a: age}", "length(people) ", "to_string(m)", "people | [0]", "keys(m)", "map(&name, people)"};
        auto q = std::make_shared<std::string>(r.pick(qs)); auto out = std::make_shared<json>();
        Instance i; i.strong = true; i.op = [=] { json x = jmespath::search(*doc, *q); *out = std::move(x); }; i.result = [=] { return out->to_string(); }; i.probe = [=] { std::string s; doc->dump(s); return std::string(); }; i.destroy = [=] { *doc = json::null(); *out = json::null(); }; return i; }});
    S.push_back({"schema-compile-validate", [](Rng& r) { static const char* schemas[] = {
            R"({"$schema":"https://json-schema.org/draft/2020-12/schema","type":"object","properties":{"a":{"type":"integer","minimum":1},"b":{"type":"array","items":{"$ref":"#/$defs/s"},"uniqueItems":true}},"required":["a"],"$defs":{"s":{"type":"string","pattern":"^[a-z]+$","maxLength":5}},"unevaluatedProperties":false})",
            R"({"$schema":"http://json-schema.org/draft-07/schema#","oneOf":[{"type":"string"},{"type":"object","additionalProperties":{"type":"number"}}],"if":{"type":"object"},"then":{"minProperties":1}})",
            R"({"type":"array","prefixItems":[{"type":"integer"},{"enum":["x","y"]}],"items":false,"contains":{"const":"x"}})"};
        static const char* insts[] = {R"({"a":1,"b":["ab","cd"]})", R"({"a":0,"b":["ab","ab"],"c":1})", R"("text")", R"({"x":1.5})", R"([1,"x"])", R"([1,"z",3])"};
        auto sch = std::make_shared<json>(json::parse(r.pick(schemas))); auto inst = std::make_shared<json>(json::parse(r.pick(insts))); auto out = std::make_shared<std::string>();
        Instance i; i.strong = true; i.op = [=] { auto compiled = jsonschema::make_json_schema(*sch); size_t n = 0; auto rep = [&](const jsonschema::validation_message&) { ++n; return jsonschema::walk_result::advance; }; compiled.validate(*inst, rep); bool v = compiled.is_valid(*inst); std::string s = std::to_string(n) + (v ? " valid" : " invalid"); *out = s; };
        i.result = [=] { return *out; }; i.probe = [=] { std::string s; sch->dump(s); inst->dump(s); return std::string(); }; i.destroy = [=] { *sch = json::null(); *inst = json::null(); out->clear(); out->shrink_to_fit(); }; return i; }});
    S.push_back({"dump", [](Rng& r) { auto a = std::make_shared<json>(gen_doc(r)); auto out = std::make_shared<std::string>(); int which = (int)r.below(4);
        Instance i; i.strong = true; i.op = [=] { std::string s; switch (which) { case 0: a->dump(s); break; case 1: a->dump_pretty(s); break; case 2: { std::ostringstream os; os << pretty_print(*a); if (!os) throw std::bad_alloc(); /* iostreams report a failed write through the stream state */ s = os.str(); break; } default: { std::vector<uint8_t> b; cbor::cbor_options o; o.pack_strings(true); cbor::encode_cbor(*a, b, o); s.assign(b.begin(), b.end()); } } *out = std::move(s); };
        i.result = [=] { return hex(*out); }; i.probe = [=] { std::string s; a->dump(s); return std::string(); }; i.destroy = [=] { *a = json::null(); out->clear(); out->shrink_to_fit(); }; return i; }});
    S.push_back({"typed-decode", [](Rng& r) { auto text = std::make_shared<std::string>(R"({"first":["a string long enough for the heap 1","b"],"second":["c","d string long enough for the heap 2","e"]})"); auto out = std::make_shared<std::string>(); bool tup = r.coin();
        Instance i; i.strong = true; i.op = [=] { std::string s; if (tup) { auto v = decode_json<std::vector<std::tuple<int, std::string, double>>>(std::string(R"([[1,"a string long enough for the heap 3",2.5],[2,"b",3.5]])")); s = std::to_string(v.size()) + std::get<1>(v[0]); } else { auto m = decode_json<std::map<std::string, std::vector<std::string>>>(*text); s = std::to_string(m.size()) + m["second"][1]; } *out = s; };
        i.result = [=] { return *out; }; i.probe = [] { return std::string(); }; i.destroy = [=] { out->clear(); out->shrink_to_fit(); }; return i; }});
    return S;
}

static void run_instance(const Scenario& sc, long long c) {
    // warm-up outside the window: function-local statics and lazily built tables of the library are created here,
    // so that they are neither counted as leaks nor as fault points of the operation
    { Rng rw = H.case_rng(c); Instance w = sc.make(rw); try { w.op(); } catch (const std::exception&) {} w.destroy(); }
    // fault-free run
    Rng r0 = H.case_rng(c);
    Instance base = sc.make(r0);
    g_n = 0; g_fail_at = 0; g_live_blocks = 0; g_live_bytes = 0; g_fired = false;
    std::string ok_result;
    g_win = true;
    try { base.op(); g_win = false; }
    catch (const std::exception& e) { g_win = false; H.violation(std::string("allocfail/") + sc.name + "/fault-free-run-throws", J().str("what", e.what()).done()); base.destroy(); return; }
    long N = g_n;
    ok_result = base.result();
    g_win = true; base.destroy(); g_win = false;
    if (g_live_blocks != 0) H.violation(std::string("allocfail/") + sc.name + "/leak-without-fault", J().num("live_blocks", g_live_blocks).num("live_bytes", g_live_bytes).done());
    H.count_(std::string("allocations_enumerated.") + sc.name, (u64)N);
    H.count_(std::string("inputs.") + sc.name);
    long kmax = N;
    for (long k = 1; k <= kmax; ++k) {
        Rng rk = H.case_rng(c);
        Instance in = sc.make(rk);                    // identical inputs (same PRNG stream)
        set_flight_desc(std::string(sc.name) + " k=" + std::to_string(k) + "/" + std::to_string(N));
        g_n = 0; g_fail_at = k; g_live_blocks = 0; g_live_bytes = 0; g_fired = false;
        std::string outcome; std::string what;
        g_win = true;
        try { in.op(); g_win = false; outcome = "completed"; }
        catch (const std::bad_alloc&) { g_win = false; outcome = "bad_alloc"; }
        catch (const std::exception& e) { g_win = false; outcome = "other:" + current_exception_type(); what = e.what(); }
        catch (...) { g_win = false; outcome = "other:unknown"; }
        g_fail_at = 0;
        H.count_("injected_runs");
        std::string sig = std::string("allocfail/") + sc.name + "/";
        auto det = [&](const std::string& extra) { return J().num("k", k).num("N", N).str("outcome", outcome).str("what", what).str("extra", extra).done(); };
        if (!g_fired) { H.count_("fault_not_reached"); }
        else if (outcome == "completed") {
            // the failure was absorbed inside the library: acceptable only if the result is the fault-free result
            std::string res = in.result();
            H.count_("fault_absorbed");
            if (res != ok_result) H.violation(sig + "failure-swallowed-with-different-result", det(res.substr(0, 300)));
        } else if (outcome != "bad_alloc") {
            H.violation(sig + "wrong-exception/" + outcome.substr(6), det(""));
        } else {
            H.count_("bad_alloc_propagated");
            if (in.strong && g_live_blocks != 0) H.violation(sig + "leak-after-unwind", det("live_blocks=" + std::to_string(g_live_blocks) + " live_bytes=" + std::to_string(g_live_bytes)));
            std::string complaint;
            try { complaint = in.probe(); } catch (const std::exception& e) { complaint = std::string("probe threw: ") + e.what(); }
            if (!complaint.empty()) H.violation(sig + "survivor-invalid", det(complaint));
        }
        g_win = true; in.destroy(); g_win = false;      // frees of window blocks are tracked regardless
        if (g_live_blocks != 0) H.violation(sig + "leak-after-destroying-survivors", det("live_blocks=" + std::to_string(g_live_blocks) + " live_bytes=" + std::to_string(g_live_bytes)));
    }
}

// ---- tracking stateful allocator -----------------------------------------------------------------------------
struct Registry { std::map<void*, std::pair<int, size_t>> live; long errors = 0; std::string first; };
static Registry& reg() { static Registry r; return r; }
template <class T> struct TrackAlloc {
    using value_type = T; int id;
    using propagate_on_container_copy_assignment = std::false_type; using propagate_on_container_move_assignment = std::true_type; using propagate_on_container_swap = std::true_type; using is_always_equal = std::false_type;
    explicit TrackAlloc(int i) noexcept : id(i) {}
    template <class U> TrackAlloc(const TrackAlloc<U>& o) noexcept : id(o.id) {}
    T* allocate(size_t n) { T* p = (T*)::operator new(n * sizeof(T)); reg().live[p] = {id, n * sizeof(T)}; return p; }
    void deallocate(T* p, size_t n) noexcept {
        auto& R = reg(); auto it = R.live.find(p);
        if (it == R.live.end()) { ++R.errors; if (R.first.empty()) R.first = "deallocate of unknown block"; }
        else { if (it->second.first != id) { ++R.errors; if (R.first.empty()) R.first = "block from allocator " + std::to_string(it->second.first) + " returned to allocator " + std::to_string(id); }
               if (it->second.second != n * sizeof(T)) { ++R.errors; if (R.first.empty()) R.first = "block of " + std::to_string(it->second.second) + " bytes returned as " + std::to_string(n * sizeof(T)); }
               R.live.erase(it); }
        ::operator delete(p);
    }
    template <class U> bool operator==(const TrackAlloc<U>& o) const noexcept { return id == o.id; }
    template <class U> bool operator!=(const TrackAlloc<U>& o) const noexcept { return id != o.id; }
};
using cust_alloc = std::scoped_allocator_adaptor<TrackAlloc<char>>;
using cust_json = basic_json<char, sorted_policy, cust_alloc>;

static void stateful_pass(long long c) {
    Rng r = H.case_rng(c, 77);
    reg().live.clear(); reg().errors = 0; reg().first.clear();
    std::string text; gen_doc(r).dump(text);
    std::string text2; gen_doc(r).dump(text2);
    long N = 0;
    for (long k = 0; k <= N; ++k) {
        g_n = 0; g_fail_at = k; g_fired = false; g_live_blocks = 0;
        set_flight_desc("stateful k=" + std::to_string(k));
        {
            cust_alloc a1(1), a2(2);
            g_win = true;
            try {
                json_decoder<cust_json, cust_alloc> dec(a1, a1);
                json_string_reader rd(text, dec); rd.read();
                cust_json j1 = dec.get_result();
                json_decoder<cust_json, cust_alloc> dec2(a2, a2);
                json_string_reader rd2(text2, dec2); rd2.read();
                cust_json j2 = dec2.get_result();
                cust_json j3(j1, a2);               // copy with another allocator
                j2 = j1;                            // assignment across allocators
                j1.swap(j3);
                cust_json j4(std::move(j2), a1);    // move with unequal allocator
                if (j4.is_object()) j4.try_emplace("another key long enough for the heap", "and a value long enough for the heap too");
                else if (j4.is_array()) j4.emplace_back("a value long enough for the heap, allocated with the container's allocator");
                std::string s; j4.dump(s); j3.dump(s);
            } catch (const std::bad_alloc&) { H.count_("stateful.bad_alloc_propagated"); }
            catch (const std::exception& e) { g_win = false; H.violation(std::string("allocfail/stateful/wrong-exception/") + current_exception_type(), J().num("k", k).str("what", e.what()).done()); }
            g_win = false;
        }
        if (k == 0) N = g_n;
        g_fail_at = 0;
        H.count_("stateful.runs");
        if (reg().errors) { H.violation("allocfail/stateful/allocator-mismatch", J().num("k", k).str("first", reg().first).num("errors", reg().errors).done()); reg().errors = 0; reg().first.clear(); }
        if (!reg().live.empty()) { H.violation("allocfail/stateful/leak", J().num("k", k).unum("live", reg().live.size()).done()); for (auto& kv : reg().live) ::operator delete(kv.first); reg().live.clear(); }
    }
    H.count_("stateful.allocations_enumerated", (u64)N);
}

int main(int argc, char** argv) {
    H.parse(argc, argv);
    std::vector<Scenario> S = scenarios();
    auto body = [&](long long c) {
        const Scenario& sc = S[(size_t)c % S.size()];
        H.note_distinct((u64)c);
        if (c % 40 == 39) { stateful_pass(c); return; }
        run_instance(sc, c);
        if (H.sample_seen < 8) H.sample(J().str("scenario", sc.name).num("case", c).done()); else ++H.sample_seen;
    };
    return H.run(body);
}
