// C17 stage "witnesses": fixed cases of every root cause that the C17 monitor has found, one case per witness, executed on every run
// in every tier.  A witness is reported under the single signature typed/witness/<id> while the library still misbehaves on it; a
// witness that behaves is simply not reported.  The ids are the ones used by the known-bad class predicates in drivers/c17/typed.hpp
// (known_value_class / known_damage_class): while a root cause is declared open there (--known-open), the random workload does not judge
// its class and the witnesses below are what keeps reporting it, under a signature that does not depend on seed, format or type.
#include "common/harness.hpp"
#include <jsoncons/json.hpp>
#include <jsoncons_ext/cbor/cbor.hpp>
#include <jsoncons_ext/msgpack/msgpack.hpp>
#include <jsoncons_ext/ubjson/ubjson.hpp>
#include <jsoncons_ext/bson/bson.hpp>
#include <array>
#include <chrono>
#include <deque>
#include <map>
#include <memory>
#include <optional>
#include <vector>

using namespace vf;
using jsoncons::json;
namespace ch = std::chrono;

namespace w17 {
struct A { int a{}; std::string b; std::optional<int> c; };                       // JSONCONS_N_MEMBER_TRAITS, 2 mandatory
struct P { double x{}; std::string label; };                                      // JSONCONS_ALL_MEMBER_NAME_TRAITS
struct Base { virtual ~Base() = default; };
struct D1 : Base { int x{}; };
struct D2 : Base { std::string y; };
class GS {
    uint64_t id_{}; std::optional<std::string> tag_;
public:
    uint64_t get_id() const { return id_; } void set_id(uint64_t v) { id_ = v; }
    const std::optional<std::string>& get_tag() const { return tag_; } void set_tag(const std::optional<std::string>& v) { tag_ = v; }
};
}
JSONCONS_N_MEMBER_TRAITS(w17::A, 2, a, b, c)
JSONCONS_ALL_MEMBER_NAME_TRAITS(w17::P, (x, "X coord"), (label, "Label"))
JSONCONS_ALL_MEMBER_TRAITS(w17::D1, x)
JSONCONS_ALL_MEMBER_TRAITS(w17::D2, y)
JSONCONS_POLYMORPHIC_TRAITS(w17::Base, w17::D1, w17::D2)
JSONCONS_N_GETTER_SETTER_NAME_TRAITS(w17::GS, 1, (get_id, set_id, "ID"), (get_tag, set_tag, "Tag"))

static Harness H;

// A witness returns "" when the library behaves, else what was observed.  Exceptions outside the library error channel escape to the harness.
struct Witness { const char* id; const char* what; std::string (*run)(); };

template <class T> static bool rejects_json(const std::string& text) {
    try { (void)jsoncons::decode_json<T>(text); return false; } catch (const jsoncons::json_exception&) { return true; }
}
template <class T> static std::string must_reject_all_formats(const std::string& text) {
    // the object returned for refused input is not inspected (it may be uninitialised)
    json d = json::parse(text);
    std::string acc;
    if (!rejects_json<T>(text)) acc += " json";
    { std::vector<uint8_t> b; jsoncons::cbor::encode_cbor(d, b); try { (void)jsoncons::cbor::decode_cbor<T>(b); acc += " cbor"; } catch (const jsoncons::json_exception&) {} }
    { std::vector<uint8_t> b; jsoncons::msgpack::encode_msgpack(d, b); try { (void)jsoncons::msgpack::decode_msgpack<T>(b); acc += " msgpack"; } catch (const jsoncons::json_exception&) {} }
    { std::vector<uint8_t> b; jsoncons::ubjson::encode_ubjson(d, b); try { (void)jsoncons::ubjson::decode_ubjson<T>(b); acc += " ubjson"; } catch (const jsoncons::json_exception&) {} }
    return acc.empty() ? "" : "accepted " + text + " in:" + acc;
}
template <class T> static std::string as_must_reject(const std::string& text) {
    auto r = json::parse(text).try_as<T>();
    return r ? "try_as accepted " + text : "";
}
template <class D> static std::string cbor_rt(D v) {
    std::vector<uint8_t> b; jsoncons::cbor::encode_cbor(v, b);
    D got = jsoncons::cbor::decode_cbor<D>(b);
    return got.count() == v.count() ? "" : "cbor: " + std::to_string(v.count()) + " came back as " + std::to_string(got.count());
}
template <class D> static std::string msgpack_rt(D v) {
    std::vector<uint8_t> b; jsoncons::msgpack::encode_msgpack(v, b);
    D got = jsoncons::msgpack::decode_msgpack<D>(b);
    return got.count() == v.count() ? "" : "msgpack: " + std::to_string(v.count()) + " came back as " + std::to_string(got.count());
}
static std::string decode_A(const std::string& text, int a, const std::string& b, std::optional<int> c) {
    json d = json::parse(text);
    auto check = [&](const char* fmt, const w17::A& v) -> std::string {
        return (v.a == a && v.b == b && v.c == c) ? "" : std::string(fmt) + ": decoded as " + json(v).to_string() + "; ";
    };
    std::string r;
    try { r += check("json", jsoncons::decode_json<w17::A>(text)); } catch (const jsoncons::json_exception& e) { r += std::string("json: ") + e.what() + "; "; }
    try { std::vector<uint8_t> buf; jsoncons::msgpack::encode_msgpack(d, buf); r += check("msgpack", jsoncons::msgpack::decode_msgpack<w17::A>(buf)); } catch (const jsoncons::json_exception& e) { r += std::string("msgpack: ") + e.what() + "; "; }
    return r.empty() ? "" : text + " -> " + r;
}
// routes that exist only when ext_traits::is_typed_array does not match containers without data(); dependent so that the discarded branch is not instantiated
template <class C> static std::string noncontiguous_typed_container() {
    if constexpr (jsoncons::ext_traits::is_typed_array<C>::value) return "ext_traits::is_typed_array is true for a container without data(): encode_json / decode_json of it do not compile";
    else {
        C c{1, -2, 3};
        std::string s; jsoncons::encode_json(c, s);
        std::vector<uint8_t> b; jsoncons::cbor::encode_cbor(c, b);
        return (jsoncons::decode_json<C>(s) == c && jsoncons::cbor::decode_cbor<C>(b) == c) ? "" : "round trip of " + s + " changed the value";
    }
}

static const Witness witnesses[] = {
    {"stdarray-decode-size-unchecked", "too few elements for std::array<int,3>", [] { return must_reject_all_formats<std::array<int, 3>>("[1,2]"); }},
    {"stdarray-decode-size-unchecked", "too many elements for std::array<int,3>", [] { return must_reject_all_formats<std::array<int, 3>>("[1,2,3,4]"); }},
    {"stdarray-decode-size-unchecked", "too many elements for an inner std::array<int,2>", [] { return must_reject_all_formats<std::vector<std::array<int, 2>>>("[[1,2,3],[4,5]]"); }},
    {"stdarray-as-kind-unchecked", "object with N members as std::array<bool,1>", [] { return as_must_reject<std::array<bool, 1>>("{\"zq\":1}"); }},
    {"stdarray-as-kind-unchecked", "string as std::array<int,0>", [] { return as_must_reject<std::array<int, 0>>("\"x\""); }},
    {"macro-decode-unknown-member", "unknown scalar member between described members (N_MEMBER)", [] { return decode_A("{\"a\":1,\"zzz\":5,\"b\":\"x\"}", 1, "x", std::nullopt); }},
    {"macro-decode-unknown-member", "unknown nested member before an optional member (N_MEMBER)", [] { return decode_A("{\"a\":1,\"b\":\"x\",\"zzz\":{\"q\":{\"r\":[]}},\"c\":3}", 1, "x", 3); }},
    {"macro-decode-unknown-member", "unknown array member first (ALL_MEMBER_NAME)", [] {
        try { w17::P p = jsoncons::decode_json<w17::P>(std::string("{\"!u\":[1,{\"q\":2}],\"Label\":\"l\",\"X coord\":2.5}")); return (p.x == 2.5 && p.label == "l") ? std::string() : "decoded as " + json(p).to_string(); }
        catch (const jsoncons::json_exception& e) { return std::string(e.what()); } }},
    {"n-getter-setter-name-null-member", "absent optional member written by json(t) but not by encode_json(t)", [] {
        w17::GS g; g.set_id(5); std::string s; jsoncons::encode_json(g, s); std::string j = json(g).to_string();
        return json::parse(s).size() == json::parse(j).size() ? std::string() : "encode_json: " + s + " json(t): " + j; }},
    {"poly-null-pointer", "null shared_ptr<Base> through as<T>()", [] {
        auto r = json(std::shared_ptr<w17::Base>()).try_as<std::shared_ptr<w17::Base>>(); return r ? (*r ? std::string("non-null pointer") : std::string()) : std::string("try_as reports an error for null"); }},
    {"poly-null-pointer", "null unique_ptr<Base> through decode_json", [] {
        try { auto p = jsoncons::decode_json<std::unique_ptr<w17::Base>>(std::string("null")); return p ? std::string("non-null pointer") : std::string(); } catch (const jsoncons::json_exception& e) { return std::string(e.what()); } }},
    {"poly-null-pointer", "null element of vector<shared_ptr<Base>> in CBOR", [] {
        std::vector<std::shared_ptr<w17::Base>> v; v.push_back(nullptr); v.push_back(std::make_shared<w17::D1>());
        std::vector<uint8_t> b; jsoncons::cbor::encode_cbor(v, b);
        try { auto g = jsoncons::cbor::decode_cbor<std::vector<std::shared_ptr<w17::Base>>>(b); return (g.size() == 2 && !g[0] && g[1]) ? std::string() : std::string("decoded differently"); } catch (const jsoncons::json_exception& e) { return std::string(e.what()); } }},
    {"duration-ms-from-double-truncated", "milliseconds(133246566) through CBOR", [] { return cbor_rt(ch::milliseconds(133246566)); }},
    {"duration-ms-from-double-truncated", "duration<int32_t,milli>(-2112400067) through CBOR", [] { return cbor_rt(ch::duration<int32_t, std::milli>(-2112400067)); }},
    {"duration-ns-from-double-truncated", "nanoseconds(1390655768) through CBOR", [] { return cbor_rt(ch::nanoseconds(1390655768)); }},
    {"duration-ns-from-double-truncated", "nanoseconds(-1500000000) through CBOR", [] { return cbor_rt(ch::nanoseconds(-1500000000)); }},
    {"msgpack-negative-timestamp", "milliseconds(-25) through MessagePack", [] { return msgpack_rt(ch::milliseconds(-25)); }},
    {"msgpack-negative-timestamp", "nanoseconds(-464707743) through MessagePack", [] { return msgpack_rt(ch::nanoseconds(-464707743)); }},
    {"msgpack-negative-timestamp", "timestamp 96 {-2208988801 s, 999999999 ns} is one nanosecond before 1900-01-01", [] {
        std::vector<uint8_t> in = {0xc7, 0x0c, 0xff, 0x3b, 0x9a, 0xc9, 0xff, 0xff, 0xff, 0xff, 0xff, 0x7c, 0x55, 0x81, 0x7f};
        auto ns = jsoncons::msgpack::decode_msgpack<ch::nanoseconds>(in).count();
        return ns == -2208988800000000001LL ? std::string() : "read as " + std::to_string(ns) + " ns"; }},
    {"duration-narrow-rep-scaled-late", "duration<int32_t>(882383709) in a BSON document", [] {
        std::map<std::string, ch::duration<int32_t>> m{{"v", ch::duration<int32_t>(882383709)}};
        std::vector<uint8_t> b; jsoncons::bson::encode_bson(m, b);
        auto got = jsoncons::bson::decode_bson<std::map<std::string, ch::duration<int32_t>>>(b)["v"].count();
        return got == 882383709 ? std::string() : "came back as " + std::to_string(got); }},
    {"bson-arrayroot-typed-array", "vector<int32_t>{1,2} as BSON root", [] {
        std::vector<int32_t> v{1, 2}; std::vector<uint8_t> b; jsoncons::bson::encode_bson(v, b);
        try { return jsoncons::bson::decode_bson<std::vector<int32_t>>(b) == v ? std::string() : std::string("different value"); } catch (const jsoncons::json_exception& e) { return std::string(e.what()); } }},
    {"bson-arrayroot-typed-array", "vector<double>{1.5} as BSON root", [] {
        std::vector<double> v{1.5}; std::vector<uint8_t> b; jsoncons::bson::encode_bson(v, b);
        try { return jsoncons::bson::decode_bson<std::vector<double>>(b) == v ? std::string() : std::string("different value"); } catch (const jsoncons::json_exception& e) { return std::string(e.what()); } }},
    {"try-as-bool-throws", "try_as<bool>() of an array", [] {
        try { auto r = json::parse("[1]").try_as<bool>(); return r ? std::string("accepted") : std::string(); } catch (const jsoncons::json_exception& e) { return std::string("threw ") + e.what(); } }},
    {"try-as-bool-throws", "try_decode_json<optional<bool>> of an object", [] {
        try { auto r = jsoncons::try_decode_json<std::optional<bool>>(std::string("{}")); return r ? std::string("accepted") : std::string(); } catch (const jsoncons::json_exception& e) { return std::string("threw ") + e.what(); } }},
    {"typed-array-trait-noncontiguous", "std::deque<int32_t> through the streaming traits", [] { return noncontiguous_typed_container<std::deque<int32_t>>(); }},
};

int main(int argc, char** argv) {
    H.parse(argc, argv);
    const long long n = (long long)(sizeof witnesses / sizeof witnesses[0]);
    if (H.opt_int("list", 0)) { for (const auto& w : witnesses) fprintf(stderr, "%s: %s\n", w.id, w.what); return 0; }
    H.count_("witnesses", (u64)n);
    auto body = [&](long long c) {
        if (c < 0 || c >= n) return;
        const Witness& w = witnesses[c];
        set_flight_desc(std::string("witness ") + w.id + ": " + w.what);
        H.note_distinct(hash_str(w.what, hash_str(w.id)));
        H.count_(std::string("witness-executed.") + w.id);
        std::string r = w.run();
        if (!r.empty()) H.violation(std::string("typed/witness/") + w.id, J().str("witness", w.what).str("observed", r).done());
        else H.count_(std::string("witness-behaves.") + w.id);
    };
    return H.run(body);
}
