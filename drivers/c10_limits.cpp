// C10 (part 1): nesting limits on every decoder and encoder path, UBJSON max_items, and the allocation meter:
// memory requested while decoding must be bounded by what was supplied/produced, never by a claimed length.
#include "common/jvalue.hpp"
#include <jsoncons/json.hpp>
#include <jsoncons_ext/cbor/cbor.hpp>
#include <jsoncons_ext/msgpack/msgpack.hpp>
#include <jsoncons_ext/ubjson/ubjson.hpp>
#include <jsoncons_ext/bson/bson.hpp>
#include <jsoncons_ext/csv/csv.hpp>
#include <sstream>
#include <new>
#include <atomic>

// ---- allocation meter: global operator new/delete replaced; counts bytes requested inside a window ----------
static std::atomic<bool> g_meter_on{false};
static size_t g_cur = 0, g_peak = 0, g_largest = 0, g_count = 0;
struct Hdr { size_t size; size_t magic; };
static void* meter_alloc(size_t n) {
    Hdr* h = (Hdr*)malloc(sizeof(Hdr) + n);
    if (!h) throw std::bad_alloc();
    h->size = n; h->magic = g_meter_on ? 0x4d455445ULL : 0;
    if (g_meter_on) { g_cur += n; ++g_count; if (g_cur > g_peak) g_peak = g_cur; if (n > g_largest) g_largest = n; }
    return h + 1;
}
static void meter_free(void* p) noexcept {
    if (!p) return; Hdr* h = (Hdr*)p - 1;
    if (h->magic == 0x4d455445ULL && g_meter_on) { g_cur = g_cur >= h->size ? g_cur - h->size : 0; }
    free(h);
}
void* operator new(size_t n) { return meter_alloc(n); }
void* operator new[](size_t n) { return meter_alloc(n); }
void* operator new(size_t n, const std::nothrow_t&) noexcept { try { return meter_alloc(n); } catch (...) { return nullptr; } }
void* operator new[](size_t n, const std::nothrow_t&) noexcept { try { return meter_alloc(n); } catch (...) { return nullptr; } }
void operator delete(void* p) noexcept { meter_free(p); }
void operator delete[](void* p) noexcept { meter_free(p); }
void operator delete(void* p, size_t) noexcept { meter_free(p); }
void operator delete[](void* p, size_t) noexcept { meter_free(p); }

using namespace vf;
using namespace jsoncons;
static Harness H;
using Bytes = std::vector<uint8_t>;

static void put_be(Bytes& b, u64 v, int n) { for (int i = n - 1; i >= 0; --i) b.push_back((uint8_t)(v >> (8 * i))); }
static void put_le32(Bytes& b, uint32_t v) { for (int i = 0; i < 4; ++i) b.push_back((uint8_t)(v >> (8 * i))); }

// ---- nested inputs, one builder per container-opening path --------------------------------------------------
struct Path { const char* fmt; const char* name; std::function<Bytes(int)> build; };

static Bytes js(const std::string& s) { return Bytes(s.begin(), s.end()); }
static Bytes rep(const Bytes& open, int d, const Bytes& leaf, const Bytes& close) { Bytes b; for (int i = 0; i < d; ++i) b.insert(b.end(), open.begin(), open.end()); b.insert(b.end(), leaf.begin(), leaf.end()); for (int i = 0; i < d; ++i) b.insert(b.end(), close.begin(), close.end()); return b; }
static Bytes bson_nest(int d, uint8_t type) {       // d >= 1: root document counts as depth 1
    Bytes inner = {5, 0, 0, 0, 0};                   // innermost empty document
    for (int i = 1; i < d; ++i) { Bytes doc; Bytes body; body.push_back(type); body.push_back(type == 4 ? '0' : 'a'); body.push_back(0); body.insert(body.end(), inner.begin(), inner.end()); put_le32(doc, (uint32_t)(4 + body.size() + 1)); doc.insert(doc.end(), body.begin(), body.end()); doc.push_back(0); inner = doc; }
    return inner;
}
static std::vector<Path> paths() {
    std::vector<Path> p;
    p.push_back({"json", "array", [](int d) { return rep(js("["), d, js("1"), js("]")); }});
    p.push_back({"json", "object", [](int d) { return rep(js("{\"a\":"), d, js("1"), js("}")); }});
    p.push_back({"json", "mixed", [](int d) { Bytes b; for (int i = 0; i < d; ++i) { auto o = js(i % 2 ? "{\"k\":" : "["); b.insert(b.end(), o.begin(), o.end()); } b.push_back('0'); for (int i = d - 1; i >= 0; --i) b.push_back(i % 2 ? '}' : ']'); return b; }});
    p.push_back({"cbor", "array-definite", [](int d) { return rep({0x81}, d, {0x00}, {}); }});
    p.push_back({"cbor", "array-indefinite", [](int d) { return rep({0x9f}, d, {0x00}, {0xff}); }});
    p.push_back({"cbor", "array-2byte-len", [](int d) { return rep({0x98, 0x01}, d, {0x00}, {}); }});
    p.push_back({"cbor", "map-definite", [](int d) { return rep({0xa1, 0x61, 'a'}, d, {0x00}, {}); }});
    p.push_back({"cbor", "map-indefinite", [](int d) { return rep({0xbf, 0x61, 'a'}, d, {0x00}, {0xff}); }});
    p.push_back({"cbor", "tagged-array", [](int d) { return rep({0xd8, 0x63, 0x81}, d, {0x00}, {}); }});
    p.push_back({"cbor", "stringref-namespace", [](int d) { return rep({0xd9, 0x01, 0x00, 0x81}, d, {0x00}, {}); }});
    // three multi-dimensional arrays (tag 40, classical array storage, depth at most 4) as siblings in front of the deep chain: the depth
    // bookkeeping of one container-opening path must not leak into the rest of the document
    p.push_back({"cbor", "array-after-multi-dim-siblings", [](int d) { if (d < 6) return rep({0x81}, d, {0x00}, {}); Bytes md = {0xd8, 0x28, 0x82, 0x82, 0x02, 0x02, 0x84, 1, 2, 3, 4}; Bytes b = {0x84};
        for (int i = 0; i < 3; ++i) b.insert(b.end(), md.begin(), md.end()); Bytes c = rep({0x81}, d - 1, {0x00}, {}); b.insert(b.end(), c.begin(), c.end()); return b; }});
    p.push_back({"cbor", "array-after-typed-array-siblings", [](int d) { if (d < 6) return rep({0x81}, d, {0x00}, {}); Bytes ta = {0xd8, 0x40, 0x43, 1, 2, 3}; Bytes b = {0x84};
        for (int i = 0; i < 3; ++i) b.insert(b.end(), ta.begin(), ta.end()); Bytes c = rep({0x81}, d - 1, {0x00}, {}); b.insert(b.end(), c.begin(), c.end()); return b; }});
    // three sibling chains inside one array: a level that is not given back when a container closes uses up the budget of the next sibling
    auto sib = [](const Bytes& open3, const Bytes& close3, const Bytes& sep, std::function<Bytes(int)> chain) { return [=](int d) { if (d < 2) return chain(d); Bytes b = open3; for (int i = 0; i < 3; ++i) { if (i) b.insert(b.end(), sep.begin(), sep.end()); Bytes c = chain(d - 1); b.insert(b.end(), c.begin(), c.end()); } b.insert(b.end(), close3.begin(), close3.end()); return b; }; };
    p.push_back({"json", "sibling-object-chains", sib(js("["), js("]"), js(","), [](int d) { return rep(js("{\"a\":"), d, js("1"), js("}")); })});
    p.push_back({"json", "sibling-array-chains", sib(js("["), js("]"), js(","), [](int d) { return rep(js("["), d, js("1"), js("]")); })});
    p.push_back({"cbor", "sibling-map-chains", sib({0x83}, {}, {}, [](int d) { return rep({0xa1, 0x61, 'a'}, d, {0x00}, {}); })});
    p.push_back({"cbor", "sibling-indefinite-array-chains", sib({0x9f}, {0xff}, {}, [](int d) { return rep({0x9f}, d, {0x00}, {0xff}); })});
    p.push_back({"msgpack", "sibling-map-chains", sib({0x93}, {}, {}, [](int d) { return rep({0x81, 0xa1, 'a'}, d, {0x00}, {}); })});
    p.push_back({"msgpack", "sibling-array-chains", sib({0x93}, {}, {}, [](int d) { return rep({0x91}, d, {0x00}, {}); })});
    p.push_back({"ubjson", "sibling-object-chains", sib({'['}, {']'}, {}, [](int d) { return rep({'{', 'U', 1, 'a'}, d, {'Z'}, {'}'}); })});
    p.push_back({"ubjson", "sibling-array-chains", sib({'['}, {']'}, {}, [](int d) { return rep({'['}, d, {'Z'}, {']'}); })});
    p.push_back({"ubjson", "sibling-counted-object-chains", sib({'[', '#', 'U', 3}, {}, {}, [](int d) { return rep({'{', '#', 'U', 1, 'U', 1, 'a'}, d, {'Z'}, {}); })});
    p.push_back({"msgpack", "fixarray", [](int d) { return rep({0x91}, d, {0x00}, {}); }});
    p.push_back({"msgpack", "array16", [](int d) { return rep({0xdc, 0x00, 0x01}, d, {0x00}, {}); }});
    p.push_back({"msgpack", "array32", [](int d) { return rep({0xdd, 0, 0, 0, 1}, d, {0x00}, {}); }});
    p.push_back({"msgpack", "fixmap", [](int d) { return rep({0x81, 0xa1, 'a'}, d, {0x00}, {}); }});
    p.push_back({"msgpack", "map16", [](int d) { return rep({0xde, 0x00, 0x01, 0xa1, 'a'}, d, {0x00}, {}); }});
    p.push_back({"msgpack", "map32", [](int d) { return rep({0xdf, 0, 0, 0, 1, 0xa1, 'a'}, d, {0x00}, {}); }});
    p.push_back({"ubjson", "array", [](int d) { return rep({'['}, d, {'Z'}, {']'}); }});
    p.push_back({"ubjson", "array-counted", [](int d) { return rep({'[', '#', 'U', 1}, d, {'Z'}, {}); }});
    p.push_back({"ubjson", "array-typed", [](int d) { if (d == 0) return Bytes{'Z'}; Bytes b = {'[', '$', '[', '#', 'U', 1}; for (int i = 2; i < d; ++i) { Bytes o = {'$', '[', '#', 'U', 1}; b.insert(b.end(), o.begin(), o.end()); } if (d >= 2) { Bytes o = {'#', 'U', 0}; b.insert(b.end(), o.begin(), o.end()); } else { b = {'[', '#', 'U', 0}; } return b; }});
    p.push_back({"ubjson", "object", [](int d) { return rep({'{', 'U', 1, 'a'}, d, {'Z'}, {'}'}); }});
    p.push_back({"ubjson", "object-counted", [](int d) { return rep({'{', '#', 'U', 1, 'U', 1, 'a'}, d, {'Z'}, {}); }});
    p.push_back({"bson", "document", [](int d) { return d == 0 ? Bytes{} : bson_nest(d, 3); }});
    p.push_back({"bson", "array", [](int d) { return d == 0 ? Bytes{} : bson_nest(d, 4); }});
    return p;
}

struct DecRes { bool ok; std::error_code ec; };
static DecRes decode(const std::string& fmt, const Bytes& b, int L, int route, long long max_items = -1) {
    DecRes r{true, {}};
    std::string s((const char*)b.data(), b.size());
    try {
        if (fmt == "json") { json_options o; o.max_nesting_depth(L); json_decoder<json> d; if (route == 0) { json_string_reader rd(s, d, o); rd.read(r.ec); } else if (route == 1) { std::istringstream is(s); json_stream_reader rd(is, d, o); rd.read(r.ec); } else { json_string_cursor c(s, o, r.ec); while (!r.ec && !c.done()) c.next(r.ec); } }
        else if (fmt == "cbor") { cbor::cbor_options o; o.max_nesting_depth(L); json_decoder<json> d; if (route == 0) { cbor::cbor_bytes_reader rd(b, d, o); rd.read(r.ec); } else if (route == 1) { std::istringstream is(s); cbor::cbor_stream_reader rd(is, d, o); rd.read(r.ec); } else { cbor::cbor_bytes_cursor c(b, o, r.ec); while (!r.ec && !c.done()) c.next(r.ec); } }
        else if (fmt == "msgpack") { msgpack::msgpack_options o; o.max_nesting_depth(L); json_decoder<json> d; if (route == 0) { msgpack::msgpack_bytes_reader rd(b, d, o); rd.read(r.ec); } else if (route == 1) { std::istringstream is(s); msgpack::msgpack_stream_reader rd(is, d, o); rd.read(r.ec); } else { msgpack::msgpack_bytes_cursor c(b, o, r.ec); while (!r.ec && !c.done()) c.next(r.ec); } }
        else if (fmt == "ubjson") { ubjson::ubjson_options o; o.max_nesting_depth(L); if (max_items >= 0) o.max_items((size_t)max_items); json_decoder<json> d; if (route == 0) { ubjson::ubjson_bytes_reader rd(b, d, o); rd.read(r.ec); } else if (route == 1) { std::istringstream is(s); ubjson::ubjson_stream_reader rd(is, d, o); rd.read(r.ec); } else { ubjson::ubjson_bytes_cursor c(b, o, r.ec); while (!r.ec && !c.done()) c.next(r.ec); } }
        else { bson::bson_options o; o.max_nesting_depth(L); json_decoder<json> d; if (route == 0) { bson::bson_bytes_reader rd(b, d, o); rd.read(r.ec); } else if (route == 1) { std::istringstream is(s); bson::bson_stream_reader rd(is, d, o); rd.read(r.ec); } else { bson::bson_bytes_cursor c(b, o, r.ec); while (!r.ec && !c.done()) c.next(r.ec); } }
    } catch (const ser_error& e) { r.ec = e.code(); }
    catch (const std::exception& e) { H.violation(std::string("limits/decode/") + fmt + "/escaped-" + current_exception_type(), J().str("what", e.what()).num("limit", L).num("route", route).str("input", hex(b).substr(0, 200)).done()); r.ec = std::make_error_code(std::errc::invalid_argument); }
    r.ok = !r.ec;
    return r;
}
static bool is_depth_error(const std::error_code& ec) { return ec.message().find("nesting") != std::string::npos || ec.message().find("Nesting") != std::string::npos; }

static void depth_cell(const Path& p, int L) {
    for (int dd = -1; dd <= 1; ++dd) {
        int d = L + dd;
        if (d < 0) continue;
        if (std::string(p.fmt) == "bson" && d == 0) continue;                 // a BSON input is at least one document
        Bytes b = p.build(d);
        for (int route = 0; route < 3; ++route) {
            DecRes r = decode(p.fmt, b, L, route);
            H.count_(std::string("depth.") + p.fmt + "." + p.name);
            static const char* rn[] = {"reader", "stream-reader", "cursor"};
            std::string sig = std::string("limits/depth/") + p.fmt + "/" + p.name + "/" + rn[route];
            auto det = [&]() { return J().num("limit", L).num("depth", d).str("result", r.ok ? "accepted" : r.ec.message()).done(); };
            if (d <= L && !r.ok) H.violation(sig + (dd == 0 ? "/rejected-at-limit" : "/rejected-below-limit"), det());
            if (d > L && r.ok) H.violation(sig + "/accepted-above-limit", det());
            if (d > L && !r.ok && !is_depth_error(r.ec)) H.violation(sig + "/wrong-error-above-limit", det());
        }
    }
}

// ---- encoders ------------------------------------------------------------------------------------------------
static json nested_value(int d, int kind) {
    json v(kind == 1 ? json(json_object_arg) : json(json_array_arg));
    if (d == 0) return json(1);
    // innermost container first, wrap iteratively (no recursion)
    for (int i = 1; i < d; ++i) {
        bool obj = kind == 1 || (kind == 2 && (i % 2));
        json w(obj ? json(json_object_arg) : json(json_array_arg));
        if (obj) w.try_emplace("a", std::move(v)); else w.push_back(std::move(v));
        v = std::move(w);
    }
    return v;
}
static void encoder_cell(int L, int kind) {
    static const char* kn[] = {"array", "object", "mixed"};
    for (int dd = -1; dd <= 1; ++dd) {
        int d = L + dd; if (d < 0) continue;
        json v = nested_value(d, kind);
        for (int f = 0; f < 7; ++f) {
            static const char* fn[] = {"json", "cbor", "msgpack", "ubjson", "bson", "json-pretty", "csv"};
            if (f == 6 && (kind != 0 || d == 0 || L == 0)) continue;   // CSV: arrays nested in arrays (rows, fields, subfields ...)
            if (f == 4 && (kind == 0 || d == 0)) continue;     // BSON root must be a document
            std::error_code ec;
            try {
                switch (f) {
                case 0: { std::string s; json_options o; o.max_nesting_depth(L); v.dump(s, o, indenting::no_indent, ec); break; }     // compact encoder, every depth
                case 5: { std::string s; json_options o; o.max_nesting_depth(L); v.dump(s, o, indenting::indent, ec); break; }        // pretty encoder, every depth
                case 6: { std::string s; csv::csv_options o; o.max_nesting_depth(L); csv::csv_string_encoder e(s, o); v.dump(e, ec); break; }
                case 1: { Bytes b; cbor::cbor_options o; o.max_nesting_depth(L); cbor::cbor_bytes_encoder e(b, o); v.dump(e, ec); break; }
                case 2: { Bytes b; msgpack::msgpack_options o; o.max_nesting_depth(L); msgpack::msgpack_bytes_encoder e(b, o); v.dump(e, ec); break; }
                case 3: { Bytes b; ubjson::ubjson_options o; o.max_nesting_depth(L); ubjson::ubjson_bytes_encoder e(b, o); v.dump(e, ec); break; }
                default: { Bytes b; bson::bson_options o; o.max_nesting_depth(L); bson::bson_bytes_encoder e(b, o); v.dump(e, ec); break; }
                }
            } catch (const ser_error& e) { ec = e.code(); }
            catch (const std::exception& e) { H.violation(std::string("limits/encoder-depth/") + fn[f] + "/escaped-" + current_exception_type(), J().str("what", e.what()).num("limit", L).num("depth", d).str("kind", kn[kind]).done()); continue; }
            H.count_(std::string("encoder_depth.") + fn[f]);
            std::string sig = std::string("limits/encoder-depth/") + fn[f] + "/" + kn[kind];
            auto det = [&]() { return J().num("limit", L).num("depth", d).str("result", ec ? ec.message() : "written").done(); };
            if (d <= L && ec) H.violation(sig + (dd == 0 ? "/refused-at-limit" : "/refused-below-limit"), det());
            if (d > L && !ec) H.violation(sig + "/written-above-limit", det());
            if (d > L && ec && !is_depth_error(ec)) H.violation(sig + "/wrong-error-above-limit", det());
        }
        // destroy iteratively-built deep values without relying on anything but the library's own destructor
    }
}

// ---- UBJSON max_items ---------------------------------------------------------------------------------------
static void max_items_cell(size_t N) {
    struct P { const char* name; std::function<Bytes(size_t)> build; };
    auto cnt = [](Bytes& b, size_t n) { if (n <= 255) { b.push_back('U'); b.push_back((uint8_t)n); } else { b.push_back('l'); put_be(b, n, 4); } };
    std::vector<P> ps = {
        {"array-counted", [&](size_t n) { Bytes b = {'[', '#'}; cnt(b, n); for (size_t i = 0; i < n; ++i) b.push_back('Z'); return b; }},
        {"array-typed", [&](size_t n) { Bytes b = {'[', '$', 'i', '#'}; cnt(b, n); for (size_t i = 0; i < n; ++i) b.push_back(7); return b; }},
        {"array-typed-uint8", [&](size_t n) { Bytes b = {'[', '$', 'U', '#'}; cnt(b, n); for (size_t i = 0; i < n; ++i) b.push_back(7); return b; }},
        {"object-counted", [&](size_t n) { Bytes b = {'{', '#'}; cnt(b, n); for (size_t i = 0; i < n; ++i) { std::string k = "k" + std::to_string(i); b.push_back('U'); b.push_back((uint8_t)k.size()); b.insert(b.end(), k.begin(), k.end()); b.push_back('Z'); } return b; }},
        {"object-typed", [&](size_t n) { Bytes b = {'{', '$', 'i', '#'}; cnt(b, n); for (size_t i = 0; i < n; ++i) { std::string k = "k" + std::to_string(i); b.push_back('U'); b.push_back((uint8_t)k.size()); b.insert(b.end(), k.begin(), k.end()); b.push_back(7); } return b; }},
    };
    for (auto& p : ps) for (int dd = -1; dd <= 1; ++dd) {
        if ((long)N + dd < 0) continue;
        size_t n = N + dd;
        Bytes b = p.build(n);
        for (int route = 0; route < 3; ++route) {
            DecRes r = decode("ubjson", b, 1024, route, (long long)N);
            H.count_("max_items.cells");
            std::string sig = std::string("limits/ubjson-max-items/") + p.name;
            auto det = [&]() { return J().unum("max_items", N).unum("announced", n).str("result", r.ok ? "accepted" : r.ec.message()).done(); };
            if (n <= N && !r.ok) H.violation(sig + "/refused-within-limit", det());
            if (n > N && r.ok) H.violation(sig + "/accepted-above-limit", det());
        }
    }
}

// ---- allocation meter ----------------------------------------------------------------------------------------
struct Claim { const char* fmt; const char* name; std::function<Bytes(u64)> head; u64 max_claim; };
static std::vector<Claim> claims() {
    std::vector<Claim> c;
    auto cb = [](uint8_t ib8, uint8_t ib4) { return [=](u64 n) { Bytes b; if (n > 0xffffffffULL) { b.push_back(ib8); put_be(b, n, 8); } else { b.push_back(ib4); put_be(b, n, 4); } return b; }; };
    c.push_back({"cbor", "array", cb(0x9b, 0x9a), UINT64_MAX}); c.push_back({"cbor", "map", cb(0xbb, 0xba), UINT64_MAX});
    c.push_back({"cbor", "text", cb(0x7b, 0x7a), UINT64_MAX}); c.push_back({"cbor", "bytes", cb(0x5b, 0x5a), UINT64_MAX});
    c.push_back({"cbor", "typed-array-u8", [=](u64 n) { Bytes b = {0xd8, 0x40}; auto t = cb(0x5b, 0x5a)(n); b.insert(b.end(), t.begin(), t.end()); return b; }, UINT64_MAX});
    c.push_back({"cbor", "typed-array-f64", [=](u64 n) { Bytes b = {0xd8, 0x56}; auto t = cb(0x5b, 0x5a)(n); b.insert(b.end(), t.begin(), t.end()); return b; }, UINT64_MAX});
    c.push_back({"cbor", "bignum", [=](u64 n) { Bytes b = {0xc2}; auto t = cb(0x5b, 0x5a)(n); b.insert(b.end(), t.begin(), t.end()); return b; }, UINT64_MAX});
    c.push_back({"cbor", "indefinite-text-chunk", [=](u64 n) { Bytes b = {0x7f}; auto t = cb(0x7b, 0x7a)(n); b.insert(b.end(), t.begin(), t.end()); return b; }, UINT64_MAX});
    auto mp = [](uint8_t ib) { return [=](u64 n) { Bytes b; b.push_back(ib); put_be(b, n, 4); return b; }; };
    c.push_back({"msgpack", "array32", mp(0xdd), 0xffffffffULL}); c.push_back({"msgpack", "map32", mp(0xdf), 0xffffffffULL}); c.push_back({"msgpack", "str32", mp(0xdb), 0xffffffffULL});
    c.push_back({"msgpack", "bin32", mp(0xc6), 0xffffffffULL}); c.push_back({"msgpack", "ext32", [=](u64 n) { Bytes b = mp(0xc9)(n); b.push_back(5); return b; }, 0xffffffffULL});
    auto ub = [](std::initializer_list<uint8_t> pre) { Bytes p(pre); return [=](u64 n) { Bytes b = p; b.push_back('L'); put_be(b, n, 8); return b; }; };
    c.push_back({"ubjson", "array-counted", ub({'[', '#'}), (u64)INT64_MAX}); c.push_back({"ubjson", "array-typed-d", ub({'[', '$', 'd', '#'}), (u64)INT64_MAX}); c.push_back({"ubjson", "array-typed-U", ub({'[', '$', 'U', '#'}), (u64)INT64_MAX});
    c.push_back({"ubjson", "object-counted", ub({'{', '#'}), (u64)INT64_MAX}); c.push_back({"ubjson", "string", ub({'S'}), (u64)INT64_MAX}); c.push_back({"ubjson", "hpn", ub({'H'}), (u64)INT64_MAX});
    c.push_back({"bson", "document", [](u64 n) { Bytes b; put_le32(b, (uint32_t)n); return b; }, 0x7fffffffULL});
    c.push_back({"bson", "string", [](u64 n) { Bytes b = {0, 0, 0, 0, 2, 'a', 0}; put_le32(b, (uint32_t)n); return b; }, 0x7fffffffULL});
    c.push_back({"bson", "binary", [](u64 n) { Bytes b = {0, 0, 0, 0, 5, 'a', 0}; put_le32(b, (uint32_t)n); b.push_back(0); return b; }, 0x7fffffffULL});
    c.push_back({"bson", "nested-document", [](u64 n) { Bytes b = {0, 0, 0, 0, 3, 'a', 0}; put_le32(b, (uint32_t)n); return b; }, 0x7fffffffULL});
    return c;
}
// bound: fixed overhead A (parser buffers, 16 KiB source chunk, decoder state) + B * (bytes supplied + bytes of the value produced)
static const size_t METER_A = 96 * 1024, METER_B = 24;

static void claim_cell(const Claim& cl, u64 n, size_t extra, Rng& r) {
    Bytes b = cl.head(n);
    if (std::string(cl.fmt) == "bson" && std::string(cl.name) != "document") { /* outer length: honest for what is supplied */ uint32_t tot = (uint32_t)(b.size() + extra + 1); b[0] = (uint8_t)tot; b[1] = (uint8_t)(tot >> 8); b[2] = (uint8_t)(tot >> 16); b[3] = (uint8_t)(tot >> 24); }
    for (size_t i = 0; i < extra; ++i) b.push_back((uint8_t)(r.chance(1, 2) ? r.next() : 0x61));
    for (int route = 0; route < 3; ++route) {
        std::string s((const char*)b.data(), b.size());
        std::error_code ec; size_t produced = 0;
        g_cur = g_peak = g_largest = g_count = 0; g_meter_on = true;
        try {
            json v;
            std::string f = cl.fmt;
            if (f == "cbor") { if (route == 0) v = cbor::decode_cbor<json>(b); else if (route == 1) { std::istringstream is(s); v = cbor::decode_cbor<json>(is); } else v = cbor::decode_cbor<json>(b.begin(), b.end()); }
            else if (f == "msgpack") { if (route == 0) v = msgpack::decode_msgpack<json>(b); else if (route == 1) { std::istringstream is(s); v = msgpack::decode_msgpack<json>(is); } else v = msgpack::decode_msgpack<json>(b.begin(), b.end()); }
            else if (f == "ubjson") { if (route == 0) v = ubjson::decode_ubjson<json>(b); else if (route == 1) { std::istringstream is(s); v = ubjson::decode_ubjson<json>(is); } else v = ubjson::decode_ubjson<json>(b.begin(), b.end()); }
            else { if (route == 0) v = bson::decode_bson<json>(b); else if (route == 1) { std::istringstream is(s); v = bson::decode_bson<json>(is); } else v = bson::decode_bson<json>(b.begin(), b.end()); }
            g_meter_on = false;
            std::string d; v.dump(d); produced = d.size();
        } catch (const ser_error& e) { g_meter_on = false; ec = e.code(); }
        catch (const std::bad_alloc&) { g_meter_on = false; ec = std::make_error_code(std::errc::not_enough_memory); g_peak = (size_t)-1; }
        catch (const std::length_error&) { g_meter_on = false; ec = std::make_error_code(std::errc::value_too_large); g_peak = (size_t)-1; }
        g_meter_on = false;
        static const char* rn[] = {"bytes", "stream", "iterator"};
        size_t bound = METER_A + METER_B * (b.size() + produced);
        H.count_(std::string("claims.") + cl.fmt + "." + cl.name);
        u64& mx = H.counters[std::string("claims.max_peak_bytes.") + cl.fmt]; if (g_peak != (size_t)-1 && g_peak > mx) mx = g_peak;
        if (g_peak > bound)
            H.violation(std::string("limits/claimed-length/") + cl.fmt + "/" + cl.name + "/" + rn[route] + (g_peak == (size_t)-1 ? "/bad_alloc-or-length_error" : "/memory-proportional-to-claim"),
                        J().unum("claimed", n).unum("supplied_bytes", b.size()).unum("peak_bytes", g_peak).unum("largest_request", g_largest).unum("bound", bound).str("outcome", ec ? ec.message() : "decoded").str("input", hex(b).substr(0, 200)).done());
    }
}

int main(int argc, char** argv) {
    H.parse(argc, argv);
    bool thorough = H.tier == "thorough";
    std::vector<Path> ps = paths();
    std::vector<Claim> cs = claims();
    std::vector<int> Ls = {0, 1, 2, 3, 7, 64, 1023, 1024, 1025};
    static const u64 claim_ns[] = {1ULL << 16, 1ULL << 20, (1ULL << 24) - 1, 1ULL << 24, (1ULL << 24) + 1, 1ULL << 28, (1ULL << 31) - 1, 1ULL << 31, (1ULL << 32) - 1, 1ULL << 32, 1ULL << 40, 1ULL << 62, (1ULL << 63) - 1, 1ULL << 63, UINT64_MAX};
    auto body = [&](long long c) {
        Rng r = H.case_rng(c);
        unsigned kind = (unsigned)(c % 4);
        H.note_distinct((u64)c);
        if (kind == 0) {            // decoder depth cell
            const Path& p = ps[(size_t)(c / 4) % ps.size()];
            int L = thorough ? (int)r.below(r.chance(1, 20) ? 20001 : 1100) : (r.chance(1, 60) ? 20000 : (r.coin() ? r.pick(Ls) : (int)r.below(80)));
            set_flight_desc(std::string("depth ") + p.fmt + " " + p.name + " L=" + std::to_string(L));
            depth_cell(p, L);
            if (H.sample_seen < 6) H.sample(J().str("cell", std::string("depth ") + p.fmt + "/" + p.name).num("limit", L).done()); else ++H.sample_seen;
        } else if (kind == 1) {     // encoder depth cell
            int L = thorough ? (int)r.below(r.chance(1, 20) ? 5001 : 1100) : (r.coin() ? r.pick(Ls) : (int)r.below(80));
            set_flight_desc("encoder-depth L=" + std::to_string(L));
            encoder_cell(L, (int)r.below(3));
        } else if (kind == 2) {     // allocation meter
            const Claim& cl = cs[(size_t)(c / 4) % cs.size()];
            u64 n = r.chance(3, 4) ? r.pick(claim_ns) : (r.next() >> r.below(48));
            if (n > cl.max_claim) n = cl.max_claim;
            if (n < (1u << 16)) n = 1u << 16;
            size_t extra = r.below(65);
            set_flight_desc(std::string("claim ") + cl.fmt + " " + cl.name + " n=" + std::to_string(n));
            claim_cell(cl, n, extra, r);
            if (H.sample_seen < 12 && c % 8 == 2) H.sample(J().str("cell", std::string("claim ") + cl.fmt + "/" + cl.name).unum("claimed", n).unum("extra_bytes", extra).done());
        } else {                    // UBJSON max_items
            size_t N = r.coin() ? r.below(6) : (r.coin() ? 10 + r.below(300) : (thorough ? r.below(5000) : 1000));
            set_flight_desc("max_items N=" + std::to_string(N));
            max_items_cell(N);
        }
    };
    auto regress = [&]() {
        for (auto& p : ps) for (int L : Ls) depth_cell(p, L);
        for (int L : Ls) for (int k = 0; k < 3; ++k) encoder_cell(L, k);
        Rng r(1); for (auto& cl : cs) for (u64 n : claim_ns) { if (n <= cl.max_claim) { claim_cell(cl, n, 0, r); claim_cell(cl, n, 12, r); } }
        for (size_t N : {(size_t)0, (size_t)1, (size_t)2, (size_t)255, (size_t)256, (size_t)1000}) max_items_cell(N);
    };
    return H.run(body, regress);
}
