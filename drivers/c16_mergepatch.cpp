// C16: JSON Merge Patch follows RFC 7386.
// Oracle: the RFC 7386 MergePatch pseudo-code transcribed over the independent model MV;
// diff law apply(source, from_diff(source, target)) == target for targets without null members.
#include "common/model.hpp"
#include <jsoncons/json.hpp>
#include <jsoncons_ext/mergepatch/mergepatch.hpp>

using namespace vf;
using jsoncons::json;
using jsoncons::ojson;

// RFC 7386 section 2, transcribed.
static MV merge_patch(MV target, const MV& patch) {
    if (patch.k == MV::Obj) {
        if (target.k != MV::Obj) target = MV::obj();
        for (auto& kv : patch.o) {
            if (kv.second.k == MV::Null) { target.erase(kv.first); }
            else {
                MV* cur = target.find(kv.first);
                if (cur) { MV nv = merge_patch(*cur, kv.second); *target.find(kv.first) = nv; }
                else target.o.emplace_back(kv.first, merge_patch(MV::null() /* undefined */, kv.second));
            }
        }
        return target;
    }
    return patch;
}

static Harness H;

template <class Json>
static void one(const char* policy, const MV& t, const MV& p, const MV& src, const MV& dst) {
    // apply
    {
        Json target = mv_to_json<Json>(t);
        const Json patch = mv_to_json<Json>(p);
        std::string patch_before = mv_dump(mv_from_json(patch), true);
        jsoncons::mergepatch::apply_merge_patch(target, patch);
        std::string got = mv_dump(mv_from_json(target), true);
        std::string want = mv_dump(merge_patch(t, p), true);
        H.count_("apply");
        if (p.k != MV::Obj) H.count_("apply.patch_not_object");
        if (t.k != MV::Obj) H.count_("apply.target_not_object");
        if (got != want)
            H.violation(std::string("mergepatch/apply/") + policy + (t.k != MV::Obj ? "/nonobject-target" : "/object-target"),
                        J().str("target", mv_dump(t, true)).str("patch", mv_dump(p, true)).str("got", got).str("want", want).done());
        if (mv_dump(mv_from_json(patch), true) != patch_before)
            H.violation(std::string("mergepatch/apply/") + policy + "/patch-modified", J().str("patch", patch_before).done());
    }
    // diff law
    {
        Json a = mv_to_json<Json>(src);
        Json b = mv_to_json<Json>(dst);
        Json d = jsoncons::mergepatch::from_diff(a, b);
        Json a2 = a;
        jsoncons::mergepatch::apply_merge_patch(a2, d);
        bool pre = !mv_has_null_member(dst);
        H.count_(pre ? "diff.judged" : "diff.skipped_null_member_target");
        if (pre) {
            std::string got = mv_dump(mv_from_json(a2), true), want = mv_dump(dst, true);
            if (got != want)
                H.violation(std::string("mergepatch/diff-law/") + policy,
                            J().str("source", mv_dump(src, true)).str("target", want).str("diff", mv_dump(mv_from_json(d), true)).str("got", got).done());
        }
    }
}

static MV mutate(Rng& r, const MV& m, const MGen& g) {
    MV c = m;
    if (c.k == MV::Obj && !c.o.empty() && r.chance(3, 4)) {
        size_t j = r.below(c.o.size());
        switch (r.below(3)) {
        case 0: c.o.erase(c.o.begin() + (long)j); break;
        case 1: c.o[j].second = mutate(r, c.o[j].second, g); break;
        default: { const std::string& k = r.pick(g.keys); if (!c.find(k)) c.o.emplace_back(k, gen_mv(r, g, 2)); } break;
        }
        return c;
    }
    if (c.k == MV::Arr && !c.a.empty() && r.coin()) { size_t j = r.below(c.a.size()); c.a[j] = mutate(r, c.a[j], g); return c; }
    return gen_mv(r, g, 1);
}

int main(int argc, char** argv) {
    H.parse(argc, argv);
    MGen g; g.max_depth = 4; g.max_width = 4; g.keys = {"a", "b", "c", "", "k~/\"", "long_member_name_beyond_sso"};
    auto body = [&](long long c) {
        Rng r = H.case_rng(c);
        MV t = gen_mv(r, g), p;
        switch (r.below(4)) {
        case 0: p = gen_mv(r, g); break;
        case 1: p = mutate(r, t, g); break;                       // shares names with the target
        default: { p = mutate(r, mutate(r, t, g), g);
                   // sprinkle nulls at top level: deletion requests
                   if (p.k == MV::Obj) for (auto& kv : p.o) if (r.chance(1, 3)) kv.second = MV::null(); } break;
        }
        MGen gn = g; gn.nulls = r.chance(1, 5);                    // diff law precondition: mostly null-free targets
        MV src = r.coin() ? t : gen_mv(r, g);
        MV dst = r.coin() ? mutate(r, src, gn) : gen_mv(r, gn);
        if (!gn.nulls && mv_has_null_member(dst)) dst = gen_mv(r, gn);
        std::string key = mv_dump(t, false) + "|" + mv_dump(p, false) + "|" + mv_dump(src, false) + "|" + mv_dump(dst, false);
        bool nt = (t.k == MV::Obj && !t.o.empty()) || (p.k == MV::Obj && !p.o.empty());
        if (nt) H.note_distinct(hash_str(key));
        if (H.sample_seen < 50 || r.chance(1, 500)) H.sample(J().str("target", mv_dump(t, false)).str("patch", mv_dump(p, false)).done());
        else ++H.sample_seen;
        one<json>("json", t, p, src, dst);
        one<ojson>("ojson", t, p, src, dst);
    };
    auto regress = [&]() {
        // RFC 7386 appendix A examples (target, patch) are covered by construction of the model;
        // fixed regression: non-object target with nested nulls in patch
        MV t = MV::str("x"); MV p = MV::obj(); MV inner = MV::obj(); inner.o.emplace_back("b", MV::null()); inner.o.emplace_back("c", MV::integer(1)); p.o.emplace_back("a", inner);
        one<json>("json", t, p, t, p); one<ojson>("ojson", t, p, t, p);
    };
    return H.run(body, regress);
}
