// C05 (part 2): no string given to the JSONPath, JMESPath, JSON Pointer, URI or JSON Schema compilers (and no
// document given to the compiled artifact) can make them misbehave.
#include "common/jvalue.hpp"
#include "common/mutate.hpp"
#include "common/robust.hpp"
#include <jsoncons/json.hpp>
#include <jsoncons_ext/jsonpath/jsonpath.hpp>
#include <jsoncons_ext/jmespath/jmespath.hpp>
#include <jsoncons_ext/jsonpointer/jsonpointer.hpp>
#include <jsoncons_ext/jsonpatch/jsonpatch.hpp>
#include <jsoncons_ext/mergepatch/mergepatch.hpp>
#include <jsoncons_ext/jsonschema/jsonschema.hpp>
#include <jsoncons/utility/uri.hpp>
#include <sstream>

using namespace jsoncons;
namespace vf { Harness* g_robust_harness = nullptr; std::string g_robust_input; }
using namespace vf;
static Harness H;

static const char* DOCS[] = {
    R"({"store":{"book":[{"category":"reference","author":"Nigel Rees","title":"Sayings of the Century","price":8.95},{"category":"fiction","author":"Evelyn Waugh","title":"Sword of Honour","price":12.99},{"category":"fiction","author":"J. R. R. Tolkien","title":"The Lord of the Rings","isbn":"0-395-19395-8","price":22.99}],"bicycle":{"color":"red","price":19.95}},"expensive":10})",
    R"({"people":[{"name":"a","age":30,"tags":["x","y"]},{"name":"b","age":25,"tags":[]},{"name":"c","age":41,"tags":["z"]}],"m":{"k1":1,"k2":[1,2,3]},"s":"text","n":null,"f":1.5,"big":18446744073709551616})",
    R"([[1,2,[3,[4,[5]]]],{"a":{"b":{"c":{"d":[1,2,3]}}}},"text",12345678901234567890,-1.25e-3,true,null,{"":0,"k~/\"":1,"a/b":2,"m~n":3}])",
    R"([])", R"({})", R"(null)", R"("just a string")", R"([1,"a",null,[],{},1.5,true])",
};
static const std::vector<std::string> JSONPATH_SEEDS = {"$^", "$^^", "$.store^^^", "$.store.book[0]^^^^^", "$..book[?(@.price > 1)]^^^^", "$[*]^^.x", "$.store.book[*].author", "$..price", "$.store.book[?(@.price < 10)].title", "$..book[-1:]", "$.store.*", "$..book[?(@.isbn)]", "$.store.book[?(@.category == 'fiction' && @.price > 20)]", "$..*", "sum($..price)",
    "$.store.book[0,1]['author','title']", "$.people[?(@.age > 26)].name", "$.store.book[?(@.author =~ /Evelyn.*?/)]", "length($..book[*])", "$..book[?(@.price > $.expensive)].title", "$[0][2][1]", "$..d[1:]", "max($.store.book[*].price)", "keys($.m)",
    "$.people[*].tags[*]", "$.store.book[1:3:1]", "$.store.book[::-1]", "$..book[?(@.price*2 > 20 || !@.isbn)]^", "$['store']['book'][0]['title']", "$.store.book[?(tokenize(@.author,'\\\\s+')[1] == 'Waugh')]", "$[?(@ == 1)]", "$.store.book[(@.length-1)]", "abs(-1)", "avg($..price)", "ceil(1.5)", "contains($.s,'t')", "ends_with($.s,'xt')", "floor(2.5)", "min($..price)", "prod($..k2[*])", "starts_with($.s,'te')", "to_number('1.5')", "$.x.y.z", "$..['a','b']", "$[*]", "@", "$.`len`"};
static const std::vector<std::string> JSONPATH_DICT = {"$", "@", ".", "..", "[", "]", "(", ")", "?", "*", "'", "\"", ",", ":", "-1", "0", "&&", "||", "!", "==", "!=", "<", "<=", ">", ">=", "=~", "/a.*/i", "^", "length(", "sum(", "keys(", "tokenize(", "\\", "::0", "-9223372036854775808", "9223372036854775807", "[?(", ")]", "['", "']", "[*]", "+", "-", "/", "%", "true", "null"};
static const std::vector<std::string> JMES_SEEDS = {"people[?age > `26`].name", "people[*].tags[]", "sort_by(people, &age)[].name", "max_by(people, &age).name", "merge(m, {k9: `3`})", "join(', ', people[].name)", "people[].{n: name, a: age}", "length(people)", "to_string(m)", "people | [0]", "keys(m)", "map(&name, people)",
    "store.book[?price < `10`].title", "store.book[*].price | sum(@)", "avg(store.book[].price)", "store.book[-1].author", "reverse(store.book[].title)", "contains(store.book[].category, 'fiction')", "type(@)", "[0][2][1]", "not_null(n, s)", "m.k2[::2]", "sort(people[].name) | [0]", "starts_with(s, 't')",
    "people[?name == 'a' && age > `1` || !tags]", "*.k1", "people[1:3]", "\"quoted key\".x", "`{\"a\": [1,2]}`.a[0]", "'raw'", "abs(`-1`)", "ceil(f)", "floor(f)", "ends_with(s, 'xt')", "max(m.k2)", "min(m.k2)", "to_array(s)", "to_number('1')", "values(m)", "min_by(people, &age)", "[?@ > `1`]", "@", "people[*].name | [0]", "foo.bar.baz", "!n", "(m)"};
static const std::vector<std::string> JMES_DICT = {".", "[", "]", "*", "?", "|", "&", "&&", "||", "!", "(", ")", "{", "}", ",", ":", "`", "'", "\"", "@", "==", "!=", "<", "<=", ">", ">=", "[]", "[*]", "[?", "`1`", "`null`", "`\"s\"`", "length(", "sort_by(", "map(", "merge(", "::0", "-1", "99999999999999999999", "\\", "a", "name"};
static const std::vector<std::string> POINTER_SEEDS = {"", "/", "/store/book/0/title", "/people/1/tags/0", "/0/2/1", "/1/a/b/c/d/2", "/7/k~0~1\"", "/7/a~1b", "/7/m~0n", "/store/book/-", "/store/book/3", "/store/book/01", "/m/k2/-1", "/m/k2/18446744073709551616", "/a~2", "/a~", "no-slash", "//", "/%20", "#/store", "/\xc3\xa9"};
static const std::vector<std::string> POINTER_DICT = {"/", "~", "~0", "~1", "~2", "-", "0", "1", "01", "-1", "18446744073709551615", "a", "book", "store", "#", "%", "%2F", "\\"};
static const std::vector<std::string> URI_SEEDS = {"http://example.com/a/b/c?x=1#frag", "https://user:pw@host.example:8080/p/a/t/h?query=q#f", "urn:example:animal:ferret:nose", "file:///etc/passwd", "../x/./y/../z", "#frag", "?q", "//host/path", "mailto:a@b.c", "http://[2001:db8::1]:80/", "http://a/b/c/d;p?q", "g;x?y#s", "http://example.com/%7Euser/%zz", "", "a:b:c", "http://", "HTTP://EXAMPLE.com/%7e", "/a/b/../../../c", "tag:example.com,2000:"};
static const std::vector<std::string> URI_DICT = {":", "/", "//", "?", "#", "@", "[", "]", "%", "%2", "%41", "..", ".", "&", "=", ";", " ", "\\", "http", "::", "\xc3\xa9", "+"};
static const std::vector<std::string> SCHEMA_SEEDS = {
    R"({"$schema":"https://json-schema.org/draft/2020-12/schema","type":"object","properties":{"id":{"type":"integer","minimum":0},"name":{"type":"string","pattern":"^[a-z]+$","maxLength":8},"tags":{"type":"array","items":{"$ref":"#/$defs/tag"},"uniqueItems":true,"maxItems":4}},"required":["id"],"$defs":{"tag":{"type":"string","minLength":1}},"unevaluatedProperties":false})",
    R"({"$schema":"https://json-schema.org/draft/2019-09/schema","anyOf":[{"type":"array","items":{"type":"number","multipleOf":0.5},"contains":{"const":1}},{"type":"object","propertyNames":{"maxLength":3},"dependentRequired":{"a":["b"]}}],"unevaluatedItems":false})",
    R"({"$schema":"http://json-schema.org/draft-07/schema#","type":"object","properties":{"email":{"type":"string","format":"email"},"when":{"type":"string","format":"date-time"},"ip":{"format":"ipv4"},"re":{"format":"regex"},"u":{"format":"uri"},"h":{"format":"hostname"},"d":{"format":"date"},"t":{"format":"time"},"p":{"format":"json-pointer"},"i6":{"format":"ipv6"}},"if":{"required":["email"]},"then":{"required":["when"]},"else":{"maxProperties":2},"additionalProperties":{"type":["integer","null"]}})",
    R"({"$schema":"http://json-schema.org/draft-04/schema#","oneOf":[{"type":"integer","minimum":5,"exclusiveMinimum":true},{"type":"string","enum":["a","b"]},{"type":"array","items":[{"type":"boolean"}],"additionalItems":false}]})",
    R"({"$schema":"http://json-schema.org/draft-06/schema#","definitions":{"node":{"type":"object","properties":{"v":{"type":"integer"},"next":{"$ref":"#/definitions/node"}},"required":["v"],"additionalProperties":false}},"$ref":"#/definitions/node"})",
    R"({"$schema":"https://json-schema.org/draft/2020-12/schema","$id":"https://example.com/root","$defs":{"pos":{"$anchor":"pos","type":"integer","exclusiveMinimum":0}},"type":"array","prefixItems":[{"$ref":"#pos"},{"type":"string"}],"items":{"not":{"type":"null"}},"minContains":1,"contains":{"type":"string"}})",
    R"({"type":"object","patternProperties":{"^x-":{"type":"string"}},"dependentSchemas":{"a":{"required":["b"]}},"minProperties":1,"maxProperties":3,"properties":{"d":{"default":5},"e":{"enum":[1,"1",null,[1],{"a":1}]}}})",
    R"({"$schema":"https://json-schema.org/draft/2020-12/schema","$dynamicAnchor":"node","type":"object","properties":{"children":{"type":"array","items":{"$dynamicRef":"#node"}}},"$defs":{"x":{"$recursiveRef":"#"}}})",
    R"(true)", R"(false)", R"({})", R"({"$ref":"#/definitions/missing"})", R"({"type":"nonsense"})", R"({"minimum":"x"})", R"({"$schema":"http://example.com/unknown"})", R"({"allOf":[]})", R"({"pattern":"(["})", R"({"items":[{"type":"integer"},{"$ref":"#/items/0"}]})",
};
static const std::vector<std::string> JSON_DICT = {"{", "}", "[", "]", ",", ":", "\"", "true", "false", "null", "1", "-1", "0.5", "1e400", "\"$ref\":\"#/a\"", "\"type\":\"object\"", "\"type\":[\"integer\",\"string\"]", "\"items\":", "\"properties\":{", "\"$id\":\"http://x/y\"", "\"$anchor\":\"a\"", "\"$dynamicRef\":\"#a\"", "\"format\":\"regex\"", "\"pattern\":\"(a|b)*c\\\\d{2,}\"", "\"enum\":[", "\"multipleOf\":0", "\"maxLength\":-1", "\"$schema\":\"https://json-schema.org/draft/2019-09/schema\"", "\"unevaluatedItems\":false", "\"if\":", "\"then\":", "\"not\":{", "\"$defs\":{"};
static const char* INSTANCES[] = {R"({"id":1,"name":"abc","tags":["x","y"]})", R"({"id":-1,"name":"ABC","tags":["x","x"],"extra":true})", R"([1,0.5,2.5])", R"({"a":1,"b":2})", R"({"email":"a@b.org","when":"2020-01-01T00:00:00Z","ip":"1.2.3.4","re":"(a","u":"http://x","h":"a.b","d":"2020-02-30","t":"25:00:00Z","p":"/a~2","i6":"::1"})", R"(7)", R"("a")", R"([true,false])",
    R"({"v":1,"next":{"v":2,"next":{"v":"3"}}})", R"([3,"s",1,null])", R"(null)", R"({"x-a":1,"a":1,"d":1,"e":[1]})", R"({"children":[{"children":[{"children":"x"}]}]})", R"(1e400)", R"(18446744073709551616)", R"("😀")"};

static json parse_or_null(const std::string& t) { try { return json::parse(t); } catch (const std::exception&) { return json::null(); } }

int main(int argc, char** argv) {
    H.parse(argc, argv); g_robust_harness = &H;
    std::vector<json> docs; for (const char* d : DOCS) docs.push_back(json::parse(d));
    std::vector<json> insts; for (const char* d : INSTANCES) insts.push_back(json::parse(d));
    auto body = [&](long long c) {
        Rng r = H.case_rng(c);
        unsigned k = (unsigned)(c % 8);
        const json& doc = r.pick(docs);
        if (k == 0 || k == 1) {
            std::string e = r.pick(JSONPATH_SEEDS); mutate_text(e, r, JSONPATH_DICT, 4);
            g_robust_input = e; set_flight_desc("jsonpath " + hex(e).substr(0, 3000)); H.note_distinct(hash_str(e, 1));
            guard("jsonpath.make_expression+evaluate", [&] { std::error_code ec; auto ex = jsonpath::make_expression<json>(e, ec); if (ec) return; json rr = ex.evaluate(doc); (void)rr; json rp = ex.evaluate(doc, jsonpath::result_options::path | jsonpath::result_options::nodups | jsonpath::result_options::sort); (void)rp;
                ex.evaluate(doc, [](const std::string& p, const json& v) { (void)p.size(); (void)v.is_null(); }); });
            guard("jsonpath.json_query", [&] { json rr = jsonpath::json_query(doc, e, jsonpath::result_options::value); (void)rr; });
            guard("jsonpath.json_replace", [&] { json d2 = doc; jsonpath::json_replace(d2, e, json("X")); json d3 = doc; jsonpath::json_replace(d3, e, [](const std::string&, json& v) { if (v.is_number()) v = 0; }); });
            guard("jsonpath.json_location.parse", [&] { std::error_code ec; auto loc = jsonpath::json_location::parse(e, ec); if (!ec) { auto rr = jsonpath::get(doc, loc); (void)rr; json d2 = doc; jsonpath::remove(d2, loc); } });
        } else if (k == 2 || k == 3) {
            std::string e = r.pick(JMES_SEEDS); mutate_text(e, r, JMES_DICT, 4);
            g_robust_input = e; set_flight_desc("jmespath " + hex(e).substr(0, 3000)); H.note_distinct(hash_str(e, 2));
            guard("jmespath.make_expression+evaluate", [&] { std::error_code ec; auto ex = jmespath::make_expression<json>(e, ec); if (ec) return; json rr = ex.evaluate(doc, ec); (void)rr; });
            guard("jmespath.search", [&] { json rr = jmespath::search(doc, e); (void)rr; });
            guard("jmespath.search(ojson)", [&] { ojson od = ojson::parse(doc.to_string()); std::error_code ec; ojson rr = jmespath::search(od, e, ec); (void)rr; });
        } else if (k == 4) {
            std::string p = r.pick(POINTER_SEEDS); mutate_text(p, r, POINTER_DICT, 3);
            g_robust_input = p; set_flight_desc("jsonpointer " + hex(p).substr(0, 3000)); H.note_distinct(hash_str(p, 3));
            guard("jsonpointer.parse+to_string", [&] { std::error_code ec; auto ptr = jsonpointer::json_pointer::parse(p, ec); if (!ec) { (void)ptr.to_string(); std::ostringstream os; os << ptr; } });
            guard("jsonpointer.get/contains", [&] { std::error_code ec; (void)jsonpointer::get(doc, p, ec); (void)jsonpointer::contains(doc, p); });
            guard("jsonpointer.mutators", [&] { std::error_code ec; json d = doc; jsonpointer::add(d, p, json("v"), ec); ec.clear(); jsonpointer::add(d, p, json(1), true, ec); ec.clear(); jsonpointer::add_if_absent(d, p, json(2), ec); ec.clear(); jsonpointer::replace(d, p, json(3), ec); ec.clear(); jsonpointer::replace(d, p, json(3), true, ec); ec.clear(); jsonpointer::remove(d, p, ec); (void)d.to_string(); });
            guard("jsonpointer.flatten/unflatten", [&] { json f = jsonpointer::flatten(doc); json u = jsonpointer::unflatten(f); (void)u; json weird(json_object_arg); weird.try_emplace(p, 1); weird.try_emplace(p + "/0", 2); weird.try_emplace(p + "/x", 3);
                try { (void)jsonpointer::unflatten(weird); } catch (const jsonpointer::jsonpointer_error&) {} try { (void)jsonpointer::unflatten(weird, jsonpointer::unflatten_options::assume_object); } catch (const jsonpointer::jsonpointer_error&) {} });
            guard("jsonpatch.apply(with-pointer)", [&] { json d = doc; json patch(json_array_arg); for (const char* op : {"add", "remove", "replace", "test", "move", "copy"}) { json o(json_object_arg); o.try_emplace("op", op); o.try_emplace("path", p); o.try_emplace("from", r.pick(POINTER_SEEDS)); o.try_emplace("value", 1); patch.push_back(o); std::error_code ec; json d2 = d; jsonpatch::apply_patch(d2, patch, ec); patch.clear(); } });
        } else if (k == 5) {
            std::string u = r.pick(URI_SEEDS); mutate_text(u, r, URI_DICT, 4);
            std::string u2 = r.pick(URI_SEEDS); mutate_text(u2, r, URI_DICT, 2);
            g_robust_input = u + " | " + u2; set_flight_desc("uri " + hex(g_robust_input).substr(0, 3000)); H.note_distinct(hash_str(g_robust_input, 4));
            guard("uri.parse", [&] { std::error_code ec; uri x = uri::parse(u, ec); if (ec) return; (void)x.string(); (void)x.scheme(); (void)x.host(); (void)x.port(); (void)x.path(); (void)x.query(); (void)x.fragment(); (void)x.authority(); (void)x.userinfo(); (void)x.is_absolute(); (void)x.base(); (void)x.compare(x);
                uri y = uri::parse(u2, ec); if (ec) return; (void)x.resolve(y).string(); (void)y.resolve(x).string(); (void)x.resolve(jsoncons::string_view(u2)).string(); (void)(x == y); (void)(x < y); });
            guard("uri.constructor", [&] { try { uri x(u); (void)x.string(); uri f(x, uri_fragment_part, u2); (void)f.string(); } catch (const std::system_error&) { H.count_("uri.constructor.system_error(open finding, see witness)"); } });
            guard("uri.escape", [&] { std::string out; uri::encode_path(u, out); uri::encode_illegal_characters(u, out); (void)uri::decode_part(u); });
        } else {
            std::string st = r.pick(SCHEMA_SEEDS); mutate_text(st, r, JSON_DICT, k == 6 ? 2 : 5);
            g_robust_input = st; set_flight_desc("schema " + hex(st).substr(0, 3000)); H.note_distinct(hash_str(st, 5));
            json sch = parse_or_null(st);
            if (sch.is_null() && st != "null") { H.count_("schema.unparseable_mutant"); return; }
            const json& inst = r.pick(insts);
            guard("jsonschema.make_json_schema+validate", [&] {
                auto opts = jsonschema::evaluation_options{}.require_format_validation(r.coin()).compatibility_mode(r.coin());
                if (r.chance(1, 3)) { static const char* dr[] = {"http://json-schema.org/draft-04/schema#", "http://json-schema.org/draft-06/schema#", "http://json-schema.org/draft-07/schema#", "https://json-schema.org/draft/2019-09/schema", "https://json-schema.org/draft/2020-12/schema"}; opts.default_version(r.pick(dr)); }
                auto compiled = jsonschema::make_json_schema(sch, opts);
                (void)compiled.is_valid(inst);
                size_t n = 0; compiled.validate(inst, [&](const jsonschema::validation_message& m) { (void)m.message(); (void)m.instance_location().string(); ++n; return n > 50 ? jsonschema::walk_result::abort : jsonschema::walk_result::advance; });
                json patch; compiled.validate(inst, patch); (void)patch;
                json_decoder<ojson> dec; compiled.validate(inst, dec);
                compiled.walk(inst, [&](const std::string&, const json&, const uri&, const json&, const jsonpointer::json_pointer& loc) { (void)loc.string(); return jsonschema::walk_result::advance; });
                try { compiled.validate(inst); } catch (const jsonschema::validation_error&) {}
            });
        }
        if (H.sample_seen < 8 || r.chance(1, 5000)) H.sample(J().num("kind", k).str("input", g_robust_input.substr(0, 160)).done()); else ++H.sample_seen;
        if (c % 4000 == 3999) leak_window_check(c);
    };
    // isolated witnesses of open findings (known_findings.json), one per case
    struct Witness { const char* id; std::function<void()> fn; };
    std::vector<Witness> W = {
        {"schema-self-reference-recurses-without-bound", [] { auto s = jsonschema::make_json_schema(json::parse(R"({"$ref":"#"})")); (void)s.is_valid(json(1)); }},
        {"jmespath-deeply-nested-not-expression", [&] { std::string e(20000, '!'); e += "a"; std::error_code ec; auto ex = jmespath::make_expression<json>(e, ec); if (!ec) (void)ex.evaluate(docs[1], ec); }},
        {"jsonpath-deeply-nested-parentheses", [&] { std::string e = "$[?("; e += std::string(20000, '('); e += "@.a"; e += std::string(20000, ')'); e += ")]"; std::error_code ec; auto ex = jsonpath::make_expression<json>(e, ec); if (!ec) (void)ex.evaluate(docs[1]); }},
        {"uri-constructor-throws-system_error", [] { uri x("\\"); (void)x; }},
    };
    if (H.opt("mode") == "witnesses") {
        auto wbody = [&](long long c) {
            if (c < 0 || c >= (long long)W.size()) return;
            const Witness& w = W[(size_t)c];
            g_robust_input = w.id; set_flight_desc(std::string("witness ") + w.id);
            H.note_distinct((u64)c); H.count_("witnesses_executed");
            guard((std::string("witness.") + w.id).c_str(), w.fn);
            H.sample(J().str("witness", w.id).done());
        };
        return H.run(wbody);
    }
    g_max_repeat = 120;      // unbounded recursion on deeply nested expressions is an open finding (witnesses above)
    return H.run(body);
}
