// C18: CSV and TOON text round-trip tabular and tree data.
// CSV: decode(encode(table, o), o) == table for arrays-of-arrays, arrays-of-objects and column-oriented objects whenever
// strings are told apart from other scalars (quote styles all/nonnumeric, or infer_types(false) with an all-string table);
// independently a field scanner written for this monitor re-reads the emitted text: every field must be recoverable,
// i.e. any field containing the delimiter, the quote character, CR or LF must have been quoted (except quote style none).
// TOON: decode_toon(encode_toon(v, o)) == v for all JSON values.
#include "common/jvalue.hpp"
#include "common/rfc8259.hpp"
#include <jsoncons/json.hpp>
#include <jsoncons_ext/csv/csv.hpp>
#include <jsoncons_ext/toon/toon.hpp>
#include <jsoncons_ext/toon/decode_toon.hpp>

using namespace vf;
using namespace jsoncons;
static Harness H;

struct CsvCfg { char delim = ','; char quote = '"'; char esc = '"'; std::string eol = "\n"; csv::quote_style_kind style = csv::quote_style_kind::nonnumeric; bool infer = true; };
static const char* style_name(csv::quote_style_kind k) { switch (k) { case csv::quote_style_kind::minimal: return "minimal"; case csv::quote_style_kind::all: return "all"; case csv::quote_style_kind::nonnumeric: return "nonnumeric"; default: return "none"; } }

static std::string gen_cell_string(Rng& r, const CsvCfg& c) {
    static const char* special[] = {"", " ", " lead", "trail ", "1", "-1", "1.5", "1e5", "true", "false", "null", "NaN", "0x10", "a b", "\t", "#c", "=1+1", "\xc3\xa9", "\xf0\x9f\x98\x80"};
    std::string s;
    switch (r.below(6)) {
    case 0: return r.pick(special);
    case 1: { size_t n = r.below(6); for (size_t i = 0; i < n; ++i) { switch (r.below(8)) { case 0: s.push_back(c.delim); break; case 1: s.push_back(c.quote); break; case 2: s.push_back('\n'); break; case 3: s += "\r\n"; break; case 4: s.push_back(c.esc); break; case 5: s.push_back(' '); break; default: s.push_back((char)('a' + r.below(26))); } } return s; }
    case 2: { s = gen_string(r, 12); for (auto& ch : s) if (ch == '\0') ch = '0'; return s; }
    default: { size_t n = 1 + r.below(8); for (size_t i = 0; i < n; ++i) s.push_back((char)('a' + r.below(26))); return s; }
    }
}
template <class Json> static Json gen_cell(Rng& r, const CsvCfg& c, bool strings_only) {
    if (strings_only) return Json(gen_cell_string(r, c));
    switch (r.below(8)) {
    case 0: return Json::null();
    case 1: return Json(r.coin());
    case 2: return Json(gen_i64(r));
    case 3: return Json(gen_u64(r));
    case 4: { double d = gen_double_finite(r); if (d == 0) d = 0.0; return Json(d); }
    default: return Json(gen_cell_string(r, c));
    }
}

// ---- independent CSV field scanner ------------------------------------------------------------------------
struct Field { std::string text; bool quoted; };
static bool scan_csv(const std::string& t, const CsvCfg& c, std::vector<std::vector<Field>>& rows, std::string& why) {
    size_t i = 0, n = t.size();
    std::vector<Field> row; Field cur{"", false}; bool at_field_start = true;
    auto end_field = [&] { row.push_back(cur); cur = Field{"", false}; at_field_start = true; };
    auto end_row = [&] { end_field(); rows.push_back(row); row.clear(); };
    while (i < n) {
        char ch = t[i];
        if (at_field_start && ch == c.quote) {
            cur.quoted = true; at_field_start = false; ++i;
            for (;;) {
                if (i >= n) { why = "unterminated quoted field"; return false; }
                if (c.esc != c.quote && t[i] == c.esc && i + 1 < n && (t[i + 1] == c.quote || t[i + 1] == c.esc)) { cur.text.push_back(t[i + 1]); i += 2; continue; }
                if (t[i] == c.quote) { if (c.esc == c.quote && i + 1 < n && t[i + 1] == c.quote) { cur.text.push_back(c.quote); i += 2; continue; } ++i; break; }
                cur.text.push_back(t[i++]);
            }
            if (i < n && t[i] != c.delim && t[i] != '\n' && t[i] != '\r') { why = "text after closing quote"; return false; }
            continue;
        }
        if (ch == c.delim) { end_field(); ++i; continue; }
        if (ch == '\r' || ch == '\n') { if (ch == '\r' && i + 1 < n && t[i + 1] == '\n') ++i; ++i; end_row(); continue; }
        if (ch == c.quote) { why = "bare quote inside unquoted field"; return false; }
        cur.text.push_back(ch); at_field_start = false; ++i;
    }
    if (!row.empty() || !cur.text.empty() || cur.quoted) end_row();
    return true;
}

static csv::csv_options enc_opts(const CsvCfg& c) { csv::csv_options o; o.field_delimiter(c.delim).quote_char(c.quote).quote_escape_char(c.esc).line_delimiter(c.eol).quote_style(c.style); return o; }
static csv::csv_options dec_opts(const CsvCfg& c, csv::csv_mapping_kind mk, bool header) { csv::csv_options o; o.field_delimiter(c.delim).quote_char(c.quote).quote_escape_char(c.esc).mapping_kind(mk).assume_header(header).infer_types(c.infer); o.ignore_empty_lines(false); return o; }
static std::string cfg_desc(const CsvCfg& c) { return std::string("delim=") + hex(std::string(1, c.delim)) + " quote=" + std::string(1, c.quote) + " esc=" + hex(std::string(1, c.esc)) + " eol=" + hex(c.eol) + " style=" + style_name(c.style) + (c.infer ? " infer" : " noinfer"); }

template <class Json> static std::string cell_text(const Json& v) {      // the text a cell denotes when read back as a string
    if (v.is_string()) return std::string(v.as_string_view());
    std::string s; v.dump(s); return s;
}

static void csv_case(Rng& r) {
    CsvCfg c;
    static const char ds[] = {',', ';', '\t', '|'}; c.delim = r.pick(ds);
    c.quote = r.chance(1, 4) ? '\'' : '"';
    c.esc = r.chance(1, 4) ? '\\' : c.quote;
    c.eol = r.coin() ? "\n" : "\r\n";
    static const csv::quote_style_kind st[] = {csv::quote_style_kind::minimal, csv::quote_style_kind::all, csv::quote_style_kind::nonnumeric, csv::quote_style_kind::none};
    c.style = r.pick(st);
    bool strings_only = r.chance(1, 3);
    c.infer = strings_only ? r.coin() : true;
    bool precondition = (c.style == csv::quote_style_kind::all || c.style == csv::quote_style_kind::nonnumeric) || (!c.infer && strings_only && c.style == csv::quote_style_kind::minimal);
    size_t R = 1 + r.below(5), C = 1 + r.below(5);
    int kind = (int)r.below(3);
    static const char* kn[] = {"n_rows", "n_objects", "m_columns"};
    // column names (distinct, non-empty)
    std::vector<std::string> names;
    for (size_t j = 0; j < C; ++j) { std::string nm = r.chance(1, 3) ? gen_cell_string(r, c) : std::string("col"); nm += std::to_string(j); names.push_back(nm); }
    std::vector<std::vector<ojson>> cells(R, std::vector<ojson>(C));
    for (auto& row : cells) for (auto& x : row) x = gen_cell<ojson>(r, c, strings_only);
    ojson table(json_array_arg);
    if (kind == 0) { for (auto& row : cells) { ojson a(json_array_arg); for (auto& x : row) a.push_back(x); table.push_back(std::move(a)); } }
    else if (kind == 1) { for (auto& row : cells) { ojson o(json_object_arg); for (size_t j = 0; j < C; ++j) o.try_emplace(names[j], row[j]); table.push_back(std::move(o)); } }
    else { table = ojson(json_object_arg); for (size_t j = 0; j < C; ++j) { ojson col(json_array_arg); for (size_t i = 0; i < R; ++i) col.push_back(cells[i][j]); table.try_emplace(names[j], std::move(col)); } }
    std::string text;
    std::string base = std::string("csv/") + kn[kind] + "/" + style_name(c.style) + "/";
    auto det = [&](const std::string& why) { return J().str("cfg", cfg_desc(c)).str("table", describe(table).substr(0, 1500)).str("text", text.substr(0, 800)).str("why", why).done(); };
    try { csv::encode_csv(table, text, enc_opts(c)); }
    catch (const std::exception& e) { H.violation(base + "encode-throws", det(e.what())); return; }
    H.count_(std::string("csv.encoded.") + kn[kind] + "." + style_name(c.style));
    if (c.style == csv::quote_style_kind::none) return;                 // explicit opt-out of quoting: safety only
    // (2) independent field scanner
    std::vector<std::vector<Field>> rows; std::string why;
    bool header = kind != 0;
    if (!scan_csv(text, c, rows, why)) { H.violation(base + "scanner-rejects-output", det(why)); return; }
    if (rows.size() != R + (header ? 1 : 0)) { H.violation(base + "field-not-quoted/record-count", det("records " + std::to_string(rows.size()) + " expected " + std::to_string(R + (header ? 1 : 0)))); return; }
    for (size_t i = 0; i < rows.size(); ++i) {
        if (rows[i].size() != C) { H.violation(base + (i == 0 && header ? "header-field-not-quoted/field-count" : "field-not-quoted/field-count"), det("record " + std::to_string(i) + " has " + std::to_string(rows[i].size()) + " fields, expected " + std::to_string(C))); return; }
        for (size_t j = 0; j < C; ++j) {
            std::string want = header && i == 0 ? names[j] : cell_text(cells[i - (header ? 1 : 0)][j]);
            bool is_str = header && i == 0 ? true : cells[i - (header ? 1 : 0)][j].is_string();
            if (is_str && rows[i][j].text != want) { H.violation(base + (i == 0 && header ? "header-field-content" : "field-content"), det("record " + std::to_string(i) + " field " + std::to_string(j) + " reads " + hex(rows[i][j].text) + " expected " + hex(want))); return; }
        }
    }
    H.count_("csv.scanner_judged");
    // (1) round trip under the property's precondition
    if (!precondition) return;
    csv::csv_mapping_kind mk = kind == 0 ? csv::csv_mapping_kind::n_rows : kind == 1 ? csv::csv_mapping_kind::n_objects : csv::csv_mapping_kind::m_columns;
    ojson back;
    try { back = csv::decode_csv<ojson>(text, dec_opts(c, mk, header)); }
    catch (const std::exception& e) { H.violation(base + "decode-throws", det(e.what())); return; }
    CmpCfg cc; cc.ordered_objects = true; cc.zero_sign = false;
    std::string d = strict_diff(table, back, cc);
    if (!d.empty()) {
        bool single_empty = false; if (C == 1 && c.style == csv::quote_style_kind::minimal) for (auto& row : cells) if (row[0].is_string() && row[0].as_string_view().empty()) single_empty = true;
        if (single_empty) H.violation(std::string("csv/single-empty-field-record-written-as-empty-line/") + kn[kind], det(d + " back=" + describe(back).substr(0, 600)));
        else H.violation(base + "roundtrip-differs" + (c.infer ? "" : "/noinfer"), det(d + " back=" + describe(back).substr(0, 600)));
        return; }
    H.count_(std::string("csv.roundtrip_judged.") + kn[kind]);
}

// ---- TOON ----------------------------------------------------------------------------------------------------
template <class J1, class J2> static std::string toon_diff(const J1& a, const J2& b, bool ordered, const std::string& path = "$") {
    bool na = a.is_number(), nb = b.is_number();
    if (na && nb) {
        // TOON canonical numbers: integer-valued doubles may come back as integers and -0 as 0: compare numerically, exactly
        if ((a.type() == json_type::float64) || (b.type() == json_type::float64)) {
            long double x = a.type() == json_type::float64 ? (long double)a.template as<double>() : a.type() == json_type::int64 ? (long double)a.template as<i64>() : (long double)a.template as<u64>();
            long double y = b.type() == json_type::float64 ? (long double)b.template as<double>() : b.type() == json_type::int64 ? (long double)b.template as<i64>() : (long double)b.template as<u64>();
            if (x == y) return "";
            long double ax = x < 0 ? -x : x;
            return path + (ax != 0 && ax < 2.3e-308L ? "\x01number changed(subnormal-or-smallest-normal-double)" : "\x01number changed");
        }
        CmpCfg cc; std::string d = strict_diff(a, b, cc, path); if (!d.empty()) d = path + "\x01" + d.substr(path.size() + 2); return d;
    }
    if (a.type() != b.type()) return path + "\x01type " + std::to_string((int)a.type()) + " became " + std::to_string((int)b.type());
    if (a.is_array()) { if (a.size() != b.size()) return path + "\x01array size"; size_t i = 0; auto ib = b.array_range().begin(); for (const auto& e : a.array_range()) { std::string d = toon_diff(e, *ib, ordered, path + "[" + std::to_string(i++) + "]"); if (!d.empty()) return d; ++ib; } return ""; }
    if (a.is_object()) { if (a.size() != b.size()) return path + "\x01object size " + std::to_string(a.size()) + " became " + std::to_string(b.size());
        if (ordered) { auto ib = b.object_range().begin(); for (const auto& m : a.object_range()) { if (std::string(m.key()) != std::string(ib->key())) return path + "\x01member order/name " + hex(std::string(m.key())) + " vs " + hex(std::string(ib->key())); std::string d = toon_diff(m.value(), ib->value(), ordered, path + "." + std::string(m.key())); if (!d.empty()) return d; ++ib; } return ""; }
        for (const auto& m : a.object_range()) { auto it = b.find(m.key()); if (it == b.object_range().end()) return path + "\x01member lost " + hex(std::string(m.key())); std::string d = toon_diff(m.value(), it->value(), ordered, path + "." + std::string(m.key())); if (!d.empty()) return d; } return ""; }
    CmpCfg cc; std::string d = strict_diff(a, b, cc, path); if (!d.empty()) d = path + "\x01" + d.substr(path.size() + 2); return d;
}

template <class Json> static std::string toon_judge(const Json& v, const toon::toon_options& o, std::string& text, std::string& why) {
    text.clear();
    try { toon::encode_toon(v, text, o); } catch (const std::exception& e) { why = e.what(); return "encode-throws"; }
    Json back;
    try { back = toon::decode_toon<Json>(text, o); } catch (const std::exception& e) { std::string w = e.what(); why = w; size_t p = w.find(" at line"); return "decode-throws/" + (p == std::string::npos ? w : w.substr(0, p)); }
    std::string df = toon_diff(v, back, std::is_same<Json, ojson>::value);
    if (!df.empty()) { why = df + " back=" + describe(back).substr(0, 400); std::string kind = df.substr(df.find('\x01') + 1); kind = kind.substr(0, kind.find(' ', kind.find(' ') + 1)); for (auto& ch : why) if (ch == '\x01') ch = ':'; return "roundtrip-differs/" + kind; }
    return "";
}

// ---- TOON judged domain -------------------------------------------------------------------------------------
// The unchanged tree's TOON reader/writer fails on a number of constructs (open findings T1-T8 in known_findings.json,
// each kept as an isolated witness below). Randomly generated values avoid exactly those constructs so that every
// other mismatch is reported as a violation; the witnesses are re-executed on every run.
static bool toon_simple_key(const jsoncons::string_view& s) { if (s.empty()) return false; for (unsigned char ch : s) if (!((ch >= 'a' && ch <= 'z') || (ch >= 'A' && ch <= 'Z') || (ch >= '0' && ch <= '9' && &ch != (const unsigned char*)s.data()) || ch == '_')) return false; return !(s[0] >= '0' && s[0] <= '9'); }
static bool toon_safe_string(const jsoncons::string_view& s, bool is_key) {
    for (unsigned char ch : s) { if (ch < 0x20 && ch != '\n' && ch != '\r' && ch != '\t') return false; if (ch == 0x7f) return false; if (is_key && (ch == '"' || ch == '\\')) return false; }
    if (!is_key && !s.empty() && ((s[0] >= '0' && s[0] <= '9') || s[0] == '-' || s[0] == '+' || s[0] == '.')) {      // T8: number-like prefixes ("2.", "1-") are written unquoted
        // well-formed JSON numbers are quoted correctly; anything else starting like a number is outside the judged domain
        rfc::Val dummy; if (!rfc::accepts(std::string(s), rfc::Opts(), &dummy) || dummy.k != rfc::Val::Num) return false;
    }
    return true;
}
// direct_depth: number of arrays enclosing v without an object in between (T4 is about arrays nested directly)
template <class Json> static bool toon_safe(const Json& v, int array_depth = 0, bool in_array = false, int direct_depth = 0) {
    if (v.is_string()) return toon_safe_string(v.as_string_view(), false);
    if (v.type() == json_type::float64) { double d = v.template as<double>(); double a = d < 0 ? -d : d; return a == 0 || (a >= 1e-6 && a < 9e15); }      // T3 / T9
    if (v.is_object()) {
        if (v.empty() && array_depth > 0) return false;                                                                                      // T4 / T6: empty objects below an array
        for (const auto& m : v.object_range()) {
            if (!toon_safe_string(m.key(), true)) return false;
            if (array_depth > 0 && !toon_simple_key(m.key())) return false;                                                                  // T2: field names that need quoting in (tabular) arrays of objects
            if (m.value().is_array() && !toon_simple_key(m.key())) return false;                                                              // T5: quoted key followed by an array header
            if (in_array && m.value().is_object()) return false;                                                                               // T6: object-valued member of a list-item object
            if (in_array && m.value().is_array()) { for (const auto& e : m.value().array_range()) { if (e.is_object()) return false;                // T6: tabular array nested in a list item
                                                        if (e.is_array()) for (const auto& x : e.array_range()) if (x.is_array() || x.is_object()) return false; }   // arrays of primitive arrays only (deeper mixes fail like T4/T6)
                                                      size_t na = 0; for (const auto& e : m.value().array_range()) if (e.is_array()) ++na; if (na != 0 && na != m.value().size()) return false; }   // ... and not mixed with primitives
            if (!toon_safe(m.value(), array_depth, false, 0)) return false; }
        return true;
    }
    if (v.is_array()) { if (v.empty() && in_array) return false; if (direct_depth >= 2) return false;                                            // T4: arrays nested three deep
                                                                                     // T4: empty array as an array element
        for (const auto& e : v.array_range()) { if (array_depth >= 1 && e.is_object()) return false; if (!toon_safe(e, array_depth + 1, true, direct_depth + 1)) return false; } return true; }
    return true;
}
struct ToonWitness { const char* id; const char* json_text; };
static const ToonWitness TOON_WITNESSES[] = {
    {"T1-control-character-written-as-u-escape", "{\"a\\u000b\":[]}"},
    {"T2-escaped-quote-in-tabular-field-name", "[{\"k\\\"q0\":1}]"},
    {"T3-subnormal-double-in-fixed-notation", "1.94e-308"},
    {"T3-tiny-double-in-fixed-notation", "4.0e-229"},
    {"T4-empty-object-as-list-item", "[[{}]]"},
    {"T5-quoted-key-with-escaped-quote-before-array-header", "{\"k\\\"q\":[]}"},
    {"T5-quoted-key-with-escaped-quote-before-inline-array", "{\"\":{},\"k\\\"q\":[\"x\"]}"},
    {"T6-empty-object-as-first-field-of-list-item", "[{\"a\":{}}]"},
    {"T6-tabular-array-nested-in-list-item", "[1,[{\"s\":-3.0e18}]]"},
    {"T8-number-like-string-ending-in-dot", "\"2.\""},
    {"T8-number-like-string-prefix", "\"1-\""},
    {"T9-large-integral-double-printed-with-17-digits", "9223372036854775808.0"},
    {"T2-newline-in-tabular-field-name", "[{\"\\n0\":\"x\"}]"},
    {"T2-leading-space-in-tabular-field-name", "[{\" z0\":true}]"},
    {"T2-empty-tabular-field-name", "[{\"\":-5}]"},
    {"T4-empty-array-nested-in-arrays", "[[[]]]"},
    {"T4-arrays-nested-three-deep", "[[[456]]]"},
    {"T5-quoted-key-with-newline-before-array-header", "{\"l\\n\":[]}"},
    {"T6-object-valued-member-in-list-item", "[{\"id\":{\"c\":null}}]"},
    {"T6-empty-object-member-in-list-item", "[{\"0\":{}},null]"},
};

template <class Json> static void toon_case(Rng& r, const char* policy) {
    GenCfg g; g.max_depth = 4; g.max_width = 4; g.big_numbers = false; g.string_cap = 30;
    Json v;
    if (r.chance(1, 4)) {       // arrays of uniform objects (tabular form)
        v = Json(json_array_arg); size_t n = 1 + r.below(4), c = 1 + r.below(4); std::vector<std::string> ks; for (size_t j = 0; j < c; ++j) ks.push_back(gen_key(r) + std::to_string(j));
        for (size_t i = 0; i < n; ++i) { Json o(json_object_arg); for (auto& k : ks) o.try_emplace(k, gen_scalar_value<Json>(r, g)); v.push_back(std::move(o)); }
        if (r.coin()) { Json w(json_object_arg); w.try_emplace(gen_key(r), std::move(v)); v = std::move(w); }
    } else if (r.chance(1, 5)) {   // list items (non-uniform objects inside an array) whose members are primitives, primitive arrays and arrays of primitive arrays, in any order
        v = Json(json_array_arg); size_t n = 1 + r.below(3);
        for (size_t i = 0; i < n; ++i) { Json o(json_object_arg); size_t c = 1 + r.below(3);
            for (size_t j = 0; j < c; ++j) { std::string k = std::string(1, (char)('a' + r.below(26))) + "k" + std::to_string(i) + std::to_string(j); Json mv;
                switch (r.below(3)) { case 0: mv = gen_scalar_value<Json>(r, g); break;
                    case 1: { mv = Json(json_array_arg); size_t m = 1 + r.below(3); for (size_t q = 0; q < m; ++q) mv.push_back(gen_scalar_value<Json>(r, g)); break; }
                    default: { mv = Json(json_array_arg); size_t rows = 1 + r.below(3); for (size_t q = 0; q < rows; ++q) { Json row(json_array_arg); size_t m = 1 + r.below(3); for (size_t z = 0; z < m; ++z) row.push_back(gen_scalar_value<Json>(r, g)); mv.push_back(std::move(row)); } } }
                o.try_emplace(k, std::move(mv)); }
            v.push_back(std::move(o)); }
        if (r.coin()) { Json w(json_object_arg); w.try_emplace(gen_key(r), std::move(v)); v = std::move(w); }
        H.count_("toon.list_item_shapes");
    } else v = gen_value<Json>(r, g);
    for (int tries = 0; tries < 50 && !toon_safe(v); ++tries) { H.count_("toon.regenerated_outside_judged_domain"); GenCfg g2 = g; g2.max_depth = 1 + (int)r.below(3); v = gen_value<Json>(r, g2); }
    if (!toon_safe(v)) v = Json("fallback");
    toon::toon_options o;
    size_t indent = 1 + r.below(8); o.indent(indent);
    static const toon::toon_delimiter_kind dk[] = {toon::toon_delimiter_kind::comma, toon::toon_delimiter_kind::tab, toon::toon_delimiter_kind::pipe}; auto d = r.pick(dk); o.delimiter(d);
    if (r.chance(1, 4)) o.length_marker('#');
    std::string desc = "indent=" + std::to_string(indent) + " delim=" + hex(std::string(1, (char)d));
    std::string text, why;
    std::string sig = toon_judge(v, o, text, why);
    if (nontrivial(v)) H.note_distinct(hash_str(describe(v)));
    if (sig.empty()) { H.count_(std::string("toon.roundtrip_judged.") + policy); return; }
    std::string full = std::string("toon/") + sig;       // the same defects show for json and ojson: one signature per failing construct
    Json small = H.viol_by_sig[full] < 3 ? shrink(v, [&](const Json& c) { std::string t, w; return toon_safe(c) && toon_judge(c, o, t, w) == sig; }, 400) : v;
    toon_judge(small, o, text, why);
    H.violation(full, J().str("policy", policy).str("opts", desc).str("value", describe(small).substr(0, 1200)).str("text", text.substr(0, 600)).str("why", why.substr(0, 600)).done());
}

int main(int argc, char** argv) {
    H.parse(argc, argv);
    auto body = [&](long long c) {
        Rng r = H.case_rng(c);
        if (c % 2 == 0) { csv_case(r); H.note_distinct(mix((u64)c, 3)); }
        else if (c % 4 == 1) toon_case<json>(r, "json"); else toon_case<ojson>(r, "ojson");
        if (H.sample_seen < 6) H.sample(J().num("case", c).str("kind", c % 2 == 0 ? "csv" : "toon").done()); else ++H.sample_seen;
    };
    auto regress = [&]() {
        for (const auto& w : TOON_WITNESSES) {
            json v = json::parse(w.json_text); toon::toon_options o; std::string text, why;
            std::string sig = toon_judge(v, o, text, why);
            H.count_("toon.witnesses_executed");
            if (!sig.empty()) H.violation(std::string("toon/witness/") + w.id, J().str("value", w.json_text).str("text", text.substr(0, 300)).str("observed", sig).str("why", why.substr(0, 300)).done());
        }
    };
    return H.run(body, regress);
}
