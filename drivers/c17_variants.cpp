// C17 stage "variants": std::variant (distinguishable alternatives are judged; ambiguous ones are executed and counted only),
// deque, list, forward_list.
#include "c17/typed.hpp"
#include "c17/types_enum.hpp"
static_assert(C17_SHARED_REV == 10, "drivers/c17/*.hpp changed: bump the revision here so that the build cache is invalidated");
namespace c17 {
template <> struct AmbiguousVariant<std::variant<int32_t, int64_t>> : std::true_type {};
template <> struct AmbiguousVariant<std::variant<float, double>> : std::true_type {};
template <> struct AmbiguousVariant<std::variant<std::vector<int32_t>, std::vector<double>>> : std::true_type {};
}
using namespace c17;
using std::vector; using std::string;

int main(int argc, char** argv) {
    std::vector<TypeEntry> t = {
        entry<std::variant<int64_t, std::string>>(), entry<std::variant<bool, double, std::string>>(), entry<std::variant<int32_t, double>>(),
        entry<std::variant<std::string, std::vector<int32_t>>>(), entry<std::variant<c17t::Color, int32_t>>(),
        entry<std::variant<int32_t, std::vector<std::string>, std::map<std::string, int32_t>>>(),
        entry<std::vector<std::variant<int64_t, std::string>>>(), entry<std::optional<std::variant<bool, std::string>>>(),
        entry<std::variant<int32_t, int64_t>>(), entry<std::variant<float, double>>(), entry<std::variant<std::vector<int32_t>, std::vector<double>>>(),
        entry<std::deque<string>>(), entry<std::deque<bool>>(), entry<std::deque<int32_t>>(),
        entry<std::list<string>>(), entry<std::list<double>>(), entry<std::list<vector<string>>>(),
        entry<std::forward_list<string>>(), entry<std::forward_list<int32_t>>(), entry<std::forward_list<vector<int32_t>>>(),
    };
    // deque<int32>, list<double>, forward_list<int32>: while ext_traits::is_typed_array matches containers without data(), their streaming
    // encode (and decode for the back-insertable ones) does not compile; Tr<>::can_stream_* follow the trait, and the skipped routes are
    // counted per value (uncompilable.stream-encode.* / uncompilable.stream-decode.*)
    return run_table(argc, argv, t);
}
