// C06: binary formats round-trip the data model (CBOR, MessagePack, UBJSON, BSON).
// Oracle: decode(encode(v)) strictly equals norm_F(v), the documented mapping of format F (DESIGN §4 C06);
// an encode error is accepted only for values outside F's domain; bytes that decode to something else,
// fail to decode, or leave trailing bytes are violations.  Routes: encode_X(json), streaming X_encoder
// fed by dump(visitor), decode from bytes / stream / iterator, json and ojson, typed vector<T>.
#include "common/jvalue.hpp"
#include <jsoncons/json.hpp>
#include <jsoncons_ext/cbor/cbor.hpp>
#include <jsoncons_ext/msgpack/msgpack.hpp>
#include <jsoncons_ext/ubjson/ubjson.hpp>
#include <jsoncons_ext/bson/bson.hpp>
#include <sstream>

using namespace vf;
using namespace jsoncons;

static Harness H;
enum Fmt { CBOR, MSGPACK, UBJSON, BSON };
static const char* fmt_name[] = {"cbor", "msgpack", "ubjson", "bson"};

// ---- decimal normaliser: "sign|digits|exp10" with digits stripped of leading/trailing zeros ------------
static bool norm_decimal(const std::string& t, std::string& out) {
    size_t i = 0; bool neg = false;
    if (i < t.size() && (t[i] == '-' || t[i] == '+')) { neg = t[i] == '-'; ++i; }
    std::string digits; long long exp = 0; bool seen_digit = false, in_frac = false;
    for (; i < t.size(); ++i) {
        char c = t[i];
        if (c >= '0' && c <= '9') { digits.push_back(c); seen_digit = true; if (in_frac) --exp; }
        else if (c == '.' && !in_frac) in_frac = true;
        else if (c == 'e' || c == 'E') { char* end = nullptr; long long e = strtoll(t.c_str() + i + 1, &end, 10); if (end == t.c_str() + i + 1 || *end) return false; exp += e; i = t.size(); break; }
        else return false;
    }
    if (!seen_digit) return false;
    size_t lead = 0; while (lead < digits.size() && digits[lead] == '0') ++lead;
    digits.erase(0, lead);
    while (!digits.empty() && digits.back() == '0') { digits.pop_back(); ++exp; }
    if (digits.empty()) { out = "0"; return true; }
    out = std::string(neg ? "-" : "+") + "|" + digits + "|" + std::to_string(exp);
    return true;
}

// ---- format-aware comparison: expected (original) vs decoded --------------------------------------------
struct Ctx { Fmt f; bool ordered; };

template <class J1, class J2>
static std::string fdiff(const Ctx& c, const J1& a, const J2& b, const std::string& path = "$") {
    semantic_tag ta = norm_tag(a.tag()), tb = norm_tag(b.tag());
    // documented mappings
    if (a.type() == json_type::string && (ta == semantic_tag::bigint || ta == semantic_tag::bigdec)) {
        if (c.f == MSGPACK || c.f == BSON) {      // travel as plain strings with identical text
            if (b.type() != json_type::string) return path + ": bignum came back as type " + std::to_string((int)b.type());
            if (tb != semantic_tag::none) return path + ": bignum string came back tagged " + tag_name(tb);
            return std::string(a.as_string_view()) == std::string(b.as_string_view()) ? "" : path + ": bignum text changed to " + std::string(b.as_string_view());
        }
        // CBOR / UBJSON: same tag class, same numeric value
        if (b.type() != json_type::string) return path + ": bignum came back as type " + std::to_string((int)b.type());
        std::string na, nb;
        if (!norm_decimal(std::string(a.as_string_view()), na)) return path + ": (harness) bad source decimal";
        if (!norm_decimal(std::string(b.as_string_view()), nb)) return path + ": decoded bignum text is not a decimal: " + std::string(b.as_string_view());
        if (na != nb) return path + ": bignum value " + std::string(a.as_string_view()) + " became " + std::string(b.as_string_view());
        if (ta == semantic_tag::bigint && tb != semantic_tag::bigint) return path + ": bigint tag became " + tag_name(tb);
        if (ta == semantic_tag::bigdec && tb != semantic_tag::bigdec && tb != semantic_tag::bigint) return path + ": bigdec tag became " + tag_name(tb);
        return "";
    }
    if (a.type() == json_type::byte_string && c.f == UBJSON) {   // no byte-string type: array of byte values
        auto bv = a.as_byte_string_view();
        if (b.type() == json_type::byte_string) { auto bb = b.as_byte_string_view(); return (bb.size() == bv.size() && memcmp(bb.data(), bv.data(), bv.size()) == 0) ? "" : path + ": bytes changed"; }
        if (b.type() != json_type::array) return path + ": byte string came back as type " + std::to_string((int)b.type());
        if (b.size() != bv.size()) return path + ": byte string length " + std::to_string(bv.size()) + " came back as array of " + std::to_string(b.size());
        size_t i = 0;
        for (const auto& e : b.array_range()) { if (!(e.type() == json_type::uint64 || e.type() == json_type::int64) || e.template as<int>() != (int)bv.data()[i]) return path + ": byte " + std::to_string(i); ++i; }
        return "";
    }
    if (c.f == UBJSON && a.type() == json_type::uint64 && a.template as<u64>() > (u64)INT64_MAX) {   // no unsigned 64-bit type: high-precision number
        if (b.type() != json_type::string || tb != semantic_tag::bigint) return path + ": uint64 above int64 range came back as type " + std::to_string((int)b.type());
        return std::string(b.as_string_view()) == std::to_string(a.template as<u64>()) ? "" : path + ": uint64 digits changed";
    }
    bool int_a = a.type() == json_type::int64 || a.type() == json_type::uint64, int_b = b.type() == json_type::int64 || b.type() == json_type::uint64;
    if (int_a && int_b) {
        bool na = a.type() == json_type::int64 && a.template as<i64>() < 0, nb = b.type() == json_type::int64 && b.template as<i64>() < 0;
        if (na != nb) return path + ": integer sign";
        if (na ? a.template as<i64>() != b.template as<i64>() : a.template as<u64>() != b.template as<u64>()) return path + ": integer " + a.template as<std::string>() + " became " + b.template as<std::string>();
        if (c.f == CBOR && ta != tb) return path + ": integer tag " + tag_name(ta) + " became " + tag_name(tb);
        return "";
    }
    if (a.type() == json_type::float16 && b.type() == json_type::float64) {   // half travels as a wider float with the same numeric value
        double x = a.template as<double>(), y = b.template as<double>();
        return ((x != x && y != y) || double_to_bits(x) == double_to_bits(y)) ? "" : path + ": half value changed";
    }
    if (a.type() != b.type()) {
        return path + ": type " + std::to_string((int)a.type()) + " became " + std::to_string((int)b.type());
    }
    switch (a.type()) {
    case json_type::null: case json_type::boolean: case json_type::float16:
        { CmpCfg cc; cc.tags = false; return strict_diff(a, b, cc, path); }
    case json_type::float64: {
        CmpCfg cc; cc.tags = (c.f == CBOR); return strict_diff(a, b, cc, path);      // bit for bit, NaN == NaN
    }
    case json_type::string: {
        CmpCfg cc; cc.tags = (c.f == CBOR); return strict_diff(a, b, cc, path);
    }
    case json_type::byte_string: {
        CmpCfg cc; cc.tags = (c.f == CBOR); return strict_diff(a, b, cc, path);
    }
    case json_type::array: {
        if (a.size() != b.size()) return path + ": array size " + std::to_string(a.size()) + " became " + std::to_string(b.size());
        auto ra = a.array_range(); auto rb = b.array_range(); auto ia = ra.begin(); auto ib = rb.begin(); size_t i = 0;
        for (; ia != ra.end(); ++ia, ++ib, ++i) { std::string d = fdiff(c, *ia, *ib, path + "[" + std::to_string(i) + "]"); if (!d.empty()) return d; }
        return "";
    }
    case json_type::object: {
        if (a.size() != b.size()) return path + ": object size " + std::to_string(a.size()) + " became " + std::to_string(b.size());
        if (c.ordered) {
            auto ra = a.object_range(); auto rb = b.object_range(); auto ia = ra.begin(); auto ib = rb.begin();
            for (; ia != ra.end(); ++ia, ++ib) {
                if (std::string(ia->key()) != std::string(ib->key())) return path + ": member name/order " + hex(std::string(ia->key())) + " vs " + hex(std::string(ib->key()));
                std::string d = fdiff(c, ia->value(), ib->value(), path + "." + std::string(ia->key())); if (!d.empty()) return d;
            }
            return "";
        }
        for (const auto& m : a.object_range()) {
            auto it = b.find(m.key());
            if (it == b.object_range().end()) return path + ": member lost " + hex(std::string(m.key()));
            std::string d = fdiff(c, m.value(), it->value(), path + "." + std::string(m.key())); if (!d.empty()) return d;
        }
        return "";
    }
    default: return "";
    }
}

// Is v inside format f's documented domain (so that an encode error would be a violation)?
template <class Json>
static bool in_domain(Fmt f, const Json& v, bool root = true) {
    if (f == BSON) {
        if (root && !v.is_object()) return false;
        if (v.type() == json_type::uint64 && v.template as<u64>() > (u64)INT64_MAX) return false;
    }
    if (v.is_array()) { for (const auto& e : v.array_range()) if (!in_domain(f, e, false)) return false; }
    if (v.is_object()) { for (const auto& m : v.object_range()) { if (f == BSON && m.key().find('\0') != jsoncons::string_view::npos) return false; if (!in_domain(f, m.value(), false)) return false; } }
    return true;
}

template <class Json>
static std::error_code do_encode(Fmt f, const Json& v, std::vector<uint8_t>& out, int route, bool pack, std::string& what) {
    std::error_code ec;
    if (route >= 2) {        // stream sinks: encode_X(v, std::ostream) and the stream encoder driven by dump()
        std::ostringstream os;
        try {
            switch (f) {
            case CBOR: { cbor::cbor_options o; o.pack_strings(pack); if (route == 2) cbor::encode_cbor(v, os, o); else { cbor::cbor_stream_encoder e(os, o); v.dump(e, ec); } break; }
            case MSGPACK: if (route == 2) msgpack::encode_msgpack(v, os); else { msgpack::msgpack_stream_encoder e(os); v.dump(e, ec); } break;
            case UBJSON: if (route == 2) ubjson::encode_ubjson(v, os); else { ubjson::ubjson_stream_encoder e(os); v.dump(e, ec); } break;
            case BSON: if (route == 2) bson::encode_bson(v, os); else { bson::bson_stream_encoder e(os); v.dump(e, ec); } break;
            }
        } catch (const ser_error& e) { ec = e.code(); what = e.what(); }
        catch (const json_exception& e) { ec = std::make_error_code(std::errc::invalid_argument); what = e.what(); }
        std::string t = os.str(); out.assign(t.begin(), t.end());
        return ec;
    }
    try {
        switch (f) {
        case CBOR: { cbor::cbor_options o; o.pack_strings(pack);
            if (route == 0) cbor::encode_cbor(v, out, o); else { cbor::cbor_bytes_encoder e(out, o); v.dump(e, ec); } break; }
        case MSGPACK: if (route == 0) msgpack::encode_msgpack(v, out); else { msgpack::msgpack_bytes_encoder e(out); v.dump(e, ec); } break;
        case UBJSON: if (route == 0) ubjson::encode_ubjson(v, out); else { ubjson::ubjson_bytes_encoder e(out); v.dump(e, ec); } break;
        case BSON: if (route == 0) bson::encode_bson(v, out); else { bson::bson_bytes_encoder e(out); v.dump(e, ec); } break;
        }
    } catch (const ser_error& e) { ec = e.code(); what = e.what(); }
    catch (const json_exception& e) { ec = std::make_error_code(std::errc::invalid_argument); what = e.what(); }
    return ec;
}

template <class Json>
static Json do_decode(Fmt f, const std::vector<uint8_t>& b, int route) {
    if (route == 1) {
        std::string s((const char*)b.data(), b.size()); std::istringstream is(s);
        switch (f) { case CBOR: return cbor::decode_cbor<Json>(is); case MSGPACK: return msgpack::decode_msgpack<Json>(is); case UBJSON: return ubjson::decode_ubjson<Json>(is); default: return bson::decode_bson<Json>(is); }
    }
    if (route == 2) {
        switch (f) { case CBOR: return cbor::decode_cbor<Json>(b.begin(), b.end()); case MSGPACK: return msgpack::decode_msgpack<Json>(b.begin(), b.end()); case UBJSON: return ubjson::decode_ubjson<Json>(b.begin(), b.end()); default: return bson::decode_bson<Json>(b.begin(), b.end()); }
    }
    switch (f) { case CBOR: return cbor::decode_cbor<Json>(b); case MSGPACK: return msgpack::decode_msgpack<Json>(b); case UBJSON: return ubjson::decode_ubjson<Json>(b); default: return bson::decode_bson<Json>(b); }
}

static std::string kind_at(const std::string& diff) { // coarse signature component from the diff text
    size_t p = diff.find(": "); std::string s = p == std::string::npos ? diff : diff.substr(p + 2);
    std::string out; for (char ch : s) { if (ch == ' ' || (ch >= '0' && ch <= '9') || ch == '-') break; out.push_back(ch); }
    // keep two words
    size_t q = s.find(' '); if (q != std::string::npos) { size_t q2 = s.find(' ', q + 1); std::string w2 = s.substr(q + 1, q2 == std::string::npos ? std::string::npos : q2 - q - 1); bool alpha = !w2.empty(); for (char ch : w2) if (!isalpha((unsigned char)ch)) alpha = false; if (alpha) out += "-" + w2; }
    return out;
}

struct Verdict { std::string sig, why; std::vector<uint8_t> bytes; bool refused = false; };

template <class Json>
static Verdict judge(Fmt f, const Json& v, int eroute, int droute, bool pack) {
    Verdict vd; std::string what;
    std::string base = std::string("binrt/") + fmt_name[f] + "/";
    bool dom = in_domain(f, v);
    std::error_code ec = do_encode(f, v, vd.bytes, eroute, pack, what);
    if (ec) { vd.refused = true; if (dom) { vd.sig = base + "encode-refused-in-domain/" + ec.message(); vd.why = ec.message() + " " + what; } return vd; }
    if (f == BSON && !v.is_object()) return vd;          // root is not a document: BSON-specific mapping, not value-judged (C05 covers safety)
    Json v2;
    try { v2 = do_decode<Json>(f, vd.bytes, droute); }
    catch (const std::exception& e) { vd.sig = base + "undecodable-output" + (dom ? "" : "/out-of-domain-not-refused"); vd.why = e.what(); return vd; }
    Ctx c{f, std::is_same<Json, ojson>::value};
    std::string d = fdiff(c, v, v2);
    if (!d.empty()) { vd.sig = base + "value-changed/" + kind_at(d) + (pack ? "/pack-strings" : "") + (dom ? "" : "/out-of-domain-not-refused"); vd.why = d; return vd; }
    std::vector<uint8_t> bytes2; std::string w2;
    if (!do_encode(f, v2, bytes2, 0, pack, w2)) {
        Json v3; bool ok = true;
        try { v3 = do_decode<Json>(f, bytes2, 0); } catch (...) { ok = false; }
        if (!ok || !fdiff(c, v2, v3).empty()) { vd.sig = base + "second-generation-differs"; vd.why = "decode(encode(decode(encode(v)))) differs"; }
    }
    return vd;
}

template <class Json>
static void roundtrip(Fmt f, const Json& v, Rng& r, const char* policy) {
    int eroute = (int)r.below(4), droute = (int)r.below(3);
    bool pack = f == CBOR && r.chance(1, 3);
    Verdict vd = judge(f, v, eroute, droute, pack);
    if (vd.refused) H.count_(std::string(fmt_name[f]) + ".encode_refused");
    if (!vd.sig.empty()) {
        Json small = H.viol_by_sig[vd.sig] < 3 ? shrink(v, [&](const Json& c) { return judge(f, c, eroute, droute, pack).sig == vd.sig; }) : v;
        Verdict vs = judge(f, small, eroute, droute, pack);
        H.violation(vd.sig, J().str("policy", policy).num("enc_route", eroute).num("dec_route", droute).boolean("pack_strings", pack)
            .str("value", describe(small).substr(0, 3000)).str("bytes", hex(vs.bytes).substr(0, 1200)).str("why", vs.why).done());
        return;
    }
    if (!vd.refused) { H.count_(std::string(fmt_name[f]) + ".judged"); if (pack) H.count_("cbor.judged_pack_strings"); }
}

// every encode route (encode_X into bytes, bytes encoder, encode_X into a stream, stream encoder) x decode route (bytes, stream, cursor) for one value: used for the fixed catalogue, where a
// route-specific fault (e.g. in a stream sink once its buffer overflows) must not depend on the draw of the routes
template <class Json>
static void roundtrip_all_routes(Fmt f, const Json& v, const char* policy) {
    for (int eroute = 0; eroute < 4; ++eroute) for (int droute = 0; droute < 3; ++droute) for (int pk = 0; pk < (f == CBOR ? 2 : 1); ++pk) {
        Verdict vd = judge(f, v, eroute, droute, pk != 0);
        if (!vd.sig.empty()) H.violation(vd.sig, J().str("policy", policy).num("enc_route", eroute).num("dec_route", droute).boolean("pack_strings", pk != 0).str("value", describe(v).substr(0, 600)).str("bytes", hex(vd.bytes).substr(0, 600)).str("why", vd.why).done());
        else if (!vd.refused) H.count_(std::string(fmt_name[f]) + ".judged_all_routes");
    }
}

// ---- typed vectors ---------------------------------------------------------------------------------------
template <class T> static T gen_elem(Rng& r) {
    if (std::is_floating_point<T>::value) { double d = gen_double_finite(r); if (sizeof(T) == 4) d = (double)(float)d; if (r.chance(1, 30)) d = INFINITY; return (T)d; }
    u64 x = r.coin() ? r.next() : (u64)gen_i64(r);
    if (r.chance(1, 4)) x = r.coin() ? (u64)std::numeric_limits<T>::max() : (u64)std::numeric_limits<T>::min();
    return (T)x;
}
template <class T> static bool same_elem(T a, T b) { return memcmp(&a, &b, sizeof(T)) == 0 || (a != a && b != b); }

template <class T>
static void typed_vector(Rng& r, const char* tname) {
    size_t n = gen_len(r, 300);
    std::vector<T> v(n); for (auto& x : v) x = gen_elem<T>(r);
    for (int f = 0; f < 4; ++f) {
        bool typed = f == CBOR && r.coin();
        std::vector<uint8_t> bytes; std::vector<T> v2; json j;
        std::string sig = std::string("binrt/typed-vector/") + fmt_name[f] + "/" + tname + (typed ? "/typed-array" : "");
        auto detail = [&](const std::string& why) { return J().str("elem", tname).unum("n", n).str("bytes", hex(bytes).substr(0, 400)).str("why", why).done(); };
        try {
            switch (f) {
            case CBOR: { cbor::cbor_options o; o.use_typed_arrays(typed); cbor::encode_cbor(v, bytes, o); v2 = cbor::decode_cbor<std::vector<T>>(bytes); j = cbor::decode_cbor<json>(bytes); break; }
            case MSGPACK: msgpack::encode_msgpack(v, bytes); v2 = msgpack::decode_msgpack<std::vector<T>>(bytes); j = msgpack::decode_msgpack<json>(bytes); break;
            case UBJSON: ubjson::encode_ubjson(v, bytes); v2 = ubjson::decode_ubjson<std::vector<T>>(bytes); j = ubjson::decode_ubjson<json>(bytes); break;
            default: {
                if (std::is_same<T, uint64_t>::value) { bool big = false; for (auto x : v) if ((u64)x > (u64)INT64_MAX) big = true; if (big) continue; }
                std::map<std::string, std::vector<T>> m{{"v", v}}; bson::encode_bson(m, bytes); auto m2 = bson::decode_bson<std::map<std::string, std::vector<T>>>(bytes); v2 = m2["v"]; j = bson::decode_bson<json>(bytes).at("v"); break; }
            }
        } catch (const std::exception& e) { H.violation(sig + "/exception", detail(e.what())); continue; }
        bool ok = v2.size() == v.size();
        for (size_t i = 0; ok && i < n; ++i) ok = same_elem(v[i], v2[i]);
        if (!ok) { H.violation(sig + "/typed-decode-differs", detail("decode_X<vector<T>> != original")); continue; }
        // DOM view of the same bytes
        if (f == UBJSON && std::is_same<T, uint8_t>::value && j.is_byte_string()) { /* accepted spelling */ }
        else {
            bool okj = j.is_array() && j.size() == n;
            for (size_t i = 0; okj && i < n; ++i) { T x = j[i].template as<T>(); okj = same_elem(x, v[i]); }
            if (!okj) H.violation(sig + "/dom-decode-differs", detail("decode_X<json> does not denote the same numbers"));
        }
        H.count_(std::string(fmt_name[f]) + (typed ? ".typed_array_judged" : ".vector_judged"));
    }
}

// value with many repeated strings (stringref tables of size 0,1,23,24,255,256)
static json gen_repeats(Rng& r) {
    static const size_t pools[] = {1, 2, 23, 24, 25, 255, 256, 257};
    size_t np = r.pick(pools);
    std::vector<std::string> pool;
    for (size_t i = 0; i < np; ++i) { std::string s = gen_string(r, 6); s += std::to_string(i); if (r.chance(1, 4)) s = std::string("abcd").substr(0, 1 + r.below(4)) ; pool.push_back(s); }
    json a(json_array_arg);
    size_t n = np + r.below(2 * np + 4);
    for (size_t i = 0; i < n; ++i) {
        const std::string& s = pool[r.below(pool.size())];
        switch (r.below(5)) {
        case 0: { json o(json_object_arg); o.try_emplace(s, pool[r.below(pool.size())]); o.try_emplace(pool[r.below(pool.size())], (int64_t)i); a.push_back(std::move(o)); break; }
        case 1: { std::vector<uint8_t> b(s.begin(), s.end()); a.push_back(json(byte_string_arg, b)); break; }
        default: a.push_back(s); break;
        }
    }
    return a;
}

int main(int argc, char** argv) {
    H.parse(argc, argv);
    auto body = [&](long long c) {
        Rng r = H.case_rng(c);
        unsigned mode = (unsigned)r.below(20);
        if (mode == 0) {
            switch (r.below(10)) { case 0: typed_vector<uint8_t>(r, "u8"); break; case 1: typed_vector<int8_t>(r, "i8"); break; case 2: typed_vector<uint16_t>(r, "u16"); break; case 3: typed_vector<int16_t>(r, "i16"); break;
                case 4: typed_vector<uint32_t>(r, "u32"); break; case 5: typed_vector<int32_t>(r, "i32"); break; case 6: typed_vector<uint64_t>(r, "u64"); break; case 7: typed_vector<int64_t>(r, "i64"); break;
                case 8: typed_vector<float>(r, "f32"); break; default: typed_vector<double>(r, "f64"); break; }
            H.note_distinct(mix((u64)c, 1));
            return;
        }
        if (mode == 1) {
            json v = gen_repeats(r);
            H.note_distinct(hash_str(describe(v)));
            std::vector<uint8_t> bytes; cbor::cbor_options o; o.pack_strings(true);
            std::string what; std::error_code ec = do_encode(CBOR, v, bytes, (int)r.below(2), true, what);
            if (ec) { H.violation("binrt/cbor/pack-strings/encode-error", J().str("why", ec.message()).done()); return; }
            try { json v2 = cbor::decode_cbor<json>(bytes); Ctx cx{CBOR, false}; std::string d = fdiff(cx, v, v2);
                if (!d.empty()) H.violation("binrt/cbor/pack-strings/value-changed", J().str("why", d).str("bytes", hex(bytes).substr(0, 800)).done()); }
            catch (const std::exception& e) { H.violation("binrt/cbor/pack-strings/undecodable", J().str("why", e.what()).str("bytes", hex(bytes).substr(0, 800)).done()); }
            H.count_("cbor.stringref_tables_judged");
            return;
        }
        for (int f = 0; f < 4; ++f) {
            Rng rf = H.case_rng(c, 100 + (u64)f);
            GenCfg g; g.max_depth = 4; g.max_width = 5; g.byte_strings = true; g.nonfinite = true; g.wide_sometimes = true;
            g.big_numbers = true; g.half = (f == CBOR); g.tags = (f == CBOR);
            if (rf.chance(1, 12)) { g.max_depth = 9; g.max_width = 2; }
            if (rf.coin()) {
                json v = gen_value<json>(rf, g);
                if (f == BSON && !v.is_object() && rf.chance(9, 10)) { json o(json_object_arg); o.try_emplace("root", std::move(v)); v = std::move(o); }
                if (nontrivial(v)) H.note_distinct(hash_str(describe(v), (u64)f));
                roundtrip<json>((Fmt)f, v, rf, "json");
                if (H.sample_seen < 12 || rf.chance(1, 3000)) H.sample(J().str("format", fmt_name[f]).str("value", describe(v).substr(0, 500)).done()); else ++H.sample_seen;
            } else {
                ojson v = gen_value<ojson>(rf, g);
                if (f == BSON && !v.is_object() && rf.chance(9, 10)) { ojson o(json_object_arg); o.try_emplace("root", std::move(v)); v = std::move(o); }
                if (nontrivial(v)) H.note_distinct(hash_str(describe(v), (u64)f + 8));
                roundtrip<ojson>((Fmt)f, v, rf, "ojson");
            }
        }
    };
    auto regress = [&]() {
        Rng r(5);
        // boundary catalogue: every integer width boundary, in every format
        static const i64 ib[] = {0, 23, 24, 127, 128, 255, 256, 32767, 32768, 65535, 65536, 2147483647LL, 2147483648LL, 4294967295LL, 4294967296LL, INT64_MAX, -1, -24, -25, -32, -33, -128, -129, -256, -257, -32768, -32769, -65536, -65537, -2147483648LL, -2147483649LL, -4294967296LL, -4294967297LL, INT64_MIN};
        json a(json_array_arg); for (i64 x : ib) a.push_back(x);
        a.push_back((u64)UINT64_MAX); a.push_back((u64)INT64_MAX + 1);
        json o(json_object_arg); o.try_emplace("ints", a);
        for (int f = 0; f < 4; ++f) for (int k = 0; k < 6; ++k) roundtrip<json>((Fmt)f, o, r, "json");
        json h(json_object_arg); h.try_emplace("h", json(half_arg, 0x3c00)); h.try_emplace("nan", json(half_arg, 0x7e00));
        for (int k = 0; k < 4; ++k) roundtrip<json>(CBOR, h, r, "json");
        // length boundaries for strings / byte strings / arrays
        // (15/16: MessagePack fix headers; 23/24: CBOR; 31/32: MessagePack fixstr; 255/256, 65535/65536: every format)
        for (size_t n : {0u, 1u, 14u, 15u, 16u, 17u, 23u, 24u, 25u, 31u, 32u, 33u, 255u, 256u, 257u, 65535u, 65536u, 65537u}) {
            json x(json_object_arg); x.try_emplace("s", std::string(n, 'x')); x.try_emplace("b", json(byte_string_arg, std::vector<uint8_t>(n, 7)));
            json arr(json_array_arg); for (size_t i = 0; i < n; ++i) arr.push_back(nullptr); x.try_emplace("a", arr);
            json obj(json_object_arg); ojson oobj(json_object_arg);
            for (size_t i = 0; i < n && n <= 300; ++i) { std::string k = "k" + std::to_string(i); obj.try_emplace(k, (uint64_t)i); oobj.try_emplace(k, (uint64_t)i); }   // object sizes up to 257 (sorted insertion is quadratic)
            x.try_emplace("o", obj);
            for (int f = 0; f < 4; ++f) { roundtrip<json>((Fmt)f, x, r, "json"); roundtrip<json>((Fmt)f, obj, r, "json"); roundtrip<ojson>((Fmt)f, oobj, r, "ojson");
                if (f != BSON) roundtrip<json>((Fmt)f, arr, r, "json"); }
            H.count_("regress.length_boundaries");
        }
        // MessagePack timestamp extension: epoch_second integers at the boundaries of the 32-, 64- and 96-bit forms
        for (i64 sec : {(i64)0, (i64)1, (i64)4294967295LL, (i64)4294967296LL, (i64)17179869183LL, (i64)17179869184LL, (i64)34359738368LL, (i64)253402300799LL, (i64)-1, (i64)-2147483648LL, (i64)-62135596800LL}) {
            json a(json_array_arg); a.push_back(json(sec, semantic_tag::epoch_second)); if (sec >= 0) a.push_back(json((uint64_t)sec, semantic_tag::epoch_second)); a.push_back(7);
            std::vector<uint8_t> b; msgpack::encode_msgpack(a, b); json back = msgpack::decode_msgpack<json>(b); H.count_("regress.msgpack_timestamps");
            // the decoder reports timestamp 32 as epoch_second and timestamp 64/96 as an epoch_nano decimal string: the instant must be the same
            std::string want_ns = (bigint(sec) * bigint(1000000000)).to_string();
            for (size_t i = 0; i + 1 < a.size(); ++i) {
                std::string got_ns = back[i].tag() == semantic_tag::epoch_second && back[i].is_number() ? (bigint(back[i].as<i64>()) * bigint(1000000000)).to_string()
                                   : back[i].tag() == semantic_tag::epoch_nano && back[i].is_string() ? back[i].as<std::string>() : std::string("?");
                if (got_ns != want_ns) H.violation("binrt/msgpack/timestamp/instant-changed", J().num("seconds", sec).str("bytes", hex(b)).str("got", describe(back[i])).done());
            }
            if (back.size() != a.size() || back[back.size() - 1].as<int>() != 7) H.violation("binrt/msgpack/timestamp/structure-changed", J().num("seconds", sec).str("bytes", hex(b)).done());
        }
        // CBOR bigfloat (tag 5) text form: mantissa and exponent are hexadecimal, exponents of one, two and three digits, with letters
        for (const char* bf : {"0x6AB3p-2", "0x6AB3p-10", "0x1p1A", "0x3p-1F", "0xFFp100", "-0x1p-A", "0x1p0", "0x7FFFFFFFFFFFFFFFp-3E8"}) {
            json a(json_array_arg); a.push_back(json(bf, semantic_tag::bigfloat)); a.push_back(7);
            std::vector<uint8_t> b; try { cbor::encode_cbor(a, b); json back = cbor::decode_cbor<json>(b); H.count_("regress.cbor_bigfloats");
                if (!back[0].is_string() || back[0].tag() != semantic_tag::bigfloat || back[0].as<std::string>() != bf) H.violation("binrt/cbor/bigfloat/text-changed", J().str("bigfloat", bf).str("bytes", hex(b)).str("got", describe(back[0])).done());
            } catch (const std::exception& e) { H.violation("binrt/cbor/bigfloat/refused-or-undecodable", J().str("bigfloat", bf).str("what", e.what()).done()); }
        }
        // documents larger than the 16 KiB buffers of the stream sinks/sources: long text and byte strings, alone, repeated and mixed with small items
        for (size_t n : {16383u, 16384u, 16385u, 20000u, 40000u, 70000u}) {
            json one(json_object_arg); one.try_emplace("s", std::string(n, 'q'));
            json many(json_array_arg); for (int i = 0; i < 5; ++i) { many.push_back(std::string(n / 2 + (size_t)i, (char)('a' + i))); many.push_back(i); many.push_back(json(byte_string_arg, std::vector<uint8_t>(n / 3 + (size_t)i, (uint8_t)i))); }
            json doc(json_object_arg); doc.try_emplace("m", many); doc.try_emplace("tail", "end");
            for (int f = 0; f < 4; ++f) { roundtrip_all_routes<json>((Fmt)f, one, "json"); roundtrip_all_routes<json>((Fmt)f, doc, "json"); }
            H.count_("regress.large_documents");
        }
    };
    return H.run(body, regress);
}
