// C17 stage "fixed": fixed-size shapes: std::array, std::pair, std::tuple (incl. empty and nested), and containers of them.
#include "c17/typed.hpp"
static_assert(C17_SHARED_REV == 10, "drivers/c17/*.hpp changed: bump the revision here so that the build cache is invalidated");
using namespace c17;
using std::vector; using std::string; using std::pair; using std::tuple; using std::array;

int main(int argc, char** argv) {
    std::vector<TypeEntry> t = {
        entry<array<int32_t, 3>>(), entry<array<string, 2>>(), entry<array<double, 4>>(), entry<array<uint8_t, 5>>(), entry<array<bool, 1>>(), entry<array<int32_t, 0>>(),
        entry<array<array<int32_t, 2>, 2>>(), entry<vector<array<int32_t, 2>>>(), entry<array<vector<string>, 2>>(), entry<array<std::optional<int32_t>, 3>>(),
        entry<pair<int32_t, string>>(), entry<pair<string, vector<int32_t>>>(), entry<pair<pair<int32_t, int32_t>, string>>(), entry<pair<std::optional<int32_t>, bool>>(),
        entry<pair<double, array<int32_t, 2>>>(), entry<vector<pair<string, int32_t>>>(),
        entry<tuple<>>(), entry<tuple<int32_t>>(), entry<tuple<int32_t, string, double>>(), entry<tuple<bool, vector<int32_t>, std::map<string, int32_t>>>(),
        entry<tuple<tuple<int32_t, string>, pair<int32_t, int32_t>>>(), entry<tuple<std::optional<int32_t>, string>>(), entry<tuple<string, array<int32_t, 2>>>(),
        entry<vector<tuple<int32_t, string>>>(), entry<std::optional<tuple<int32_t, string>>>(), entry<tuple<uint64_t, int8_t, float, string, bool, std::optional<string>>>(),
    };
    return run_table(argc, argv, t);
}
