// Exec driver for the JSON Pointer / JSON Patch monitors (C14, C15): executes the real jsonpointer / jsonpatch functions
// (error_code overloads, plus the throwing apply_patch) on documents that travel as JSON text, and reports the error
// code and the document text after every call. All judging happens offline against vlib/ref/pointer_patch_ref.py.
//
// Strings in replies are written with vf::jstr, i.e. every byte >= 0x7f as \u00XX: the consumer turns them back into
// UTF-8 with s.encode('latin-1').decode('utf-8').
#include "common/exec.hpp"
#include <jsoncons/json.hpp>
#include <jsoncons_ext/jsonpointer/jsonpointer.hpp>
#include <jsoncons_ext/jsonpatch/jsonpatch.hpp>

using namespace jsoncons;
using namespace vf;

static std::string ec_json(const std::error_code& ec) {
    if (!ec) return "null";
    return jstr(std::string(ec.category().name()) + ":" + std::to_string(ec.value()) + ":" + ec.message());
}
template <class Json> static std::string text_of(const Json& j) { std::string s; j.dump(s); return s; }
template <class Json> static std::string jtext(const Json& j) { return jstr(text_of(j)); }

// one pointer step on the evolving document
template <class Json> static std::string ptr_step(Json& doc, const json& st) {
    std::string fn = st["fn"].as<std::string>();
    std::string p = st.get_value_or<std::string>("ptr", "");
    bool has_create = st.contains("create");
    bool create = st.get_value_or<bool>("create", false);
    bool pre = st.get_value_or<std::string>("via", "s") == "p";     // "p": parse first, call the json_pointer overload
    Json v;
    if (st.contains("v")) v = Json::parse(st["v"].as<std::string>());
    std::error_code ec;
    std::string out;
    try {
        if (fn == "parse") {
            auto jp = jsonpointer::json_pointer::parse(p, ec);
            if (!ec) {
                out += kv("str", jstr(jp.to_string())) + ",";
                std::string toks = "[";
                bool f = true;
                for (const auto& t : jp) { if (!f) toks += ","; f = false; toks += jstr(t); }
                out += kv("tokens", toks + "]") + ",";
                // the constructor from a string must agree with parse()
                std::error_code ec2; jsonpointer::json_pointer q(p, ec2);
                out += kv("ctor_same", (!ec2 && q == jp) ? "true" : "false") + ",";
            }
        }
        else if (fn == "get") {
            if (has_create) {
                if (pre) { auto jp = jsonpointer::json_pointer::parse(p, ec); if (!ec) { Json& r = jsonpointer::get(doc, jp, create, ec); if (!ec) out += kv("val", jtext(r)) + ","; } }
                else { Json& r = jsonpointer::get(doc, p, create, ec); if (!ec) out += kv("val", jtext(r)) + ","; }
            } else {
                const Json& cdoc = doc;
                if (pre) { auto jp = jsonpointer::json_pointer::parse(p, ec); if (!ec) { const Json& r = jsonpointer::get(cdoc, jp, ec); if (!ec) out += kv("val", jtext(r)) + ","; } }
                else { const Json& r = jsonpointer::get(cdoc, p, ec); if (!ec) out += kv("val", jtext(r)) + ","; }
            }
        }
        else if (fn == "contains") {
            const Json& cdoc = doc;
            bool b;
            if (pre) { auto jp = jsonpointer::json_pointer::parse(p, ec); b = ec ? false : jsonpointer::contains(cdoc, jp); out += kv("parse_failed", ec ? "true" : "false") + ","; ec.clear(); }
            else b = jsonpointer::contains(cdoc, p);
            out += kv("b", b ? "true" : "false") + ",";
        }
        else if (fn == "add") {
            if (pre) { auto jp = jsonpointer::json_pointer::parse(p, ec); if (!ec) { if (has_create) jsonpointer::add(doc, jp, v, create, ec); else jsonpointer::add(doc, jp, v, ec); } }
            else { if (has_create) jsonpointer::add(doc, p, v, create, ec); else jsonpointer::add(doc, p, v, ec); }
        }
        else if (fn == "add_if_absent") {
            if (pre) { auto jp = jsonpointer::json_pointer::parse(p, ec); if (!ec) { if (has_create) jsonpointer::add_if_absent(doc, jp, v, create, ec); else jsonpointer::add_if_absent(doc, jp, v, ec); } }
            else { if (has_create) jsonpointer::add_if_absent(doc, p, v, create, ec); else jsonpointer::add_if_absent(doc, p, v, ec); }
        }
        else if (fn == "replace") {
            if (pre) { auto jp = jsonpointer::json_pointer::parse(p, ec); if (!ec) { if (has_create) jsonpointer::replace(doc, jp, v, create, ec); else jsonpointer::replace(doc, jp, v, ec); } }
            else { if (has_create) jsonpointer::replace(doc, p, v, create, ec); else jsonpointer::replace(doc, p, v, ec); }
        }
        else if (fn == "remove") {
            if (pre) { auto jp = jsonpointer::json_pointer::parse(p, ec); if (!ec) jsonpointer::remove(doc, jp, ec); }
            else jsonpointer::remove(doc, p, ec);
        }
        else if (fn == "flatten") {
            Json f = jsonpointer::flatten(doc);
            out += kv("val", jtext(f)) + ",";
        }
        else if (fn == "unflatten") {
            Json f = jsonpointer::flatten(doc);
            Json u = jsonpointer::unflatten(f);
            out += kv("flat", jtext(f)) + "," + kv("val", jtext(u)) + ",";
        }
        else return "{" + kv("error", jstr("unknown fn")) + "}";
    }
    catch (const json_exception&) {
        try { throw; } catch (const std::exception& e) { out += kv("threw", jstr(e.what())) + "," + kv("type", jstr(current_exception_type())) + ","; }
    }
    return "{" + out + kv("ec", ec_json(ec)) + "," + kv("doc", jtext(doc)) + "}";
}

template <class Json> static std::string do_ptr(const json& req) {
    Json doc = Json::parse(req["doc"].as<std::string>());
    std::string res = "[";
    bool first = true;
    for (const auto& st : req["steps"].array_range()) {
        if (!first) res += ",";
        first = false;
        res += ptr_step(doc, st);
    }
    return kv("res", res + "]");
}

// every patch is applied to a fresh copy of the document
template <class Json> static std::string do_patch(const json& req) {
    const Json doc = Json::parse(req["doc"].as<std::string>());
    std::string res = "[";
    bool first = true;
    for (const auto& pj : req["patches"].array_range()) {
        const Json patch = Json::parse(pj["patch"].as<std::string>());
        bool throwing = pj.get_value_or<std::string>("mode", "ec") == "throw";
        Json target = doc;
        std::string out;
        std::error_code ec;
        try {
            if (throwing) jsonpatch::apply_patch(target, patch);
            else jsonpatch::apply_patch(target, patch, ec);
        }
        catch (const json_exception&) {
            try { throw; } catch (const std::exception& e) {
                out += kv("threw", jstr(e.what())) + "," + kv("type", jstr(current_exception_type())) + ",";
                if (auto se = dynamic_cast<const std::system_error*>(&e)) out += kv("threw_ec", ec_json(se->code())) + ",";
            }
        }
        if (!first) res += ",";
        first = false;
        res += "{" + out + kv("ec", ec_json(ec)) + "," + kv("doc", jtext(target)) + "}";
    }
    return kv("res", res + "]");
}

template <class Json> static std::string do_diff(const json& req) {
    std::string res = "[";
    bool first = true;
    for (const auto& pr : req["pairs"].array_range()) {
        const Json a = Json::parse(pr["a"].as<std::string>());
        const Json b = Json::parse(pr["b"].as<std::string>());
        std::string out;
        std::error_code ec;
        Json target = a;
        try {
            Json patch = jsonpatch::from_diff(a, b);
            out += kv("patch", jtext(patch)) + ",";
            jsonpatch::apply_patch(target, patch, ec);
        }
        catch (const json_exception&) {
            try { throw; } catch (const std::exception& e) { out += kv("threw", jstr(e.what())) + "," + kv("type", jstr(current_exception_type())) + ","; }
        }
        if (!first) res += ",";
        first = false;
        res += "{" + out + kv("ec", ec_json(ec)) + "," + kv("doc", jtext(target)) + "," + kv("lib_equal", target == b ? "true" : "false") + "}";
    }
    return kv("res", res + "]");
}

static std::string handle(const json& req) {
    std::string op = req["op"].as<std::string>();
    bool ordered = req.get_value_or<std::string>("policy", "json") == "ojson";
    if (op == "ptr") return ordered ? do_ptr<ojson>(req) : do_ptr<json>(req);
    if (op == "patch") return ordered ? do_patch<ojson>(req) : do_patch<json>(req);
    if (op == "diff") return ordered ? do_diff<ojson>(req) : do_diff<json>(req);
    return kv("error", jstr("unknown op"));
}

int main(int argc, char** argv) { return exec_loop(argc, argv, handle); }
