// C05 (part 3): no value and option set given to any encoder can make it misbehave; values decoded from one format can
// be pushed into every other encoder.
#include "common/jvalue.hpp"
#include "common/mutate.hpp"
#include "common/robust.hpp"
#include <jsoncons/json.hpp>
#include <jsoncons_ext/cbor/cbor.hpp>
#include <jsoncons_ext/msgpack/msgpack.hpp>
#include <jsoncons_ext/ubjson/ubjson.hpp>
#include <jsoncons_ext/bson/bson.hpp>
#include <jsoncons_ext/csv/csv.hpp>
#include <jsoncons_ext/toon/toon.hpp>
#include <sstream>

using namespace jsoncons;
namespace vf { Harness* g_robust_harness = nullptr; std::string g_robust_input; }
using namespace vf;
static Harness H;
using Bytes = std::vector<uint8_t>;

static json gen_any(Rng& r) {
    GenCfg g; g.max_depth = 4; g.max_width = 4; g.byte_strings = true; g.nonfinite = true; g.half = true; g.tags = true; g.string_cap = 60;
    json v = gen_value<json>(r, g);
    if (r.chance(1, 6)) {       // exotic tags / kinds produced by the decoders
        json a(json_array_arg);
        a.push_back(json(gen_i64(r), semantic_tag::epoch_milli)); a.push_back(json(gen_u64(r), semantic_tag::epoch_nano)); a.push_back(json("0x1.8p1", semantic_tag::bigfloat)); a.push_back(json("-12345678901234567890123", semantic_tag::bigint));
        a.push_back(json("1.5", semantic_tag::bigdec)); a.push_back(json(byte_string_arg, std::vector<uint8_t>{1, 2, 3}, (uint64_t)r.below(300))); a.push_back(json::null()); a.push_back(json(null_type(), semantic_tag::undefined));
        a.push_back(json("^a.*$", semantic_tag::regex)); a.push_back(json("function(){}", semantic_tag::code)); a.push_back(json("507f1f77bcf86cd799439011", semantic_tag::id)); a.push_back(json("1.5E+10", semantic_tag::float128));
        a.push_back(json(gen_double_finite(r), semantic_tag::epoch_second)); a.push_back(json("2020-01-01", semantic_tag::datetime)); a.push_back(json("\xff\xfe", semantic_tag::none));
        a.push_back(std::move(v)); v = std::move(a);
    }
    return v;
}

template <class Json> static void all_encoders(const Json& v, Rng& r) {
    // JSON text with every precision-related option
    guard("encode.json(options)", [&] {
        json_options o;
        static const float_chars_format ff[] = {float_chars_format::general, float_chars_format::fixed, float_chars_format::scientific, float_chars_format::hex};
        if (r.coin()) o.float_format(r.pick(ff));
        if (r.coin()) { static const int pr[] = {0, 1, 2, 5, 15, 16, 17, 18, 30, 60, 100, 127}; o.precision((int8_t)r.pick(pr)); }
        if (r.coin()) { static const bignum_format_kind bf[] = {bignum_format_kind::raw, bignum_format_kind::base10, bignum_format_kind::base64, bignum_format_kind::base64url}; o.bignum_format(r.pick(bf)); }
        if (r.coin()) { static const byte_string_chars_format bs[] = {byte_string_chars_format::none, byte_string_chars_format::base16, byte_string_chars_format::base64, byte_string_chars_format::base64url}; o.byte_string_format(r.pick(bs)); }
        if (r.coin()) { o.nan_to_num("null"); o.inf_to_num("1e9999"); } else if (r.coin()) { o.nan_to_str("NaN"); o.inf_to_str("Infinity"); }
        if (r.coin()) o.indent_size((uint8_t)r.below(256));
        if (r.coin()) o.line_length_limit(r.below(200));
        if (r.coin()) o.escape_all_non_ascii(true);
        if (r.chance(1, 6)) o.max_nesting_depth((int)r.below(6));
        std::string s; std::error_code ec;
        if (r.coin()) v.dump(s, o, indenting::indent, ec); else v.dump(s, o, indenting::no_indent, ec);
        std::ostringstream os; if (r.coin()) os << pretty_print(v, o); else os << print(v, o);
    });
    guard("encode.cbor", [&] { Bytes b; cbor::cbor_options o; o.pack_strings(r.coin()); o.use_typed_arrays(r.coin()); if (r.chance(1, 6)) o.max_nesting_depth((int)r.below(6)); cbor::encode_cbor(v, b, o); });
    guard("encode.msgpack", [&] { Bytes b; msgpack::msgpack_options o; if (r.chance(1, 6)) o.max_nesting_depth((int)r.below(6)); msgpack::encode_msgpack(v, b, o); });
    guard("encode.ubjson", [&] { Bytes b; ubjson::ubjson_options o; if (r.chance(1, 6)) o.max_nesting_depth((int)r.below(6)); ubjson::encode_ubjson(v, b, o); });
    guard("encode.bson", [&] { Bytes b; bson::bson_options o; if (r.chance(1, 6)) o.max_nesting_depth((int)r.below(6)); bson::encode_bson(v, b, o); });
    guard("encode.bson(stream)", [&] { std::ostringstream os; bson::encode_bson(v, os); });
    if (v.is_array() || v.is_object()) guard("encode.csv", [&] { std::string s; csv::csv_options o; static const csv::quote_style_kind st[] = {csv::quote_style_kind::minimal, csv::quote_style_kind::all, csv::quote_style_kind::nonnumeric, csv::quote_style_kind::none}; o.quote_style(r.pick(st));
        if (r.coin()) o.flat(r.coin()); if (r.coin()) o.column_names("a,b,c"); if (r.chance(1, 4)) o.subfield_delimiter(';'); if (r.chance(1, 5)) o.max_nesting_depth(r.below(4));
        if (r.coin()) { static const float_chars_format ff[] = {float_chars_format::general, float_chars_format::fixed, float_chars_format::scientific}; o.float_format(r.pick(ff)); static const int pr[] = {0, 2, 17, 60, 127}; o.precision((int8_t)r.pick(pr)); }
        csv::encode_csv(v, s, o); });
    // TOON: untagged values only; its number formatter loops on some tagged number strings (open finding, witness below)
    if (describe(v).find("\"t\":") == std::string::npos) guard("encode.toon", [&] { std::string s; toon::toon_options o; o.indent(1 + r.below(8)); if (r.chance(1, 5)) o.max_nesting_depth((int)r.below(5)); toon::encode_toon(v, s, o); });
}

int main(int argc, char** argv) {
    H.parse(argc, argv); g_robust_harness = &H;
    auto body = [&](long long c) {
        Rng r = H.case_rng(c);
        json v = gen_any(r);
        std::string d = describe(v);
        g_robust_input = d; set_flight_desc("value " + hex(d.substr(0, 1200)));
        if (nontrivial(v)) H.note_distinct(hash_str(d));
        if (c % 3 == 0) { ojson ov = ojson::parse(v.is_object() || v.is_array() ? json::parse("[]").to_string() : "[]"); (void)ov; }
        all_encoders(v, r);
        // transcoding: decode from format A (with that format's tags), push into every encoder
        if (c % 2 == 0) {
            int f = (int)r.below(4); Bytes b; bool ok = true;
            try { switch (f) { case 0: { cbor::cbor_options o; o.use_typed_arrays(true); cbor::encode_cbor(v, b, o); break; } case 1: msgpack::encode_msgpack(v, b); break; case 2: ubjson::encode_ubjson(v, b); break; default: { json o(json_object_arg); o.try_emplace("r", v); bson::encode_bson(o, b); } } } catch (const std::exception&) { ok = false; }
            if (ok) { mutate_bytes(b, r, 2); json w; bool dec = true;
                try { switch (f) { case 0: w = cbor::decode_cbor<json>(b); break; case 1: w = msgpack::decode_msgpack<json>(b); break; case 2: w = ubjson::decode_ubjson<json>(b); break; default: w = bson::decode_bson<json>(b); } } catch (const std::exception&) { dec = false; }
                if (dec) { g_robust_input = "transcode from format " + std::to_string(f) + " bytes " + hex(b).substr(0, 2000); set_flight_desc(g_robust_input.substr(0, 3000)); H.count_("transcoded_values"); all_encoders(w, r); } }
        }
        if (H.sample_seen < 8 || r.chance(1, 5000)) H.sample(J().str("value", d.substr(0, 200)).done()); else ++H.sample_seen;
        if (c % 4000 == 3999) leak_window_check(c);
    };
    struct Witness { const char* id; std::function<void()> fn; };
    std::vector<Witness> W = {
        {"toon-encoder-hangs-on-tagged-number-strings", [] { json a(json_array_arg); a.push_back(json("0x1.8p1", semantic_tag::bigfloat)); a.push_back(json("not a number", semantic_tag::bigint)); a.push_back(json("1.5", semantic_tag::bigdec)); a.push_back(json("1.5E+10", semantic_tag::float128)); a.push_back(json("1e400", semantic_tag::bigdec));
            for (const auto& e : a.array_range()) { std::string s; toon::encode_toon(e, s); } }},
        {"csv-encoder-scalar-root-trips-assertion", [] { std::string s; csv::encode_csv(json(255), s); }},
    };
    if (H.opt("mode") == "witnesses") {
        auto wbody = [&](long long c) {
            if (c < 0 || c >= (long long)W.size()) return;
            const Witness& w = W[(size_t)c];
            g_robust_input = w.id; set_flight_desc(std::string("witness ") + w.id);
            H.note_distinct((u64)c); H.count_("witnesses_executed");
            guard((std::string("witness.") + w.id).c_str(), w.fn);
            H.sample(J().str("witness", w.id).done());
        };
        return H.run(wbody);
    }
    return H.run(body);
}
