// C17 stage "classes": classes described with each trait macro family (ALL/N x MEMBER / CTOR_GETTER / GETTER_SETTER and the
// *_NAME_TRAITS variants), templates via JSONCONS_TPL_*, classes containing classes, containers, optionals, variants, enums.
#include "c17/typed.hpp"
#include "c17/types_class.hpp"
static_assert(C17_SHARED_REV == 10, "drivers/c17/*.hpp changed: bump the revision here so that the build cache is invalidated");
using namespace c17;
using namespace c17t;

int main(int argc, char** argv) {
    std::vector<TypeEntry> t = {
        entry<AllMember>(), entry<NMember>(), entry<AllCtorGetter>(), entry<NCtorGetter>(), entry<AllGetterSetter>(), entry<NGetterSetter>(),
        entry<AllMemberName>(), entry<NMemberName>(), entry<AllCtorGetterName>(), entry<NCtorGetterName>(), entry<AllGetterSetterName>(), entry<NGetterSetterName>(),
        entry<Tpl1<int32_t>>(), entry<Tpl1<std::vector<std::string>>>(), entry<Tpl2<std::string, double>>(), entry<Tpl2<AllMemberName, std::vector<int32_t>>>(),
        entry<Outer>(), entry<Loose>(),
        entry<std::vector<AllMember>>(), entry<std::vector<NMember>>(), entry<std::map<std::string, NCtorGetter>>(), entry<std::optional<AllMember>>(),
        entry<std::pair<AllMemberName, int32_t>>(), entry<std::tuple<NMemberName, std::string>>(), entry<std::shared_ptr<NMember>>(),
    };
    return run_table(argc, argv, t);
}
