// C17 stage "scalars": bool, every fixed-width integer type, float, double, std::string, optional and smart pointers of scalars.
#include "c17/typed.hpp"
static_assert(C17_SHARED_REV == 10, "drivers/c17/*.hpp changed: bump the revision here so that the build cache is invalidated");
using namespace c17;

int main(int argc, char** argv) {
    std::vector<TypeEntry> t = {
        entry<bool>(), entry<int8_t>(), entry<int16_t>(), entry<int32_t>(), entry<int64_t>(),
        entry<uint8_t>(), entry<uint16_t>(), entry<uint32_t>(), entry<uint64_t>(), entry<long long>(), entry<unsigned long long>(),
        entry<float>(), entry<double>(), entry<std::string>(),
        entry<std::optional<int32_t>>(), entry<std::optional<std::string>>(), entry<std::optional<double>>(), entry<std::optional<bool>>(), entry<std::optional<uint64_t>>(),
        entry<std::shared_ptr<int64_t>>(), entry<std::shared_ptr<std::string>>(), entry<std::shared_ptr<double>>(),
        entry<std::unique_ptr<int32_t>>(), entry<std::unique_ptr<std::string>>(), entry<std::unique_ptr<bool>>(),
    };
    return run_table(argc, argv, t);
}
