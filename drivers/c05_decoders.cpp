// C05 (part 1): no byte sequence given to any decoder through any entry point can make it misbehave.
// Structure-aware mutational workload (seeds: encodings of generated values, spec-style vectors, JSONTestSuite and
// repository fixtures) driven through decode_*, readers, cursors (walk + read_to), parsers, typed decoding, CSV and TOON.
// Oracle: sanitizers (ASan+UBSan+LSan), the documented-error-channel rule (common/robust.hpp), per-case watchdog.
#include "common/jvalue.hpp"
#include "common/mutate.hpp"
#include "common/robust.hpp"
#include "common/events.hpp"
#include <jsoncons/json.hpp>
#include <jsoncons_ext/cbor/cbor.hpp>
#include <jsoncons_ext/msgpack/msgpack.hpp>
#include <jsoncons_ext/ubjson/ubjson.hpp>
#include <jsoncons_ext/bson/bson.hpp>
#include <jsoncons_ext/csv/csv.hpp>
#include <jsoncons_ext/toon/toon.hpp>
#include <jsoncons_ext/toon/decode_toon.hpp>
#include <sstream>
#include <memory>
#include <map>
#include <tuple>

using namespace jsoncons;
namespace vf { Harness* g_robust_harness = nullptr; std::string g_robust_input; }
using namespace vf;
static Harness H;
using Bytes = std::vector<uint8_t>;

struct Pt { int x = 0; std::string name; std::vector<double> v; jsoncons::optional<int> o; };
JSONCONS_N_MEMBER_TRAITS(Pt, 1, x, name, v, o)

template <class Cursor> static void walk_cursor(Cursor& cur, Rng& r) {
    std::error_code ec; int n = 0;
    while (!cur.done() && n++ < 200000) {
        const auto& e = cur.current();
        if ((e.event_type() == staj_event_type::begin_array || e.event_type() == staj_event_type::begin_object) && r.chance(1, 6)) { json_decoder<json> d; cur.read_to(d, ec); if (ec) return; }
        else if (e.event_type() == staj_event_type::string_value || e.event_type() == staj_event_type::key) { (void)e.template get<jsoncons::string_view>(ec); ec.clear(); }
        else if (r.chance(1, 4)) { (void)e.template get<std::string>(ec); ec.clear(); (void)e.template get<double>(ec); ec.clear(); (void)e.template get<int64_t>(ec); ec.clear(); }
        if (cur.done()) return;          // read_to may have consumed the whole input
        cur.next(ec); if (ec) return;
    }
}

template <class Json> static void use_value(const Json& v) { std::string s; v.dump(s); Json c(v); (void)(c == v); }

static void bin_case(int f, const Bytes& b, Rng& r) {
    static const char* fn[] = {"cbor", "msgpack", "ubjson", "bson"};
    std::string pre = fn[f];
    std::string s((const char*)b.data(), b.size());
    int depth = r.chance(1, 8) ? (int)r.below(5) : 1024;
    guard((pre + ".decode<json>(bytes)").c_str(), [&] { json v; switch (f) { case 0: { cbor::cbor_options o; o.max_nesting_depth(depth); v = cbor::decode_cbor<json>(b, o); break; } case 1: { msgpack::msgpack_options o; o.max_nesting_depth(depth); v = msgpack::decode_msgpack<json>(b, o); break; } case 2: { ubjson::ubjson_options o; o.max_nesting_depth(depth); if (r.chance(1, 4)) o.max_items(r.below(50)); v = ubjson::decode_ubjson<json>(b, o); break; } default: { bson::bson_options o; o.max_nesting_depth(depth); v = bson::decode_bson<json>(b, o); } } use_value(v); });
    guard((pre + ".decode<ojson>(stream)").c_str(), [&] { std::istringstream is(s); ojson v; switch (f) { case 0: v = cbor::decode_cbor<ojson>(is); break; case 1: v = msgpack::decode_msgpack<ojson>(is); break; case 2: v = ubjson::decode_ubjson<ojson>(is); break; default: v = bson::decode_bson<ojson>(is); } use_value(v); });
    guard((pre + ".decode<json>(iterators)").c_str(), [&] { json v; switch (f) { case 0: v = cbor::decode_cbor<json>(b.begin(), b.end()); break; case 1: v = msgpack::decode_msgpack<json>(b.begin(), b.end()); break; case 2: v = ubjson::decode_ubjson<json>(b.begin(), b.end()); break; default: v = bson::decode_bson<json>(b.begin(), b.end()); } });
    guard((pre + ".try_decode").c_str(), [&] { switch (f) { case 0: { auto x = cbor::try_decode_cbor<json>(b); (void)x; break; } case 1: { auto x = msgpack::try_decode_msgpack<json>(b); (void)x; break; } case 2: { auto x = ubjson::try_decode_ubjson<json>(b); (void)x; break; } default: { auto x = bson::try_decode_bson<json>(b); (void)x; } } });
    guard((pre + ".reader+recorder").c_str(), [&] { Recorder rec; rec.cap = 100000; std::error_code ec; switch (f) { case 0: { cbor::cbor_bytes_reader rd(b, rec); rd.read(ec); break; } case 1: { msgpack::msgpack_bytes_reader rd(b, rec); rd.read(ec); break; } case 2: { ubjson::ubjson_bytes_reader rd(b, rec); rd.read(ec); break; } default: { bson::bson_bytes_reader rd(b, rec); rd.read(ec); } } });
    guard((pre + ".cursor").c_str(), [&] { std::error_code ec; switch (f) { case 0: { cbor::cbor_bytes_cursor c(b, ec); if (!ec) walk_cursor(c, r); break; } case 1: { msgpack::msgpack_bytes_cursor c(b, ec); if (!ec) walk_cursor(c, r); break; } case 2: { ubjson::ubjson_bytes_cursor c(b, ec); if (!ec) walk_cursor(c, r); break; } default: { bson::bson_bytes_cursor c(b, ec); if (!ec) walk_cursor(c, r); } } });
    guard((pre + ".cursor(stream)").c_str(), [&] { std::istringstream is(s); std::error_code ec; switch (f) { case 0: { cbor::cbor_stream_cursor c(is, ec); if (!ec) walk_cursor(c, r); break; } case 1: { msgpack::msgpack_stream_cursor c(is, ec); if (!ec) walk_cursor(c, r); break; } case 2: { ubjson::ubjson_stream_cursor c(is, ec); if (!ec) walk_cursor(c, r); break; } default: { bson::bson_stream_cursor c(is, ec); if (!ec) walk_cursor(c, r); } } });
    switch (r.below(6)) {
    case 0: guard((pre + ".decode<vector<int>>").c_str(), [&] { switch (f) { case 0: (void)cbor::decode_cbor<std::vector<int>>(b); break; case 1: (void)msgpack::decode_msgpack<std::vector<int>>(b); break; case 2: (void)ubjson::decode_ubjson<std::vector<int>>(b); break; default: (void)bson::decode_bson<std::map<std::string, int>>(b); } }); break;
    case 1: guard((pre + ".decode<vector<double>>").c_str(), [&] { switch (f) { case 0: (void)cbor::decode_cbor<std::vector<double>>(b); break; case 1: (void)msgpack::decode_msgpack<std::vector<double>>(b); break; case 2: (void)ubjson::decode_ubjson<std::vector<double>>(b); break; default: (void)bson::decode_bson<std::map<std::string, double>>(b); } }); break;
    case 2: guard((pre + ".decode<map<string,string>>").c_str(), [&] { switch (f) { case 0: (void)cbor::decode_cbor<std::map<std::string, std::string>>(b); break; case 1: (void)msgpack::decode_msgpack<std::map<std::string, std::string>>(b); break; case 2: (void)ubjson::decode_ubjson<std::map<std::string, std::string>>(b); break; default: (void)bson::decode_bson<std::map<std::string, std::string>>(b); } }); break;
    case 3: guard((pre + ".decode<struct>").c_str(), [&] { switch (f) { case 0: (void)cbor::decode_cbor<Pt>(b); break; case 1: (void)msgpack::decode_msgpack<Pt>(b); break; case 2: (void)ubjson::decode_ubjson<Pt>(b); break; default: (void)bson::decode_bson<Pt>(b); } }); break;
    case 4: guard((pre + ".decode<vector<uint8_t>>").c_str(), [&] { switch (f) { case 0: (void)cbor::decode_cbor<std::vector<uint8_t>>(b); break; case 1: (void)msgpack::decode_msgpack<std::vector<uint8_t>>(b); break; case 2: (void)ubjson::decode_ubjson<std::vector<uint8_t>>(b); break; default: (void)bson::decode_bson<std::map<std::string, std::vector<uint8_t>>>(b); } }); break;
    default: guard((pre + ".decode<tuple>").c_str(), [&] { switch (f) { case 0: (void)cbor::decode_cbor<std::tuple<int, std::string, double>>(b); break; case 1: (void)msgpack::decode_msgpack<std::tuple<int, std::string, double>>(b); break; case 2: (void)ubjson::decode_ubjson<std::tuple<int, std::string, double>>(b); break; default: (void)bson::decode_bson<std::map<std::string, std::tuple<int, std::string>>>(b); } }); break;
    }
}

static void json_case(const std::string& t, Rng& r) {
    json_options o;
    if (r.chance(1, 4)) o.allow_comments(r.coin());
    if (r.chance(1, 4)) o.allow_trailing_comma(r.coin());
    if (r.chance(1, 6)) o.max_nesting_depth((int)r.below(8));
    if (r.chance(1, 4)) o.lossless_number(true);
    if (r.chance(1, 4)) o.lossless_bignum(false);
    if (r.chance(1, 5)) { o.nan_to_str("NaN"); o.inf_to_str("Inf"); }
    guard("json.parse(string)", [&] { json v = json::parse(t, o); use_value(v); });
    guard("json.parse(stream)", [&] { std::istringstream is(t); ojson v = ojson::parse(is, o); use_value(v); });
    guard("json.parse(iterators)", [&] { json v = json::parse(t.begin(), t.end(), o); });
    guard("json.reader", [&] { Recorder rec; rec.cap = 100000; std::error_code ec; json_string_reader rd(t, rec, o); rd.read(ec); });
    guard("json.cursor", [&] { std::error_code ec; json_string_cursor c(t, o, ec); if (!ec) walk_cursor(c, r); });
    guard("json.cursor(stream)", [&] { std::istringstream is(t); std::error_code ec; json_stream_cursor c(is, o, ec); if (!ec) walk_cursor(c, r); });
    // each chunk lives in its own heap block of exactly its size: a read past the end of a chunk is visible to ASan
    guard("json.parser(incremental)", [&] { json_decoder<json> d; json_parser p(o); std::error_code ec; size_t i = 0; std::vector<std::unique_ptr<char[]>> chunks; std::vector<size_t> lens;
        while (i < t.size()) { size_t n = 1 + r.below(r.coin() ? 4 : 17); if (n > t.size() - i) n = t.size() - i; std::unique_ptr<char[]> b(new char[n]); memcpy(b.get(), t.data() + i, n); chunks.push_back(std::move(b)); lens.push_back(n); i += n; }
        for (size_t k = 0; k < chunks.size(); ++k) { p.update(chunks[k].get(), lens[k]); p.parse_some(d, ec); if (ec) return; } p.finish_parse(d, ec); if (!ec) p.check_done(ec); });
    guard("json.try_decode_json<T>", [&] { switch (r.below(5)) { case 0: { auto x = try_decode_json<std::vector<int>>(t); (void)x; break; } case 1: { auto x = try_decode_json<std::map<std::string, std::string>>(t); (void)x; break; } case 2: { auto x = try_decode_json<Pt>(t); (void)x; break; } case 3: { auto x = try_decode_json<std::tuple<int, std::string, double>>(t); (void)x; break; } default: { auto x = try_decode_json<std::vector<jsoncons::optional<double>>>(t); (void)x; } } });
    if (r.chance(1, 4)) guard("wjson.parse", [&] { std::wstring w; for (unsigned char c : t) w.push_back((wchar_t)c); wjson v = wjson::parse(w); std::wstring s; v.dump(s); });
}

static void csv_case(const std::string& t, Rng& r) {
    csv::csv_options o; std::string od;
    static const char ds[] = {',', ';', '\t', '|'}; o.field_delimiter(r.pick(ds));
    if (r.coin()) o.assume_header(r.coin());
    static const csv::csv_mapping_kind mk[] = {csv::csv_mapping_kind::n_rows, csv::csv_mapping_kind::n_objects, csv::csv_mapping_kind::m_columns}; o.mapping_kind(r.pick(mk));
    bool has_names = false;
    if (r.chance(1, 3)) { o.trim(true); od += "trim "; }
    if (r.chance(1, 3)) { o.ignore_empty_values(true); od += "ignore_empty_values "; }
    if (r.chance(1, 3)) { o.unquoted_empty_value_is_null(true); od += "unquoted_empty_value_is_null "; }
    if (r.chance(1, 4)) { o.infer_types(false); od += "infer_types "; }
    if (r.chance(1, 4)) { o.quote_escape_char('\\'); od += "quote_escape_char "; }
    if (r.chance(1, 4)) { o.column_types("integer,string,float,boolean,string*"); od += "column_types "; }
    if (r.chance(1, 5)) { o.column_names("a,b,c"); has_names = true; od += "column_names "; }
    if (r.chance(1, 5)) { o.header_lines(r.below(4)); od += "header_lines "; }
    if (r.chance(1, 5)) { o.max_lines(r.below(5)); od += "max_lines "; }
    if (r.chance(1, 5)) o.subfield_delimiter(';');
    if (r.chance(1, 5)) { o.comment_starter('#'); od += "comment_starter "; }
    if (r.chance(1, 5)) { o.lossless_number(true); od += "lossless_number "; }
    if (r.chance(1, 6)) { o.column_defaults("1,x,2.5"); od += "column_defaults "; }
    // mapping n_objects without a header line or column names is a misconfiguration that trips an assertion on the unchanged tree
    // (open finding, witnessed in regress()): random cases use it only with names available
    if (o.mapping_kind() == csv::csv_mapping_kind::n_objects && !o.assume_header() && !has_names) o.assume_header(true);
    od += "delim=" + hex(std::string(1, o.field_delimiter())) + " mapping=" + std::to_string((int)o.mapping_kind()) + (o.assume_header() ? " header" : " noheader");
    g_robust_input += " opts: " + od;
    guard("csv.decode<json>(string)", [&] { json v = csv::decode_csv<json>(t, o); use_value(v); });
    guard("csv.decode<ojson>(stream)", [&] { std::istringstream is(t); ojson v = csv::decode_csv<ojson>(is, o); });
    guard("csv.cursor", [&] { std::error_code ec; csv::csv_string_cursor c(t, o, ec); if (!ec) walk_cursor(c, r); });
    guard("csv.decode<vector<vector<string>>>", [&] { csv::csv_options o2 = o; o2.mapping_kind(csv::csv_mapping_kind::n_rows); auto x = csv::try_decode_csv<std::vector<std::vector<std::string>>>(t, o2); (void)x; });
    guard("csv.parser(incremental)", [&] { json_decoder<json> d; csv::csv_parser p(o); std::error_code ec; size_t i = 0; std::vector<std::string> chunks; while (i < t.size()) { size_t n = 1 + r.below(9); chunks.push_back(t.substr(i, n)); i += n; }
        size_t ci = 0; int spins = 0;
        while (!p.stopped() && spins++ < 100000) { if (p.source_exhausted() && ci < chunks.size()) { p.update(chunks[ci].data(), chunks[ci].size()); ++ci; } p.parse_some(d, ec); if (ec) return; } });
}
static void toon_case(const std::string& t, Rng& r) {
    toon::toon_options o; if (r.coin()) o.indent(1 + r.below(6)); if (r.chance(1, 3)) o.strict(false); if (r.chance(1, 5)) o.max_nesting_depth((int)r.below(6));
    guard("toon.decode<json>(string)", [&] { json v = toon::decode_toon<json>(t, o); use_value(v); });
    guard("toon.decode<ojson>(stream)", [&] { std::istringstream is(t); ojson v = toon::decode_toon<ojson>(is, o); });
}

static std::vector<std::string> g_json_seeds, g_csv_seeds, g_toon_seeds; static std::vector<Bytes> g_bin_seeds[4];
static const std::vector<std::string> JSON_DICT = {"{", "}", "[", "]", ",", ":", "\"", "\\", "\\u", "\\ud83d", "\\ude00", "\\u0000", "true", "false", "null", "1", "-", "0", ".", "e", "E+", " ", "\n", "\r\n", "\t", "/", "/*", "*/", "//", "1e400", "\xc3", "\xa9", "\xef\xbb\xbf", "\xff", "NaN", "Inf", "[[[[", "{\"a\":"};
static const std::vector<std::string> CSV_DICT = {",", ";", "\t", "|", "\"", "\"\"", "\n", "\r\n", "\r", " ", "#", "1", "-1.5e3", "true", "null", "a", "\\", "\\\"", ",,,,", "\"\n\""};
static const std::vector<std::string> TOON_DICT = {":", ": ", "-", "- ", "[", "]", "{", "}", "[3]:", "[2]{a,b}:", ",", "|", "\t", "\n", "\n  ", "\n    ", "\"", "\\", "\\n", "\\u0041", "null", "true", "1", "-0", "1e400", "#", "[#2]", " ", "a.b"};

static void load_seeds() {
    std::string repo = getenv("VERIF_REPO") ? getenv("VERIF_REPO") : "/repo";
    g_json_seeds = {"[]", "{}", "null", "[1,2.5,-3e5,\"x\",true,null,{\"a\":[{}]}]", "{\"a\":{\"b\":{\"c\":[1,[2,[3,[4]]]]}},\"a\":1}", "\"\\ud83d\\ude00\\u00e9\\n\"", "[18446744073709551616,-9223372036854775809,1e400,1.7976931348623157e308,5e-324]", "// c\n[1,/* x */2,]", "{\"x\":1, \"v\":[1.5,2.5], \"name\":\"n\", \"o\":3}", "[1,\"s\",2.5]", "[[1,2],[3,4]]", "{\"k\":\"v\",\"k2\":\"v2\"}"};
    for (auto& f : list_files(repo + "/test/corelib/input/JSONTestSuite", ".json")) { std::string s = read_file(f); if (s.size() <= 4096) g_json_seeds.push_back(s); }
    g_csv_seeds = {"a,b,c\n1,2,3\n4,5,6\n", "\"x,y\",\"q\"\"r\",\r\n,,\r\n", "h1;h2\n1.5;true\nnull;\"multi\nline\"\n", "# comment\na|b\n1|2\n", "1,2,3", "\n\n", "a,b\n\"unterminated", "k,v\nx,1;2;3\n"};
    for (auto& f : list_files(repo + "/test/csv/input", ".csv")) { std::string s = read_file(f); if (s.size() <= 4096) g_csv_seeds.push_back(s); }
    g_toon_seeds = {"a: 1\nb:\n  c: x\n", "[3]: 1,2,3", "items[2]{id,name}:\n  1,a\n  2,b\n", "[2]:\n  - 1\n  - a: 2\n    b: 3\n", "k: \"q\\\"x\"\n", "e:\nea[0]:\nn: null\n", "[2|]{a|b}:\n  1|2\n  3|4\n", "x[#2]: 1,2\n"};
    Rng r(4242); GenCfg g; g.byte_strings = true; g.nonfinite = true; g.max_depth = 4; g.max_width = 4; g.string_cap = 40;
    for (int i = 0; i < 60; ++i) for (int f = 0; f < 4; ++f) {
        GenCfg gf = g; gf.half = gf.tags = f == 0; json v = gen_value<json>(r, gf); if (f == 3 && !v.is_object()) { json o(json_object_arg); o.try_emplace("r", v); v = o; }
        Bytes b; try { switch (f) { case 0: { cbor::cbor_options o; o.pack_strings(i % 3 == 0); o.use_typed_arrays(true); cbor::encode_cbor(v, b, o); break; } case 1: msgpack::encode_msgpack(v, b); break; case 2: ubjson::encode_ubjson(v, b); break; default: bson::encode_bson(v, b); } } catch (const std::exception&) { continue; }
        g_bin_seeds[f].push_back(b);
    }
    // hand-written vectors: typed arrays, multi-dimensional arrays, bignums, decimal fractions, bigfloats, stringrefs, indefinite strings, ext/timestamps, optimized UBJSON containers, BSON special types
    auto hx = [](const char* h) { std::string t; for (const char* q = h; *q; ++q) if (*q != ' ') t.push_back(*q); return unhex(t); };
    for (const char* h : {"d84044010203", "d85648000000000000f03f", "d8458200010203", "d82882820203820102030405", "d9041082820202840102030401", "c249010000000000000000", "c4822003", "c5822003", "c48221c24a00112233445566778899", "d90100836161d8190061626161",
        "7f6161626262ff", "5f41014102ff", "9f01ff", "bf616101ff", "f97e00", "f90001", "fa7fc00000", "fb7ff8000000000000", "f7", "f6", "f8ff", "c074323031332d30332d32315432303a30343a30305a", "c11a514b67b0", "d82076687474703a2f2f7777772e6578616d706c652e636f6d", "d8184564494554", "a201020304"}) g_bin_seeds[0].push_back(hx(h));
    for (const char* h : {"d6ff00000000", "d7ff0000000100000002", "c70cff000000010000000000000002", "c7030a010203", "c80003050102 03", "dc000201c0", "de0001a16101", "cb3ff8000000000000", "d3ffffffffffffffff", "cf8000000000000000", "d9026162", "c403010203"}) g_bin_seeds[1].push_back(hx(h));
    for (const char* h : {"5b24552355030102 03", "5b2469235502ff7f", "5b2464235501 3f800000", "7b2469235501550161 05", "5b235502 5a 54", "485503312e35", "4361", "53690361 6263", "5b5b5d5b5d5d", "7b55016b5b5d7d", "5b244c2355010000000000000001", "4c7fffffffffffffff", "5b2424235501"}) g_bin_seeds[2].push_back(hx(h));
    for (const char* h : {"160000000268656c6c6f0006000000776f726c640000", "0c0000001061000100000000", "100000000161000000000000000840 00", "1400000007610001020304050607080910111200", "0d0000000861000100", "10000000096100e8030000000000000 0", "0e0000000b610061620069000 0", "1500000005610005000000800102030405 00", "18000000136100000000000000000000000000000000403000", "0800000 0ff610000", "0d0000001161000100000002000000 00", "1300000003610 00b0000001062000100000000 00", "13000000046100 0b00000010300001000000 0000"}) g_bin_seeds[3].push_back(hx(h));
}

int main(int argc, char** argv) {
    H.parse(argc, argv); g_robust_harness = &H;
    load_seeds();
    auto body = [&](long long c) {
        Rng r = H.case_rng(c);
        unsigned k = (unsigned)(c % 8);
        if (k < 4) {
            Bytes b = r.pick(g_bin_seeds[k]);
            if (k == 0 && r.chance(1, 8)) {
                // RFC 8746 typed arrays (every element type and byte order) alone and as storage of a multi-dimensional array (tag 40 / 1040)
                // whose extents multiply to fewer, as many or more elements than stored
                unsigned tag = 64 + (unsigned)r.below(24);
                static const unsigned esz[] = {1, 2, 4, 8, 1, 2, 4, 8, 1, 2, 4, 8, 1, 2, 4, 8, 2, 4, 8, 16, 2, 4, 8, 16};
                size_t n = r.below(7); Bytes payload(n * esz[tag - 64]); for (auto& x : payload) x = (uint8_t)r.next();
                if (r.chance(1, 4) && !payload.empty()) payload.pop_back();       // not a multiple of the element size
                Bytes ta = {0xd8, (uint8_t)tag}; if (payload.size() < 24) ta.push_back((uint8_t)(0x40 | payload.size())); else { ta.push_back(0x58); ta.push_back((uint8_t)payload.size()); } ta.insert(ta.end(), payload.begin(), payload.end());
                if (r.coin()) b = ta;
                else {
                    size_t d1 = r.below(5), d2 = r.below(5); if (r.coin() && n > 0) { d1 = 1 + r.below(n); d2 = n / d1 + (size_t)r.below(2); }
                    b.clear(); if (r.coin()) { b.push_back(0xd8); b.push_back(40); } else { b.push_back(0xd9); b.push_back(0x04); b.push_back(0x10); }
                    b.push_back(0x82); if (r.chance(1, 6)) { b.push_back(0x83); b.push_back((uint8_t)r.below(4)); } else b.push_back(0x82); b.push_back((uint8_t)d1); b.push_back((uint8_t)d2);
                    if (r.chance(1, 5)) { b.push_back((uint8_t)(0x80 | n)); for (size_t i = 0; i < n; ++i) b.push_back((uint8_t)r.below(24)); } else b.insert(b.end(), ta.begin(), ta.end());
                }
                H.count_("cbor.typed_array_and_mdarray_inputs");
            }
            if (r.chance(1, 12)) { Bytes b2 = r.pick(g_bin_seeds[r.below(4)]); b.insert(b.begin() + (long)r.below(b.size() + 1), b2.begin(), b2.end()); }
            mutate_bytes(b, r, 5);
            g_robust_input = hex(b); set_flight_desc(std::string("bin") + std::to_string(k) + " " + g_robust_input.substr(0, 3000));
            H.note_distinct(fnv1a(b.data(), b.size(), k));
            bin_case((int)k, b, r);
        } else if (k < 6) {
            std::string t = r.pick(g_json_seeds); mutate_text(t, r, JSON_DICT, 5);
            g_robust_input = hex(t); set_flight_desc("json " + g_robust_input.substr(0, 3000));
            H.note_distinct(hash_str(t, 11));
            json_case(t, r);
        } else if (k == 6) {
            std::string t = r.pick(g_csv_seeds); mutate_text(t, r, CSV_DICT, 5);
            g_robust_input = hex(t); set_flight_desc("csv " + g_robust_input.substr(0, 3000));
            H.note_distinct(hash_str(t, 12));
            csv_case(t, r);
        } else {
            // TOON: only unmutated seed documents with random options. Mutated TOON text crashes the reader of the unchanged tree in
            // several ways (open findings, isolated witnesses in --mode witnesses); fuzzing it would only rediscover those.
            std::string t = r.pick(g_toon_seeds);
            // ... except inside a sub-space that stays clear of the known crash triggers (tab characters: T10/T11; exponents of three or
            // more digits: T12): token-level mutation with a tab-free dictionary
            if (r.coin()) {
                static const std::vector<std::string> SAFE = {":", ": ", "-", "- ", "[", "]", "{", "}", "[3]:", "[2]{a,b}:", ",", "|", "\n", "\n  ", "\n    ", "\"", "\"\"", "\\", "\\n", "\\u0041", "null", "true", "1", "-0", "1e40", "#", "[#2]", " ", "a.b", "a: \"", "\"x", "x\""};
                mutate_text(t, r, SAFE, 3);
                bool risky = t.find('\t') != std::string::npos;
                for (size_t i = 0; i + 3 < t.size() && !risky; ++i) if ((t[i] == 'e' || t[i] == 'E')) { size_t j = i + 1; if (j < t.size() && (t[j] == '+' || t[j] == '-')) ++j; size_t d = 0; while (j < t.size() && isdigit((unsigned char)t[j])) { ++j; ++d; } if (d >= 3) risky = true; }
                if (risky) { H.count_("toon.mutation_skipped_known_crash_trigger"); t = r.pick(g_toon_seeds); } else H.count_("toon.mutated_inputs");
            }
            g_robust_input = hex(t); set_flight_desc("toon " + g_robust_input.substr(0, 3000));
            H.note_distinct(hash_str(t, 13) ^ (u64)c);
            toon_case(t, r);
        }
        if (H.sample_seen < 8 || r.chance(1, 5000)) H.sample(J().num("kind", k).str("input_hex", g_robust_input.substr(0, 160)).done()); else ++H.sample_seen;
        if (c % 4000 == 3999) leak_window_check(c);
    };
    // isolated witnesses of open findings (known_findings.json): one per case so that a crashing witness does not hide the others
    struct Witness { const char* id; std::function<void()> fn; };
    std::vector<Witness> W = {
        {"csv-n_objects-without-header-or-column-names", [] { csv::csv_options o; o.mapping_kind(csv::csv_mapping_kind::n_objects).assume_header(false); json v = csv::decode_csv<json>(std::string("k,v\nx,1\n"), o); (void)v; }},
        {"toon-dangling-line-span", [] { for (size_t ind = 1; ind <= 6; ++ind) for (int st = 0; st < 2; ++st) { toon::toon_options o; o.indent(ind); o.strict(st); (void)toon::try_decode_toon<json>(std::string("0[2]:\n  - 1\n  - a: 2\n    b: 3\n\t"), o); } }},
        {"toon-single-tab", [] { for (size_t ind = 1; ind <= 6; ++ind) for (int st = 0; st < 2; ++st) { toon::toon_options o; o.indent(ind); o.strict(st); (void)toon::try_decode_toon<json>(std::string("\t"), o); } }},
        {"toon-huge-exponent", [] { (void)toon::try_decode_toon<json>(std::string("1e4429496729600")); }},
        {"toon-open-braces", [] { for (size_t ind = 1; ind <= 6; ++ind) for (int st = 0; st < 2; ++st) { toon::toon_options o; o.indent(ind); o.strict(st); (void)toon::try_decode_toon<json>(std::string(200, '{'), o); std::istringstream is(std::string(200, '{')); (void)toon::try_decode_toon<ojson>(is, o); } }},
    };
    if (H.opt("mode") == "witnesses") {
        auto wbody = [&](long long c) {
            if (c < 0 || c >= (long long)W.size()) return;
            const Witness& w = W[(size_t)c];
            g_robust_input = w.id; set_flight_desc(std::string("witness ") + w.id);
            H.note_distinct((u64)c);
            H.count_("witnesses_executed");
            guard((std::string("witness.") + w.id).c_str(), w.fn);
            H.sample(J().str("witness", w.id).done());
        };
        return H.run(wbody);
    }
    return H.run(body);
}
