// C01: JSON text round-trip is lossless and canonical.
// Events: (v, opts, policy, CharT, api) -> T1; parse(T1) -> v2; dump(v2, opts) -> T2.
// Oracle: strict structural equality v == v2 (kinds, exact ints, double bits modulo sign of zero, bignum text),
// T2 == T1 byte for byte, every serialization API gives the same text, T1 is accepted by the independent RFC 8259
// recogniser and its minified form equals the minified compact text; wchar_t output converts to the char output.
#include "common/jvalue.hpp"
#include "common/rfc8259.hpp"
#include <jsoncons/json.hpp>
#include <sstream>

using namespace vf;
using namespace jsoncons;

static Harness H;

struct OptDesc { std::string text; };

template <class CharT>
static basic_json_options<CharT> make_opts(Rng& r, std::string& desc, bool small = true) {
    basic_json_options<CharT> o;
    auto ls = [&](const char* name) { line_split_kind k = (line_split_kind)r.below(3); desc += std::string(name) + "=" + std::to_string((int)k) + " "; return k; };
    if (r.chance(9, 10)) { static const int sz[] = {0, 1, 2, 3, 4, 8, 255}; int v = r.pick(sz); if (v == 255 && !small) v = 5; o.indent_size((uint8_t)v); desc += "indent=" + std::to_string(v) + " "; }
    if (r.coin()) { bool tab = r.coin(); o.indent_char(tab ? CharT('\t') : CharT(' ')); desc += tab ? "tab " : "space "; }
    if (r.chance(2, 3)) { int v = (int)r.below(4); o.spaces_around_colon((spaces_option)v); desc += "colon=" + std::to_string(v) + " "; }
    if (r.chance(2, 3)) { int v = (int)r.below(4); o.spaces_around_comma((spaces_option)v); desc += "comma=" + std::to_string(v) + " "; }
    if (r.coin()) { bool b = r.coin(); o.pad_inside_object_braces(b); desc += b ? "padobj " : ""; }
    if (r.coin()) { bool b = r.coin(); o.pad_inside_array_brackets(b); desc += b ? "padarr " : ""; }
    if (r.coin()) o.root_line_splits(ls("root"));
    if (r.chance(2, 3)) o.object_object_line_splits(ls("oo"));
    if (r.chance(2, 3)) o.object_array_line_splits(ls("oa"));
    if (r.chance(2, 3)) o.array_array_line_splits(ls("aa"));
    if (r.chance(2, 3)) o.array_object_line_splits(ls("ao"));
    if (r.chance(2, 3)) { static const size_t ll[] = {0, 1, 2, 10, 40, 120, 1000000}; size_t v = r.pick(ll); o.line_length_limit(v); desc += "ll=" + std::to_string(v) + " "; }
    if (r.coin()) { static const char* nl[] = {"\n", "\r\n", "\r", ""}; const char* v = r.pick(nl); std::basic_string<CharT> w; for (const char* q = v; *q; ++q) w.push_back((CharT)*q); o.new_line_chars(w); desc += "nl=" + hex(std::string(v)) + " "; }
    if (r.coin()) { bool b = r.coin(); o.escape_all_non_ascii(b); desc += b ? "escna " : ""; }
    if (r.coin()) { bool b = r.coin(); o.escape_solidus(b); desc += b ? "escsol " : ""; }
    return o;
}

static std::string first_diff(const std::string& a, const std::string& b) {
    size_t i = 0; while (i < a.size() && i < b.size() && a[i] == b[i]) ++i;
    size_t s = i > 30 ? i - 30 : 0;
    return "at " + std::to_string(i) + " of " + std::to_string(a.size()) + "/" + std::to_string(b.size()) + ": ..." + a.substr(s, 60) + "... vs ..." + b.substr(s, 60) + "...";
}
static std::string to_utf8(const std::wstring& w) { std::string s; for (wchar_t c : w) put_utf8(s, (uint32_t)c); return s; }
static std::wstring to_wide(const std::string& s) {
    std::wstring w; size_t i = 0;
    while (i < s.size()) {
        unsigned char c = (unsigned char)s[i]; uint32_t cp; int n;
        if (c < 0x80) { cp = c; n = 0; } else if (c < 0xE0) { cp = c & 0x1F; n = 1; } else if (c < 0xF0) { cp = c & 0x0F; n = 2; } else { cp = c & 0x07; n = 3; }
        for (int k = 1; k <= n; ++k) cp = (cp << 6) | ((unsigned char)s[i + k] & 0x3F);
        w.push_back((wchar_t)cp); i += (size_t)n + 1;
    }
    return w;
}

template <class Json>
static void api_texts(const Json& v, const json_options& o, bool pretty, std::vector<std::pair<const char*, std::string>>& out) {
    { std::string s; v.dump(s, o, pretty ? indenting::indent : indenting::no_indent); out.emplace_back("dump", s); }
    if (pretty) { std::string s; v.dump_pretty(s, o); out.emplace_back("dump_pretty", s); }
    { std::ostringstream os; if (pretty) os << pretty_print(v, o); else os << print(v, o); out.emplace_back("operator<<", os.str()); }
    { std::ostringstream os; v.dump(os, o, pretty ? indenting::indent : indenting::no_indent); out.emplace_back("dump(ostream)", os.str()); }
    { std::string s; encode_json(v, s, o, pretty ? indenting::indent : indenting::no_indent); out.emplace_back("encode_json", s); }
    { std::string s; if (pretty) { json_string_encoder enc(s, o); v.dump(enc); } else { compact_json_string_encoder enc(s, o); v.dump(enc); } out.emplace_back("encoder+dump(visitor)", s); }
}

template <class Json>
static void check_one(const char* policy, const Json& v, Rng& r) {
    std::string desc;
    int md = 0; size_t nodes = 0; shape(v, 0, md, nodes);
    json_options o = make_opts<char>(r, desc, nodes < 40);
    bool pretty = r.chance(3, 4);
    desc += pretty ? "pretty" : "compact";
    CmpCfg cc; cc.zero_sign = false; cc.ordered_objects = std::is_same<Json, ojson>::value;
    std::vector<std::pair<const char*, std::string>> texts;
    api_texts(v, o, pretty, texts);
    const std::string& T1 = texts[0].second;
    auto viol = [&](const std::string& sig, const std::string& why, const std::string& t2 = "") {
        H.violation(std::string("roundtrip/") + policy + "/" + sig, J().str("opts", desc).str("value", describe(v).substr(0, 1500)).str("T1", T1.substr(0, 1500)).str("diff", t2.empty() ? "" : first_diff(T1, t2)).str("why", why).done());
    };
    for (size_t i = 1; i < texts.size(); ++i)
        if (texts[i].second != T1) { viol(std::string("api-differs/") + texts[i].first, "text differs between serialization APIs", texts[i].second); }
    H.count_("texts", texts.size());
    // (3) independent recogniser
    std::string min1;
    if (!rfc::accepts(T1, rfc::Opts(), nullptr, &min1)) { viol("not-rfc8259", "output rejected by the independent RFC 8259 recogniser"); return; }
    {
        std::string compact; v.dump(compact, o, indenting::no_indent);
        std::string minc;
        if (!rfc::accepts(compact, rfc::Opts(), nullptr, &minc)) { viol("compact-not-rfc8259", "compact output rejected", compact); return; }
        if (minc != min1) viol("layout-changes-tokens", "pretty text differs from compact text in more than inter-token whitespace", compact);
    }
    // (1) parse back
    Json v2;
    try { v2 = Json::parse(T1); }
    catch (const std::exception& e) { viol("reparse-fails", e.what()); return; }
    std::string d = strict_diff(v, v2, cc);
    if (!d.empty()) { viol("value-changed", d); return; }
    // (2) canonical
    std::string T2; v2.dump(T2, o, pretty ? indenting::indent : indenting::no_indent);
    if (T2 != T1) viol("not-canonical", "re-serialization differs", T2);
    H.count_(pretty ? "judged.pretty" : "judged.compact");
    // reader route: parse through json_reader/json_decoder as well
    {
        json_decoder<Json> dec; json_string_reader rd(T1, dec); std::error_code ec; rd.read(ec);
        if (ec || !dec.is_valid()) viol("reader-reparse-fails", ec.message());
        else { Json v3 = dec.get_result(); std::string d3 = strict_diff(v, v3, cc); if (!d3.empty()) viol("reader-value-changed", d3); }
    }
    if (H.sample_seen < 20 || r.chance(1, 2000)) H.sample(J().str("policy", policy).str("opts", desc).str("T1", T1.size() > 400 ? T1.substr(0, 400) + "..." : T1).done()); else ++H.sample_seen;
}

// wchar_t: the wide serializer must produce exactly the char text, and round-trip.
static void check_wide(const json& v, Rng& r) {
    std::string desc;
    Rng r2 = r;           // same option stream for both widths
    int md = 0; size_t nodes = 0; shape(v, 0, md, nodes);
    json_options o = make_opts<char>(r, desc, nodes < 40);
    std::string desc2;
    wjson_options wo = make_opts<wchar_t>(r2, desc2, nodes < 40);
    bool pretty = r.coin();
    std::string compact; v.dump(compact);
    wjson wv;
    try { wv = wjson::parse(to_wide(compact)); } catch (const std::exception& e) { H.violation("roundtrip/wchar/parse-fails", J().str("text", compact).str("why", e.what()).done()); return; }
    std::wstring wT1; wv.dump(wT1, wo, pretty ? indenting::indent : indenting::no_indent);
    json v1 = json::parse(compact);
    std::string T1; v1.dump(T1, o, pretty ? indenting::indent : indenting::no_indent);
    std::string u = to_utf8(wT1);
    // Layout may legitimately differ (line_length_limit counts code units, which differ between UTF-8 and UTF-32):
    // the token sequence, escapes included, must be identical.
    std::string mc, mw;
    if (!rfc::accepts(u, rfc::Opts(), nullptr, &mw)) { H.violation("roundtrip/wchar/not-rfc8259", J().str("opts", desc).str("text", u.substr(0, 1500)).done()); return; }
    if (!rfc::accepts(T1, rfc::Opts(), nullptr, &mc)) return; // reported by check_one
    if (mc != mw) { H.violation("roundtrip/wchar/differs-from-char", J().str("opts", desc).str("diff", first_diff(mc, mw)).str("compact", compact.substr(0, 300)).done()); return; }
    if (u == T1) H.count_("wchar.layout_identical_to_char");
    wjson wv2;
    try { wv2 = wjson::parse(wT1); } catch (const std::exception& e) { H.violation("roundtrip/wchar/reparse-fails", J().str("text", u).str("why", e.what()).done()); return; }
    std::wstring wT2; wv2.dump(wT2, wo, pretty ? indenting::indent : indenting::no_indent);
    if (wT2 != wT1) H.violation("roundtrip/wchar/not-canonical", J().str("opts", desc).str("T1", u).str("T2", to_utf8(wT2)).done());
    // value level: compact texts of wv and wv2 agree and the char value agrees with the original
    std::string d = strict_diff(v, json::parse(to_utf8(wT1)), [] { CmpCfg c; c.zero_sign = false; return c; }());
    if (!d.empty()) H.violation("roundtrip/wchar/value-changed", J().str("opts", desc).str("T1", u).str("why", d).done());
    H.count_("judged.wchar");
}

int main(int argc, char** argv) {
    H.parse(argc, argv);
    GenCfg g; g.max_depth = 4; g.max_width = 5; g.big_numbers = true; g.wide_sometimes = true;
    auto body = [&](long long c) {
        Rng r = H.case_rng(c);
        GenCfg gc = g; if (r.chance(1, 10)) { gc.max_depth = 8; gc.max_width = 3; }
        json v = gen_value<json>(r, gc);
        std::string dv = describe(v);
        if (nontrivial(v)) H.note_distinct(hash_str(dv));
        check_one<json>("json", v, r);
        if (r.coin()) { Rng rv = H.case_rng(c, 7); ojson ov = gen_value<ojson>(rv, gc); check_one<ojson>("ojson", ov, r); }
        if (c % 8 == 0) check_wide(v, r);
    };
    auto regress = [&]() {
        Rng r(99);
        // hand-written boundary values
        const char* texts[] = {"[0,-0,1,-1,9223372036854775807,-9223372036854775808,18446744073709551615,18446744073709551616,-9223372036854775809]",
            "[0.0,-0.0,1e-7,1e21,1.7976931348623157e308,5e-324,2.2250738585072014e-308,1e400,-1.5e-400,0.1,123456789012345678.0]",
            "{\"\":\"\",\"\\u0000\":\"\\u001f\\u007f\\u0080\\u2028\\u2029\\ud83d\\ude00\\/\\\\\\\"\",\"a/b\":\"</script>\"}", "[]", "{}", "[[],{},[{}],{\"a\":[]}]", "\"\"", "null"};
        for (const char* t : texts) { json v = json::parse(t); for (int k = 0; k < 40; ++k) { check_one<json>("json", v, r); ojson ov = ojson::parse(t); check_one<ojson>("ojson", ov, r); check_wide(v, r); } }
    };
    return H.run(body, regress);
}
