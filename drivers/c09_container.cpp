// C09: basic_json behaves as a value-semantic JSON container.
// (1) History monitor: random operation sequences over a pool of json / ojson slots are mirrored on an
//     independent model (vf::MV); after every operation every slot must equal its model (sorted-key order for
//     json, insertion order for ojson), copies must be independent, moved-from/swapped values must stay usable.
// (2) Relational laws over all pairs of a catalogue of values of every storage kind and tag.
// (3) is<T>() => as<T>() returns the stored number exactly.
#include "common/model.hpp"
#include "common/jvalue.hpp"
#include <jsoncons/json.hpp>

using namespace vf;
using namespace jsoncons;

static Harness H;
static const std::vector<std::string> KEYS = {"a", "b", "c", "", "k~/\"", "long_member_name_beyond_sso", "B", "aa"};

static MGen mg() { MGen g; g.max_depth = 3; g.max_width = 4; g.keys = KEYS; g.doubles = false; return g; }

template <class Json> struct Pool {
    static constexpr bool sorted = std::is_same<Json, json>::value;
    std::vector<Json> v; std::vector<MV> m;
    const char* name;
    std::string trace;
    explicit Pool(const char* n) : v(4), m(4), name(n) { for (auto& x : m) x = MV::obj(); }   // default json is an empty object

    static void model_sort(MV& x) { if (sorted && x.k == MV::Obj) x.sort_keys(); }
    // normalise a model tree for the policy: json keeps members sorted by key
    static void norm(MV& x) { if (x.k == MV::Obj) { model_sort(x); for (auto& kv : x.o) norm(kv.second); } else if (x.k == MV::Arr) for (auto& e : x.a) norm(e); }

    bool check_all(const std::string& op) {
        for (size_t i = 0; i < v.size(); ++i) {
            MV got = mv_from_json(v[i]);
            std::string g = mv_dump(got, false), w = mv_dump(m[i], false);
            if (g != w) {
                H.violation(std::string("container/") + name + "/model-mismatch/" + op.substr(0, op.find(' ')), J().str("after", op).num("slot", (long long)i).str("got", g.substr(0, 800)).str("want", w.substr(0, 800)).str("trace", trace.size() > 1500 ? trace.substr(trace.size() - 1500) : trace).done());
                // resynchronise so that one defect does not cascade
                for (size_t k = 0; k < v.size(); ++k) v[k] = mv_to_json<Json>(m[k]);
                return false;
            }
            // size/empty observers agree
            size_t want_size = m[i].k == MV::Arr ? m[i].a.size() : m[i].k == MV::Obj ? m[i].o.size() : 0;
            if ((v[i].is_array() || v[i].is_object()) && (v[i].size() != want_size || v[i].empty() != (want_size == 0)))
                H.violation(std::string("container/") + name + "/size-observer", J().str("after", op).done());
        }
        return true;
    }
    // locate a container inside slot s by a random walk; returns pointers into both trees
    void descend(Rng& r, size_t s, Json*& jp, MV*& mp) {
        jp = &v[s]; mp = &m[s];
        for (int d = 0; d < 3 && r.coin(); ++d) {
            if (mp->k == MV::Arr && !mp->a.empty()) { size_t i = r.below(mp->a.size()); if (mp->a[i].k != MV::Arr && mp->a[i].k != MV::Obj) break; jp = &(*jp)[i]; mp = &mp->a[i]; }
            else if (mp->k == MV::Obj && !mp->o.empty()) { size_t i = r.below(mp->o.size()); if (mp->o[i].second.k != MV::Arr && mp->o[i].second.k != MV::Obj) break; jp = &jp->at(mp->o[i].first); mp = &mp->o[i].second; }
            else break;
        }
    }
    void step(Rng& r) {
        MGen g = mg();
        size_t i = r.below(v.size()), j = r.below(v.size());
        std::string op;
        switch (r.below(20)) {
        case 0: { MV x = gen_mv(r, g); norm(x); v[i] = mv_to_json<Json>(x); m[i] = x; op = "construct " + std::to_string(i); break; }
        case 1: { Json tmp(v[j]); v[i] = std::move(tmp); m[i] = m[j]; op = "copy-construct " + std::to_string(i) + "<-" + std::to_string(j); break; }
        case 2: { if (i == j) return; Json tmp(std::move(v[j])); v[i] = std::move(tmp); m[i] = m[j];
                  // moved-from must be usable: observable, then assignable
                  (void)v[j].to_string(); v[j] = mv_to_json<Json>(m[j]); op = "move-construct " + std::to_string(i) + "<-" + std::to_string(j); break; }
        case 3: { v[i] = v[j]; m[i] = m[j]; op = "copy-assign " + std::to_string(i) + "<-" + std::to_string(j); break; }
        case 4: { if (i == j) return; v[i] = std::move(v[j]); m[i] = m[j]; (void)v[j].to_string(); MV nv = gen_mv(r, g); norm(nv); v[j] = mv_to_json<Json>(nv); m[j] = nv; op = "move-assign " + std::to_string(i) + "<-" + std::to_string(j); break; }
        case 5: { v[i].swap(v[j]); if (i != j) std::swap(m[i], m[j]); op = "swap " + std::to_string(i) + "," + std::to_string(j); break; }
        case 6: { std::swap(v[i], v[j]); if (i != j) std::swap(m[i], m[j]); op = "std::swap " + std::to_string(i) + "," + std::to_string(j); break; }
        default: {
            Json* jp; MV* mp; descend(r, i, jp, mp);
            MV val = gen_mv(r, g, 2); norm(val);
            const std::string& key = r.pick(KEYS);
            if (mp->k == MV::Obj) {
                switch (r.below(10)) {
                case 0: case 1: {
                          if (r.chance(1, 3)) {   // hinted overload: any position is a legal hint, the result must not depend on it
                              size_t hpos = r.below(mp->o.size() + 1); MV* e0 = mp->find(key); if (e0 && r.coin()) { hpos = 0; for (auto& kv : mp->o) { if (kv.first == key) break; ++hpos; } }   // often exactly at the existing member
                              auto hint = jp->object_range().begin(); std::advance(hint, (long)hpos);
                              auto it = jp->insert_or_assign(hint, key, mv_to_json<Json>(val)); MV* e = mp->find(key); if (e) *e = val; else { mp->o.emplace_back(key, val); model_sort(*mp); }
                              if (it == jp->object_range().end() || std::string(it->key()) != key) H.violation(std::string("container/") + name + "/hinted-insert_or_assign-result", J().str("key", key).done());
                              op = "insert_or_assign(hint) " + key; break; }
                          auto res = jp->insert_or_assign(key, mv_to_json<Json>(val)); MV* e = mp->find(key); bool inserted = e == nullptr; if (e) *e = val; else { mp->o.emplace_back(key, val); model_sort(*mp); }
                          if (res.second != inserted) H.violation(std::string("container/") + name + "/insert_or_assign-result", J().str("key", key).done()); op = "insert_or_assign " + key; break; }
                case 2: {
                          if (r.chance(1, 3)) {
                              size_t hpos = r.below(mp->o.size() + 1); MV* e0 = mp->find(key); if (e0 && r.coin()) { hpos = 0; for (auto& kv : mp->o) { if (kv.first == key) break; ++hpos; } }
                              auto hint = jp->object_range().begin(); std::advance(hint, (long)hpos);
                              auto it = jp->try_emplace(hint, key, mv_to_json<Json>(val)); bool inserted = mp->find(key) == nullptr; if (inserted) { mp->o.emplace_back(key, val); model_sort(*mp); }
                              if (it == jp->object_range().end() || std::string(it->key()) != key) H.violation(std::string("container/") + name + "/hinted-try_emplace-result", J().str("key", key).done());
                              op = "try_emplace(hint) " + key; break; }
                          auto res = jp->try_emplace(key, mv_to_json<Json>(val)); bool inserted = mp->find(key) == nullptr; if (inserted) { mp->o.emplace_back(key, val); model_sort(*mp); }
                          if (res.second != inserted) H.violation(std::string("container/") + name + "/try_emplace-result", J().str("key", key).done()); op = "try_emplace " + key; break; }
                case 3: { size_t n = jp->erase(key); bool had = mp->erase(key); if ((n == 1) != had) H.violation(std::string("container/") + name + "/erase-key-result", J().str("key", key).done()); op = "erase-key " + key; break; }
                case 4: { if (mp->o.empty()) return; size_t k = r.below(mp->o.size()); auto it = jp->object_range().begin(); std::advance(it, (long)k); jp->erase(it); mp->o.erase(mp->o.begin() + (long)k); op = "erase-member-iterator " + std::to_string(k); break; }
                case 5: { if (mp->o.empty()) return; size_t a = r.below(mp->o.size()), b = a + r.below(mp->o.size() - a + 1); auto f = jp->object_range().begin(); std::advance(f, (long)a); auto l = jp->object_range().begin(); std::advance(l, (long)b); jp->erase(f, l);
                          mp->o.erase(mp->o.begin() + (long)a, mp->o.begin() + (long)b); op = "erase-member-range " + std::to_string(a) + ".." + std::to_string(b); break; }
                case 6: { MGen g2 = g; MV src = gen_mv(r, g2, 2); if (src.k != MV::Obj) { src = MV::obj(); src.o.emplace_back(key, val); } norm(src); Json js = mv_to_json<Json>(src);
                          bool upd = r.coin(); bool mv = r.coin(); bool hinted = r.chance(1, 3);
                          if (hinted) { auto hint = jp->object_range().begin(); std::advance(hint, (long)r.below(mp->o.size() + 1));
                              if (upd) { if (mv) jp->merge_or_update(hint, std::move(js)); else jp->merge_or_update(hint, js); } else { if (mv) jp->merge(hint, std::move(js)); else jp->merge(hint, js); } }
                          else if (upd) { if (mv) jp->merge_or_update(std::move(js)); else jp->merge_or_update(js); } else { if (mv) jp->merge(std::move(js)); else jp->merge(js); }
                          for (auto& kv : src.o) { MV* e = mp->find(kv.first); if (e) { if (upd) *e = kv.second; } else mp->o.emplace_back(kv.first, kv.second); } model_sort(*mp);
                          op = std::string(upd ? "merge_or_update" : "merge") + (hinted ? "(hint)" : "") + (mv ? "(move)" : "(copy)"); break; }
                case 7: { // lookups
                          const Json& cj = *jp; const MV* e = mp->find(key);
                          bool c1 = cj.contains(key); size_t c2 = cj.count(key); auto it = cj.find(key);
                          if (c1 != (e != nullptr) || c2 != (e ? 1u : 0u) || (it != cj.object_range().end()) != (e != nullptr)) H.violation(std::string("container/") + name + "/lookup-presence", J().str("key", key).done());
                          if (e) { if (mv_dump(mv_from_json(cj.at(key)), false) != mv_dump(*e, false) || mv_dump(mv_from_json(cj[key]), false) != mv_dump(*e, false) || mv_dump(mv_from_json(it->value()), false) != mv_dump(*e, false)) H.violation(std::string("container/") + name + "/lookup-value", J().str("key", key).done()); }
                          else { bool threw = false; try { (void)cj.at(key); } catch (const json_exception&) { threw = true; } if (!threw) H.violation(std::string("container/") + name + "/at-missing-key-no-throw", J().str("key", key).done()); }
                          op = "lookup " + key; break; }
                case 8: { if (r.coin()) { jp->clear(); mp->o.clear(); op = "clear-object"; break; }
                          // range insert: existing members are kept, the first of equal names in the range wins (sizes beyond 16 entries: sort stability)
                          size_t n = r.coin() ? r.below(7) : 14 + r.below(20); std::vector<std::pair<std::string, Json>> items; std::vector<std::pair<std::string, MV>> mitems;
                          for (size_t q = 0; q < n; ++q) { std::string k2 = r.chance(1, 3) ? std::string(r.pick(KEYS)) : "rk" + std::to_string(r.below(n + 2)); MV v2 = gen_mv(r, g, 1); norm(v2); items.emplace_back(k2, mv_to_json<Json>(v2)); mitems.emplace_back(k2, v2); }
                          jp->insert(items.begin(), items.end());
                          for (auto& kv : mitems) if (!mp->find(kv.first)) mp->o.emplace_back(kv.first, kv.second);
                          model_sort(*mp); op = "insert-range " + std::to_string(n); break; }
                default: { (*jp)[key] = mv_to_json<Json>(val); MV* e = mp->find(key); if (e) *e = val; else { mp->o.emplace_back(key, val); model_sort(*mp); } op = "operator[]= " + key; break; }
                }
            } else if (mp->k == MV::Arr) {
                switch (r.below(10)) {
                case 0: { jp->push_back(mv_to_json<Json>(val)); mp->a.push_back(val); op = "push_back"; break; }
                case 1: { jp->emplace_back(mv_to_json<Json>(val)); mp->a.push_back(val); op = "emplace_back"; break; }
                case 2: { size_t k = r.below(mp->a.size() + 1); jp->insert(jp->array_range().begin() + (long)k, mv_to_json<Json>(val)); mp->a.insert(mp->a.begin() + (long)k, val); op = "insert@" + std::to_string(k); break; }
                case 3: { if (mp->a.empty()) return; size_t k = r.below(mp->a.size()); jp->erase(jp->array_range().begin() + (long)k); mp->a.erase(mp->a.begin() + (long)k); op = "erase@" + std::to_string(k); break; }
                case 4: { size_t a = r.below(mp->a.size() + 1), b = a + r.below(mp->a.size() - a + 1); jp->erase(jp->array_range().begin() + (long)a, jp->array_range().begin() + (long)b); mp->a.erase(mp->a.begin() + (long)a, mp->a.begin() + (long)b); op = "erase-range " + std::to_string(a) + ".." + std::to_string(b); break; }
                case 5: { size_t n = r.below(8); if (r.coin()) { jp->resize(n); size_t old = mp->a.size(); mp->a.resize(n); for (size_t k = old; k < n; ++k) mp->a[k] = MV::obj(); /* default-constructed json is an empty object */ op = "resize " + std::to_string(n); }
                          else { jp->resize(n, mv_to_json<Json>(val)); size_t old = mp->a.size(); mp->a.resize(n); for (size_t k = old; k < n; ++k) mp->a[k] = val; op = "resize-fill " + std::to_string(n); } break; }
                case 6: { jp->reserve(r.below(64)); if (r.coin()) jp->shrink_to_fit(); op = "reserve/shrink"; break; }
                case 7: { const Json& cj = *jp; if (mp->a.empty()) return; size_t k = r.below(mp->a.size() + 1);
                          if (k < mp->a.size()) { if (mv_dump(mv_from_json(cj.at(k)), false) != mv_dump(mp->a[k], false) || mv_dump(mv_from_json(cj[k]), false) != mv_dump(mp->a[k], false)) H.violation(std::string("container/") + name + "/index-value", J().unum("k", k).done()); }
                          else { bool threw = false; try { (void)cj.at(k); } catch (const json_exception&) { threw = true; } catch (const std::out_of_range&) { threw = true; } if (!threw) H.violation(std::string("container/") + name + "/at-out-of-range-no-throw", J().unum("k", k).done()); }
                          op = "index " + std::to_string(k); break; }
                case 8: { jp->clear(); mp->a.clear(); op = "clear-array"; break; }
                default: { if (mp->a.empty()) return; size_t k = r.below(mp->a.size()); (*jp)[k] = mv_to_json<Json>(val); mp->a[k] = val; op = "array-element-assign " + std::to_string(k); break; }
                }
            } else { MV x = gen_mv(r, g); norm(x); v[i] = mv_to_json<Json>(x); m[i] = x; op = "construct " + std::to_string(i); }
        }
        }
        if (op.empty()) return;
        trace += op + "; ";
        H.count_(std::string(name) + ".ops");
        H.count_(std::string(name) + ".op." + op.substr(0, op.find(' ')));
        // sorted invariant through public iteration
        if (sorted) for (auto& x : v) if (x.is_object()) { std::string prev; bool first = true; for (const auto& kv : x.object_range()) { std::string k(kv.key()); if (!first && !(prev < k)) H.violation("container/json/sorted-invariant", J().str("after", op).done()); prev = k; first = false; } }
        check_all(op);
    }
};

// ---- relational laws ------------------------------------------------------------------------------
static std::vector<json> catalogue(Rng& r) {
    std::vector<json> c;
    c.push_back(json::null()); c.push_back(json(true)); c.push_back(json(false));
    for (i64 x : {(i64)0, (i64)1, (i64)-1, (i64)5, INT64_MAX, INT64_MIN, (i64)9007199254740993LL}) c.push_back(json(x));
    for (u64 x : {(u64)0, (u64)1, (u64)5, (u64)INT64_MAX, (u64)INT64_MAX + 1, UINT64_MAX}) c.push_back(json(x));
    for (double d : {0.0, -0.0, 1.0, 5.0, -1.0, 0.5, 1e300, -1e300, 9007199254740992.0, 18446744073709551616.0, (double)INFINITY, -(double)INFINITY}) c.push_back(json(d));
    for (uint16_t h : {(uint16_t)0x3c00, (uint16_t)0x4500, (uint16_t)0x0000, (uint16_t)0x8000, (uint16_t)0xc500}) c.push_back(json(half_arg, h));
    for (const char* s : {"", "a", "5", "abc", "a longer string beyond the short string buffer", "1.0", "é"}) c.push_back(json(s));
    c.push_back(json("5", semantic_tag::bigint)); c.push_back(json("-1", semantic_tag::bigint)); c.push_back(json("18446744073709551616", semantic_tag::bigint)); c.push_back(json("18446744073709551617", semantic_tag::bigint));
    c.push_back(json("5.0", semantic_tag::bigdec)); c.push_back(json("1e400", semantic_tag::bigdec)); c.push_back(json("0.5", semantic_tag::bigdec));
    c.push_back(json("2020-01-01T00:00:00Z", semantic_tag::datetime)); c.push_back(json((i64)5, semantic_tag::epoch_second)); c.push_back(json("5", semantic_tag::uri));
    c.push_back(json(byte_string_arg, std::vector<uint8_t>{})); c.push_back(json(byte_string_arg, std::vector<uint8_t>{1, 2, 3})); c.push_back(json(byte_string_arg, std::vector<uint8_t>{1, 2, 3}, semantic_tag::base64)); c.push_back(json(byte_string_arg, std::vector<uint8_t>{53}));
    c.push_back(json(json_array_arg)); c.push_back(json::parse("[1]")); c.push_back(json::parse("[1.0]")); c.push_back(json::parse("[1,2]")); c.push_back(json::parse("[[]]")); c.push_back(json::parse("[null]"));
    c.push_back(json()); c.push_back(json(json_object_arg)); c.push_back(json::parse("{\"a\":1}")); c.push_back(json::parse("{\"a\":1.0}")); c.push_back(json::parse("{\"a\":2}")); c.push_back(json::parse("{\"b\":1}")); c.push_back(json::parse("{\"a\":1,\"b\":2}"));
    GenCfg g; g.byte_strings = true; g.half = true; g.tags = true; g.max_depth = 2; g.max_width = 3;
    for (int i = 0; i < 25; ++i) c.push_back(gen_value<json>(r, g));
    return c;
}
static bool has_nan(const json& v) { if (v.is_double() && v.as<double>() != v.as<double>()) return true; if (v.type() == json_type::float16) { double d = v.as<double>(); if (d != d) return true; }
    if (v.is_array()) for (auto& e : v.array_range()) if (has_nan(e)) return true; if (v.is_object()) for (auto& m : v.object_range()) if (has_nan(m.value())) return true; return false; }
static std::string leaf_kinds(const json& v) { std::string s; std::string d = describe(v); for (size_t i = 0; i + 2 < d.size(); ++i) if (d[i] == '{' && d[i + 1] == '"') s.push_back(d[i + 2]); return s; }

static void laws(Rng& r) {
    std::vector<json> c = catalogue(r);
    for (size_t i = 0; i < c.size(); ++i) {
        const json& a = c[i];
        std::string da = describe(a).substr(0, 300);
        if (!has_nan(a)) { if (!(a == a)) H.violation("compare/reflexive", J().str("a", da).done()); json cp(a); if (!(cp == a) || !(a == cp)) H.violation("compare/copy-not-equal", J().str("a", da).done()); if (a < a || a > a || !(a <= a) || !(a >= a)) H.violation("compare/order-irreflexive", J().str("a", da).done()); }
        for (size_t j = 0; j < c.size(); ++j) {
            const json& b = c[j];
            if (has_nan(a) || has_nan(b)) continue;
            std::string db = describe(b).substr(0, 300);
            bool eq = a == b, qe = b == a, lt = a < b, gt = b > a, le = a <= b, nlt = !(b < a), ne = a != b;
            H.count_("laws.pairs");
            auto v = [&](const char* law) { H.violation(std::string("compare/") + law + "/" + leaf_kinds(a).substr(0, 1) + "-" + leaf_kinds(b).substr(0, 1), J().str("a", da).str("b", db).done()); };
            if (eq != qe) v("symmetric");
            if (lt != gt) v("lt-gt");
            if (le != nlt) v("le-not-lt");
            if (ne == eq) v("ne-is-not-eq");
            if (eq != (!(a < b) && !(b < a))) v("eq-iff-unordered");
            std::string sa, sb; a.dump(sa); b.dump(sb);
            bool same_kinds = leaf_kinds(a) == leaf_kinds(b);
            if (sa == sb && same_kinds && describe(a) == describe(b) && !eq) v("identical-not-equal");
            if (eq && same_kinds && sa != sb) {
                // equal values of the same leaf kinds must print identically; tags may differ (they are not part of equality), number-tagged strings excepted by the property ("sorted-object values print identically")
                bool tagged = da.find("\"t\":") != std::string::npos || db.find("\"t\":") != std::string::npos;
                if (!tagged) v("equal-but-prints-differently");
            }
        }
    }
}

// ---- is<T> => as<T> exact ------------------------------------------------------------------------
template <class T> static void is_as(const json& v, const char* tn) {
    if (!v.is<T>()) return;
    H.count_("is_as.checked");
    T t = v.as<T>();
    bool ok;
    if (v.type() == json_type::int64) ok = (__int128)t == (__int128)v.as<i64>() && !std::is_floating_point<T>::value ? true : (std::is_floating_point<T>::value ? (long double)t == (long double)v.as<i64>() : false);
    else if (v.type() == json_type::uint64) ok = std::is_floating_point<T>::value ? (long double)t == (long double)v.as<u64>() : (t >= 0 && (unsigned __int128)t == (unsigned __int128)v.as<u64>());
    else if (v.type() == json_type::float64) ok = (long double)t == (long double)v.as<double>();
    else return;
    if (!ok) H.violation(std::string("is-as/") + tn + "/" + (v.type() == json_type::int64 ? "int64" : v.type() == json_type::uint64 ? "uint64" : "double"), J().str("v", describe(v)).done());
}
static void is_as_all(Rng& r) {
    for (int k = 0; k < 60; ++k) {
        json v; switch (r.below(3)) { case 0: v = json(gen_i64(r)); break; case 1: v = json(gen_u64(r)); break; default: v = json(gen_double_finite(r)); break; }
        is_as<int8_t>(v, "int8"); is_as<uint8_t>(v, "uint8"); is_as<int16_t>(v, "int16"); is_as<uint16_t>(v, "uint16"); is_as<int32_t>(v, "int32"); is_as<uint32_t>(v, "uint32");
        is_as<int64_t>(v, "int64"); is_as<uint64_t>(v, "uint64"); is_as<long long>(v, "longlong"); is_as<unsigned long long>(v, "ulonglong"); is_as<double>(v, "double"); is_as<float>(v, "float");
    }
}

int main(int argc, char** argv) {
    H.parse(argc, argv);
    auto body = [&](long long c) {
        Rng r = H.case_rng(c);
        size_t len = 50 + r.below(350);
        if (c % 2 == 0) { Pool<json> p("json"); for (size_t i = 0; i < len; ++i) p.step(r); H.note_distinct(hash_str(p.trace)); if (H.sample_seen < 4 || r.chance(1, 3000)) H.sample(J().str("policy", "json").str("history", p.trace.substr(0, 600)).done()); else ++H.sample_seen; }
        else { Pool<ojson> p("ojson"); for (size_t i = 0; i < len; ++i) p.step(r); H.note_distinct(hash_str(p.trace)); if (H.sample_seen < 4 || r.chance(1, 3000)) H.sample(J().str("policy", "ojson").str("history", p.trace.substr(0, 600)).done()); else ++H.sample_seen; }
        if (c % 16 == 0) { laws(r); is_as_all(r); }
    };
    auto regress = [&]() { Rng r(11); laws(r); is_as_all(r); };
    return H.run(body, regress);
}
