// C17 shared machinery: typed encode/decode round trips, route independence and
// type-directed shape-mismatch injection (see vlib/propdefs/c17.py for the rule).
//
// NOTE (build cache): vlib/core.py hashes the driver .cpp and drivers/common/* only.  Every
// c17_*.cpp static_asserts C17_SHARED_REV; when this file (or types_*.hpp) changes, bump the
// number here AND in each driver so that the drivers are rebuilt.
#ifndef C17_TYPED_HPP
#define C17_TYPED_HPP
#define C17_SHARED_REV 10

#include "common/jvalue.hpp"
#include <jsoncons/json.hpp>
#include <jsoncons_ext/cbor/cbor.hpp>
#include <jsoncons_ext/msgpack/msgpack.hpp>
#include <jsoncons_ext/ubjson/ubjson.hpp>
#include <jsoncons_ext/bson/bson.hpp>
#include <sstream>
#include <optional>
#include <variant>
#include <tuple>
#include <array>
#include <deque>
#include <list>
#include <forward_list>
#include <set>
#include <unordered_set>
#include <map>
#include <unordered_map>
#include <memory>
#include <chrono>
#include <bitset>
#include <algorithm>
#include <sys/wait.h>
#include <fcntl.h>

namespace c17 {
using namespace vf;
using jsoncons::json;

inline Harness H;

// ------------------------------------------------------------------------------------------
// JSON kinds used by the mismatch injector
enum : unsigned { K_NULL = 1, K_BOOL = 2, K_NUM = 4, K_STR = 8, K_ARR = 16, K_OBJ = 32, K_ALL = 63 };

struct Step { bool is_key; size_t ix; std::string key; };
enum class Op { Replace, EraseMember, Truncate, Append, AddMember, RenameKey };
enum class Expect { Reject, Same, Agree };

struct Site {
    std::vector<Step> path;       // node the operation applies to
    Op op = Op::Replace;
    std::string key, key2;        // EraseMember/AddMember/RenameKey
    size_t n = 0;                 // Truncate: new size
    json val;                     // Replace/Append/AddMember
    std::string kind;             // damage kind (signature component)
    Expect ex = Expect::Reject;
    bool judge_as = true, judge_stream = true;
    std::string expected_cpp;     // C++ type expected at the damaged position (diagnostics)
};

struct Walk {
    Rng& r;
    std::vector<Step> path;
    bool via_json = false;        // an enclosing type decodes through basic_json + try_as
    bool wide = false;            // sites are offered for the wchar_t routes (wjson / wide JSON text): std::wstring is then the same-character-type string
    std::map<std::string, std::pair<size_t, Site>> res;   // one reservoir slot per damage kind
    explicit Walk(Rng& rr) : r(rr) {}
    template <class F> void offer(const char* kind, F make) {
        auto& e = res[kind];
        if (r.below(++e.first) == 0) { e.second = make(); e.second.kind = kind; e.second.path = path; }
    }
    struct Push {
        Walk& w; bool saved;
        Push(Walk& ww, size_t ix, bool vj) : w(ww), saved(ww.via_json) { w.path.push_back(Step{false, ix, ""}); w.via_json = saved || vj; }
        Push(Walk& ww, const std::string& k, bool vj) : w(ww), saved(ww.via_json) { w.path.push_back(Step{true, 0, k}); w.via_json = saved || vj; }
        ~Push() { w.path.pop_back(); w.via_json = saved; }
    };
    struct Via { Walk& w; bool saved; Via(Walk& ww, bool vj) : w(ww), saved(ww.via_json) { w.via_json = saved || vj; } ~Via() { w.via_json = saved; } };
};

inline json sample_of_kind(unsigned k, Rng& r) {
    switch (k) {
    case K_BOOL: return json(r.coin());
    case K_NUM: return r.coin() ? json(7) : json(-1.5);
    case K_STR: return json(r.coin() ? "zq!" : "not a number?");      // not numeric, not hex, not base64
    case K_ARR: switch (r.below(3)) { case 0: return json(jsoncons::json_array_arg); case 1: return json::parse("[1]"); default: return json::parse("[\"x\",{}]"); }
    default: switch (r.below(3)) { case 0: return json(jsoncons::json_object_arg); case 1: return json::parse("{\"zq\":1}"); default: return json::parse("{\"zq\":[1,2],\"0\":null}"); }
    }
}

// Offers "replace this node by a value of a certainly wrong kind" for a position whose C++ type
// accepts `as_mask` through basic_json::as<T>() and `stream_mask` through its own decode_traits.
inline void wrong_here(Walk& w, unsigned as_mask, unsigned stream_mask, unsigned expected_kind, const std::string& cpp) {
    unsigned sm = w.via_json ? as_mask : stream_mask;
    static const unsigned kinds[] = {K_BOOL, K_NUM, K_STR, K_ARR, K_OBJ};
    for (unsigned k : kinds) {
        bool ja = !(as_mask & k), js = !(sm & k);
        if (!ja && !js) continue;
        bool ck = (expected_kind == K_ARR && k == K_OBJ) || (expected_kind == K_OBJ && k == K_ARR);
        w.offer(ck ? "container-kind" : "wrong-kind", [&] { Site s; s.op = Op::Replace; s.val = sample_of_kind(k, w.r); s.judge_as = ja; s.judge_stream = js; s.expected_cpp = cpp; return s; });
    }
}

inline json* navigate(json& root, const std::vector<Step>& path) {
    json* p = &root;
    for (const auto& s : path) {
        if (s.is_key) { if (!p->is_object() || !p->contains(s.key)) return nullptr; p = &p->at(s.key); }
        else { if (!p->is_array() || s.ix >= p->size()) return nullptr; p = &(*p)[s.ix]; }
    }
    return p;
}

inline bool apply_site(json& root, const Site& s) {
    json* p = navigate(root, s.path);
    if (!p) return false;
    switch (s.op) {
    case Op::Replace: *p = s.val; return true;
    case Op::EraseMember: if (!p->is_object() || !p->contains(s.key)) return false; p->erase(s.key); return true;
    case Op::Truncate: if (!p->is_array() || s.n >= p->size()) return false; p->erase(p->array_range().begin() + (long)s.n, p->array_range().end()); return true;
    case Op::Append: if (!p->is_array()) return false; p->push_back(s.val); return true;
    case Op::AddMember: if (!p->is_object() || p->contains(s.key)) return false; p->try_emplace(s.key, s.val); return true;
    case Op::RenameKey: { if (!p->is_object() || !p->contains(s.key) || p->contains(s.key2)) return false; json v = p->at(s.key); p->erase(s.key); p->try_emplace(s.key2, v); return true; }
    }
    return false;
}

inline std::string path_str(const std::vector<Step>& p) {
    std::string s = "$";
    for (const auto& st : p) { if (st.is_key) { s += "."; s += st.key; } else { s += "[" + std::to_string(st.ix) + "]"; } }
    return s;
}

// ------------------------------------------------------------------------------------------
// Tr<T>: name, generator, exact equality, mismatch sites, masks.
//   static std::string name();
//   static T gen(Rng&, int depth);
//   static bool eq(const T&, const T&);
//   static void sites(const T& t, const json& j, Walk& w);    // j == json(t)
//   static constexpr unsigned is_mask;   // kinds for which is<T>() may be true
//   static constexpr unsigned as_mask;   // kinds as<T>() may convert
//   static constexpr unsigned st_mask;   // kinds decode_traits<T> may convert (when it has its own)
//   static constexpr bool native;        // decode_traits<T> specialised (reads cursor events directly)
//   static bool judgeable(const T&);     // false: value is executed but not judged (ambiguous by construction)
template <class T, class E = void> struct Tr;

template <class T> struct TrBase {
    static bool judgeable(const T&) { return true; }
    static constexpr bool can_stream_encode = true;   // encode_X(t, ...) compiles
    static constexpr bool can_stream_decode = true;   // decode_X<T>(...) compiles
    static constexpr bool copyable = true;
    static const char* bson_array_kind() { return "fallback"; }  // how decode_traits<T> reads a BSON array root
};

inline size_t gen_size(Rng& r, int depth, size_t big = 40) {
    if (depth >= 3) return r.below(3);
    switch (r.below(12)) {
    case 0: return 0;
    case 1: return depth == 0 ? 23 + r.below(3) : 1;        // CBOR/MessagePack short-length boundary
    case 2: return depth == 0 ? r.below(big) : r.below(4);
    default: return r.below(5);
    }
}

// ---- bool
template <> struct Tr<bool> : TrBase<bool> {
    static std::string name() { return "bool"; }
    static bool gen(Rng& r, int) { return r.coin(); }
    static bool eq(bool a, bool b) { return a == b; }
    static constexpr unsigned is_mask = K_BOOL, as_mask = K_BOOL | K_NUM | K_STR, st_mask = K_BOOL | K_NUM | K_STR;
    static constexpr bool native = true;
    static void sites(const bool&, const json&, Walk& w) { wrong_here(w, as_mask, st_mask, K_BOOL, "bool"); }
};

// ---- integers
template <class I> struct IntName;
#define C17_INTNAME(T, N) template <> struct IntName<T> { static const char* name() { return N; } };
C17_INTNAME(int8_t, "int8") C17_INTNAME(int16_t, "int16") C17_INTNAME(int32_t, "int32") C17_INTNAME(int64_t, "int64")
C17_INTNAME(uint8_t, "uint8") C17_INTNAME(uint16_t, "uint16") C17_INTNAME(uint32_t, "uint32") C17_INTNAME(uint64_t, "uint64")
C17_INTNAME(long long, "longlong") C17_INTNAME(unsigned long long, "ulonglong")

template <class I> I gen_int(Rng& r) {
    using L = std::numeric_limits<I>;
    switch (r.below(6)) {
    case 0: { static const int k[] = {0, 1, 2, 23, 24, 25, 100}; I v = (I)r.pick(k); return (std::is_signed<I>::value && r.coin()) ? (I)(-v - (I)r.below(2)) : v; }
    case 1: { switch (r.below(4)) { case 0: return L::max(); case 1: return L::min(); case 2: return (I)(L::max() - 1); default: return (I)(L::min() + 1); } }
    case 2: { // powers of two +-1 inside the range
        int bits = (int)r.below(L::digits); using U = typename std::make_unsigned<I>::type;
        U v = (U)((U)1 << bits); v = (U)(v + (U)r.below(3) - 1); I x = (I)(v & (U)L::max());
        return (std::is_signed<I>::value && r.coin()) ? (I)(-x - 1 + (I)r.below(2)) : x; }
    case 3: return std::is_signed<I>::value ? (I)gen_i64(r) : (I)gen_u64(r);
    default: return (I)r.next();
    }
}

template <class I> struct Tr<I, typename std::enable_if<std::is_integral<I>::value && !std::is_same<I, bool>::value>::type> : TrBase<I> {
    static std::string name() { return IntName<I>::name(); }
    static I gen(Rng& r, int) { return gen_int<I>(r); }
    static bool eq(I a, I b) { return a == b; }
    static constexpr unsigned is_mask = K_NUM | K_STR, as_mask = K_BOOL | K_NUM | K_STR, st_mask = K_BOOL | K_NUM | K_STR;
    static constexpr bool native = true;
    static void sites(const I&, const json&, Walk& w) { wrong_here(w, as_mask, st_mask, K_NUM, IntName<I>::name()); }
};

// ---- floating point (finite values, compared with ==)
inline float gen_float(Rng& r) {
    static const float b[] = {0.0f, -0.0f, 1.0f, 0.5f, 0.1f, 1.5f, 3.4028234663852886e38f, 1.1754943508222875e-38f, 1.4e-45f, 65504.0f, 16777216.0f, 16777217.0f, 1e10f, 1e-10f, 0.333333343f};
    for (;;) {
        float f;
        switch (r.below(5)) {
        case 0: f = r.pick(b); break;
        case 1: { uint32_t u = (uint32_t)r.next(); memcpy(&f, &u, 4); break; }
        case 2: f = (float)gen_double_finite(r); break;
        case 3: f = (float)r.range(-100000, 100000) / (float)r.pick({1.0f, 2.0f, 8.0f, 10.0f, 1000.0f}); break;
        default: f = (float)r.range(-1000, 1000); break;
        }
        if (r.coin()) f = -f;
        if (std::isfinite(f)) return f;
    }
}
template <> struct Tr<float> : TrBase<float> {
    static std::string name() { return "float"; }
    static float gen(Rng& r, int) { return gen_float(r); }
    static bool eq(float a, float b) { return a == b; }
    static constexpr unsigned is_mask = K_NUM, as_mask = K_BOOL | K_NUM | K_STR, st_mask = K_BOOL | K_NUM | K_STR;
    static constexpr bool native = true;
    static void sites(const float&, const json&, Walk& w) { wrong_here(w, as_mask, st_mask, K_NUM, "float"); }
};
template <> struct Tr<double> : TrBase<double> {
    static std::string name() { return "double"; }
    static double gen(Rng& r, int) { return gen_double_finite(r); }
    static bool eq(double a, double b) { return a == b; }
    static constexpr unsigned is_mask = K_NUM, as_mask = K_BOOL | K_NUM | K_STR, st_mask = K_BOOL | K_NUM | K_STR;
    static constexpr bool native = true;
    static void sites(const double&, const json&, Walk& w) { wrong_here(w, as_mask, st_mask, K_NUM, "double"); }
};

// ---- std::string.  as<std::string>() is documented to return the JSON text of any non-string value, so the
// basic_json route has no "certainly wrong" kind; the streaming decode_traits must reject containers.
template <> struct Tr<std::string> : TrBase<std::string> {
    static std::string name() { return "string"; }
    static std::string gen(Rng& r, int depth) {
        if (depth == 0 && r.chance(1, 40)) { std::string s; size_t n = 200 + r.below(4000); for (size_t i = 0; i < n; ++i) put_utf8(s, r.chance(1, 6) ? gen_scalar(r) : 0x20 + (uint32_t)r.below(0x5F)); return s; }
        return gen_string(r, depth == 0 ? 300 : 24);
    }
    static bool eq(const std::string& a, const std::string& b) { return a == b; }
    static constexpr unsigned is_mask = K_STR, as_mask = K_ALL, st_mask = K_NULL | K_BOOL | K_NUM | K_STR;
    static constexpr bool native = true;
    static void sites(const std::string&, const json&, Walk& w) { wrong_here(w, as_mask, st_mask, K_STR, "string"); }
};

// ---- sequences ---------------------------------------------------------------------------
template <class C> struct is_noncontig_typed : std::integral_constant<bool, jsoncons::ext_traits::is_typed_array<C>::value && !jsoncons::ext_traits::has_data<C>::value> {};

template <class C, class E> struct SeqTr : TrBase<C> {
    using X = Tr<E>;
    static constexpr bool bytes = std::is_same<E, uint8_t>::value;
    static constexpr unsigned is_mask = K_ARR, as_mask = bytes ? (K_ARR | K_STR) : K_ARR, st_mask = as_mask;
    static constexpr bool native = true;
    static constexpr bool copyable = X::copyable;
    static constexpr bool can_stream_encode = X::can_stream_encode && !is_noncontig_typed<C>::value;
    static constexpr bool can_stream_decode = X::can_stream_decode && !(is_noncontig_typed<C>::value && jsoncons::ext_traits::is_back_insertable<C>::value);
    static bool judgeable(const C& c) { for (const auto& e : c) if (!X::judgeable(e)) return false; return true; }
    static void sites_seq(const C& t, const json& j, Walk& w, const char* cpp) {
        wrong_here(w, as_mask, st_mask, K_ARR, cpp);
        if (!j.is_array()) return;
        size_t i = 0;
        for (const auto& e : t) { if (i >= j.size()) break; Walk::Push p(w, i, false); X::sites(e, j[i], w); ++i; }
    }
};

template <class E> struct Tr<std::vector<E>> : SeqTr<std::vector<E>, E> {
    using C = std::vector<E>;
    static std::string name() { return "vector<" + Tr<E>::name() + ">"; }
    static C gen(Rng& r, int depth) { C c; size_t n = gen_size(r, depth, std::is_arithmetic<E>::value ? 300 : 40); c.reserve(n); for (size_t i = 0; i < n; ++i) c.push_back(Tr<E>::gen(r, depth + 1)); return c; }
    static bool eq(const C& a, const C& b) { if (a.size() != b.size()) return false; for (size_t i = 0; i < a.size(); ++i) if (!Tr<E>::eq(a[i], b[i])) return false; return true; }
    static void sites(const C& t, const json& j, Walk& w) { SeqTr<C, E>::sites_seq(t, j, w, "vector"); }
    static const char* bson_array_kind() { return jsoncons::ext_traits::is_typed_array<C>::value ? (std::is_same<E, uint8_t>::value ? "byte-vector" : "typed-array-vector") : "native-seq"; }
};
// vector<bool> yields proxies
template <> struct Tr<std::vector<bool>> : SeqTr<std::vector<bool>, bool> {
    using C = std::vector<bool>;
    static std::string name() { return "vector<bool>"; }
    static C gen(Rng& r, int depth) { C c; size_t n = gen_size(r, depth, 100); for (size_t i = 0; i < n; ++i) c.push_back(r.coin()); return c; }
    static bool eq(const C& a, const C& b) { return a == b; }
    static void sites(const C& t, const json& j, Walk& w) {
        wrong_here(w, as_mask, st_mask, K_ARR, "vector<bool>");
        if (!j.is_array()) return;
        for (size_t i = 0; i < t.size() && i < j.size(); ++i) { Walk::Push p(w, i, false); bool b = t[i]; Tr<bool>::sites(b, j[i], w); }
    }
    static const char* bson_array_kind() { return "native-seq"; }
};

template <class C, class E> struct IterSeqTr : SeqTr<C, E> {
    static bool eq(const C& a, const C& b) {
        auto ia = a.begin(); auto ib = b.begin();
        for (; ia != a.end() && ib != b.end(); ++ia, ++ib) if (!Tr<E>::eq(*ia, *ib)) return false;
        return ia == a.end() && ib == b.end();
    }
};
template <class E> struct Tr<std::deque<E>> : IterSeqTr<std::deque<E>, E> {
    using C = std::deque<E>;
    static std::string name() { return "deque<" + Tr<E>::name() + ">"; }
    static C gen(Rng& r, int depth) { C c; size_t n = gen_size(r, depth); for (size_t i = 0; i < n; ++i) c.push_back(Tr<E>::gen(r, depth + 1)); return c; }
    static void sites(const C& t, const json& j, Walk& w) { SeqTr<C, E>::sites_seq(t, j, w, "deque"); }
    static const char* bson_array_kind() { return "native-seq"; }
};
template <class E> struct Tr<std::list<E>> : IterSeqTr<std::list<E>, E> {
    using C = std::list<E>;
    static std::string name() { return "list<" + Tr<E>::name() + ">"; }
    static C gen(Rng& r, int depth) { C c; size_t n = gen_size(r, depth); for (size_t i = 0; i < n; ++i) c.push_back(Tr<E>::gen(r, depth + 1)); return c; }
    static void sites(const C& t, const json& j, Walk& w) { SeqTr<C, E>::sites_seq(t, j, w, "list"); }
    static const char* bson_array_kind() { return "native-seq"; }
};
template <class E> struct Tr<std::forward_list<E>> : IterSeqTr<std::forward_list<E>, E> {
    using C = std::forward_list<E>;
    static std::string name() { return "forward_list<" + Tr<E>::name() + ">"; }
    static C gen(Rng& r, int depth) { C c; size_t n = gen_size(r, depth); for (size_t i = 0; i < n; ++i) c.push_front(Tr<E>::gen(r, depth + 1)); return c; }
    static void sites(const C& t, const json& j, Walk& w) { SeqTr<C, E>::sites_seq(t, j, w, "forward_list"); }
    static const char* bson_array_kind() { return "forward-list"; }
};
// sets: elements are unique under the container's own ordering/hash, so the JSON array has the container's iteration order
template <class E> struct Tr<std::set<E>> : IterSeqTr<std::set<E>, E> {
    using C = std::set<E>;
    static std::string name() { return "set<" + Tr<E>::name() + ">"; }
    static C gen(Rng& r, int depth) { C c; size_t n = gen_size(r, depth); for (size_t i = 0; i < n; ++i) c.insert(Tr<E>::gen(r, depth + 1)); return c; }
    static void sites(const C& t, const json& j, Walk& w) { SeqTr<C, E>::sites_seq(t, j, w, "set"); }
    static const char* bson_array_kind() { return "set"; }
};
template <class E> struct Tr<std::multiset<E>> : IterSeqTr<std::multiset<E>, E> {
    using C = std::multiset<E>;
    static std::string name() { return "multiset<" + Tr<E>::name() + ">"; }
    static C gen(Rng& r, int depth) { C c; size_t n = gen_size(r, depth); for (size_t i = 0; i < n; ++i) { E e = Tr<E>::gen(r, depth + 1); c.insert(e); if (r.chance(1, 3)) c.insert(e); } return c; }
    static void sites(const C& t, const json& j, Walk& w) { SeqTr<C, E>::sites_seq(t, j, w, "multiset"); }
    static const char* bson_array_kind() { return "set"; }
};
template <class E> struct Tr<std::unordered_set<E>> : SeqTr<std::unordered_set<E>, E> {
    using C = std::unordered_set<E>;
    static std::string name() { return "unordered_set<" + Tr<E>::name() + ">"; }
    static C gen(Rng& r, int depth) { C c; size_t n = gen_size(r, depth); for (size_t i = 0; i < n; ++i) c.insert(Tr<E>::gen(r, depth + 1)); return c; }
    static bool eq(const C& a, const C& b) { return a == b; }     // element types used here have exact ==
    static void sites(const C& t, const json& j, Walk& w) { SeqTr<C, E>::sites_seq(t, j, w, "unordered_set"); }
    static const char* bson_array_kind() { return "set"; }
};

// ---- fixed-size sequences: std::array, pair, tuple ------------------------------------------
inline void size_sites(Walk& w, size_t n, bool many_rejected, const json& extra, const std::string& cpp) {
    if (n >= 1) w.offer("too-few", [&] { Site s; s.op = Op::Truncate; s.n = w.r.below(n); s.expected_cpp = cpp; return s; });
    w.offer(many_rejected ? "too-many" : "too-many-lenient", [&] { Site s; s.op = Op::Append; s.val = extra; s.ex = many_rejected ? Expect::Reject : Expect::Agree; s.expected_cpp = cpp; return s; });
}

template <class E, size_t N> struct Tr<std::array<E, N>> : TrBase<std::array<E, N>> {
    using C = std::array<E, N>;
    static std::string name() { return "array<" + Tr<E>::name() + "," + std::to_string(N) + ">"; }
    static C gen(Rng& r, int depth) { C c{}; for (auto& e : c) e = Tr<E>::gen(r, depth + 1); return c; }
    static bool eq(const C& a, const C& b) { for (size_t i = 0; i < N; ++i) if (!Tr<E>::eq(a[i], b[i])) return false; return true; }
    static constexpr unsigned is_mask = K_ARR, as_mask = K_ARR, st_mask = K_ARR;
    static constexpr bool native = true;
    static constexpr bool copyable = Tr<E>::copyable, can_stream_encode = Tr<E>::can_stream_encode, can_stream_decode = Tr<E>::can_stream_decode;
    static bool judgeable(const C& c) { for (const auto& e : c) if (!Tr<E>::judgeable(e)) return false; return true; }
    static void sites(const C& t, const json& j, Walk& w) {
        wrong_here(w, as_mask, st_mask, K_ARR, "std::array");
        if (!j.is_array() || j.size() != N) return;
        size_sites(w, N, true, N ? j[w.r.below(N)] : json(1), "std::array");
        for (size_t i = 0; i < N; ++i) { Walk::Push p(w, i, false); Tr<E>::sites(t[i], j[i], w); }
    }
    static const char* bson_array_kind() { return "std-array"; }
};

template <class A, class B> struct Tr<std::pair<A, B>> : TrBase<std::pair<A, B>> {
    using C = std::pair<A, B>;
    static std::string name() { return "pair<" + Tr<A>::name() + "," + Tr<B>::name() + ">"; }
    static C gen(Rng& r, int depth) { A a = Tr<A>::gen(r, depth + 1); B b = Tr<B>::gen(r, depth + 1); return C(std::move(a), std::move(b)); }
    static bool eq(const C& a, const C& b) { return Tr<A>::eq(a.first, b.first) && Tr<B>::eq(a.second, b.second); }
    static constexpr unsigned is_mask = K_ARR, as_mask = K_ARR, st_mask = K_ARR;
    static constexpr bool native = true;
    static constexpr bool copyable = Tr<A>::copyable && Tr<B>::copyable, can_stream_encode = Tr<A>::can_stream_encode && Tr<B>::can_stream_encode, can_stream_decode = Tr<A>::can_stream_decode && Tr<B>::can_stream_decode;
    static bool judgeable(const C& c) { return Tr<A>::judgeable(c.first) && Tr<B>::judgeable(c.second); }
    static void sites(const C& t, const json& j, Walk& w) {
        wrong_here(w, as_mask, st_mask, K_ARR, "pair");
        if (!j.is_array() || j.size() != 2) return;
        size_sites(w, 2, true, j[w.r.below(2)], "pair");
        { Walk::Push p(w, (size_t)0, false); Tr<A>::sites(t.first, j[0], w); }
        { Walk::Push p(w, (size_t)1, false); Tr<B>::sites(t.second, j[1], w); }
    }
    static const char* bson_array_kind() { return "pair"; }
};

template <class... Es> struct Tr<std::tuple<Es...>> : TrBase<std::tuple<Es...>> {
    using C = std::tuple<Es...>;
    static constexpr size_t N = sizeof...(Es);
    static std::string name() { std::string s = "tuple<"; bool f = true; ((s += (f ? "" : ","), s += Tr<Es>::name(), f = false), ...); (void)f; return s + ">"; }
    static C gen(Rng& r, int depth) { (void)r; (void)depth; return C{Tr<Es>::gen(r, depth + 1)...}; }   // braced init: left-to-right evaluation
    template <size_t... I> static bool eq_(const C& a, const C& b, std::index_sequence<I...>) { return (Tr<Es>::eq(std::get<I>(a), std::get<I>(b)) && ... && true); }
    static bool eq(const C& a, const C& b) { return eq_(a, b, std::index_sequence_for<Es...>()); }
    template <size_t... I> static bool judge_(const C& a, std::index_sequence<I...>) { return (Tr<Es>::judgeable(std::get<I>(a)) && ... && true); }
    static bool judgeable(const C& a) { return judge_(a, std::index_sequence_for<Es...>()); }
    static constexpr unsigned is_mask = K_ARR, as_mask = K_ARR, st_mask = K_ARR;
    static constexpr bool native = false;      // decode_traits falls back to basic_json + try_as
    static constexpr bool copyable = (Tr<Es>::copyable && ... && true), can_stream_encode = (Tr<Es>::can_stream_encode && ... && true), can_stream_decode = (Tr<Es>::can_stream_decode && ... && true);
    template <size_t... I> static void sites_(const C& t, const json& j, Walk& w, std::index_sequence<I...>) {
        ((void)[&] { Walk::Push p(w, I, true); Tr<Es>::sites(std::get<I>(t), j[I], w); }(), ...);
    }
    static void sites(const C& t, const json& j, Walk& w) {
        wrong_here(w, as_mask, st_mask, K_ARR, "tuple");
        if (!j.is_array() || j.size() != N) return;
        // json_traits<tuple>::is() accepts size >= N: additional trailing elements are accepted by design; judged for route agreement only
        size_sites(w, N, false, N ? j[w.r.below(N)] : json(1), "tuple");
        sites_(t, j, w, std::index_sequence_for<Es...>());
    }
};

// ---- maps --------------------------------------------------------------------------------
inline std::string gen_map_key(Rng& r) { return gen_key(r); }
template <class K> struct KeyTr;
template <> struct KeyTr<std::string> {
    static std::string gen(Rng& r) { return gen_map_key(r); }
    static std::string text(const std::string& k) { return k; }
    static constexpr bool integral = false;
};
template <class I> struct IntKeyTr {
    static I gen(Rng& r) { return r.coin() ? (I)r.range(-3, 12) : gen_int<I>(r); }
    static std::string text(I k) { return std::to_string(k); }
    static constexpr bool integral = true;
};
template <> struct KeyTr<int32_t> : IntKeyTr<int32_t> {};
template <> struct KeyTr<int64_t> : IntKeyTr<int64_t> {};
template <> struct KeyTr<uint16_t> : IntKeyTr<uint16_t> {};
template <> struct KeyTr<uint64_t> : IntKeyTr<uint64_t> {};
template <> struct KeyTr<int8_t> : IntKeyTr<int8_t> {};

template <class M, class K, class V> struct MapTr : TrBase<M> {
    static constexpr unsigned is_mask = K_OBJ, as_mask = K_OBJ, st_mask = K_OBJ;
    static constexpr bool native = true;
    static constexpr bool copyable = Tr<V>::copyable, can_stream_encode = Tr<V>::can_stream_encode, can_stream_decode = Tr<V>::can_stream_decode;
    static M gen_unique(Rng& r, int depth) { M m; size_t n = gen_size(r, depth); for (size_t i = 0; i < n; ++i) { K k = KeyTr<K>::gen(r); if (m.find(k) == m.end()) m.emplace(std::move(k), Tr<V>::gen(r, depth + 1)); } return m; }
    static bool judge_values(const M& m) { for (const auto& kv : m) if (!Tr<V>::judgeable(kv.second)) return false; return true; }
    static void sites_map(const M& t, const json& j, Walk& w, const char* cpp) {
        wrong_here(w, as_mask, st_mask, K_OBJ, cpp);
        if (!j.is_object()) return;
        for (const auto& kv : t) {
            std::string k = KeyTr<K>::text(kv.first);
            if (!j.contains(k)) continue;
            if (KeyTr<K>::integral) w.offer("wrong-key", [&] { Site s; s.op = Op::RenameKey; s.key = k; s.key2 = w.r.coin() ? "zq" : "1x"; s.expected_cpp = cpp; return s; });
            Walk::Push p(w, k, false); Tr<V>::sites(kv.second, j.at(k), w);
        }
    }
};
template <class K, class V> struct Tr<std::map<K, V>> : MapTr<std::map<K, V>, K, V> {
    using M = std::map<K, V>; using B = MapTr<M, K, V>;
    static std::string name() { return std::string("map<") + (KeyTr<K>::integral ? Tr<K>::name() : "string") + "," + Tr<V>::name() + ">"; }
    static M gen(Rng& r, int depth) { return B::gen_unique(r, depth); }
    static bool eq(const M& a, const M& b) { if (a.size() != b.size()) return false; auto ib = b.begin(); for (auto ia = a.begin(); ia != a.end(); ++ia, ++ib) if (!(ia->first == ib->first) || !Tr<V>::eq(ia->second, ib->second)) return false; return true; }
    static bool judgeable(const M& m) { return B::judge_values(m); }
    static void sites(const M& t, const json& j, Walk& w) { B::sites_map(t, j, w, "map"); }
};
template <class K, class V> struct Tr<std::unordered_map<K, V>> : MapTr<std::unordered_map<K, V>, K, V> {
    using M = std::unordered_map<K, V>; using B = MapTr<M, K, V>;
    static std::string name() { return std::string("unordered_map<") + (KeyTr<K>::integral ? Tr<K>::name() : "string") + "," + Tr<V>::name() + ">"; }
    static M gen(Rng& r, int depth) { return B::gen_unique(r, depth); }
    static bool eq(const M& a, const M& b) { if (a.size() != b.size()) return false; for (const auto& kv : a) { auto it = b.find(kv.first); if (it == b.end() || !Tr<V>::eq(kv.second, it->second)) return false; } return true; }
    static bool judgeable(const M& m) { return B::judge_values(m); }
    static void sites(const M& t, const json& j, Walk& w) { B::sites_map(t, j, w, "unordered_map"); }
};
// multimap: duplicate keys have no JSON object meaning (the streaming encoder writes them all, basic_json keeps the first);
// values with duplicate keys are executed but not judged
template <class K, class V> struct Tr<std::multimap<K, V>> : MapTr<std::multimap<K, V>, K, V> {
    using M = std::multimap<K, V>; using B = MapTr<M, K, V>;
    static std::string name() { return std::string("multimap<") + (KeyTr<K>::integral ? Tr<K>::name() : "string") + "," + Tr<V>::name() + ">"; }
    static M gen(Rng& r, int depth) { M m = B::gen_unique(r, depth); if (!m.empty() && r.chance(1, 8)) { K k = m.begin()->first; m.emplace(std::move(k), Tr<V>::gen(r, depth + 1)); } return m; }
    static bool eq(const M& a, const M& b) { if (a.size() != b.size()) return false; auto ib = b.begin(); for (auto ia = a.begin(); ia != a.end(); ++ia, ++ib) if (!(ia->first == ib->first) || !Tr<V>::eq(ia->second, ib->second)) return false; return true; }
    static bool judgeable(const M& m) { for (auto it = m.begin(); it != m.end(); ++it) { auto nx = std::next(it); if (nx != m.end() && nx->first == it->first) return false; } return B::judge_values(m); }
    static void sites(const M& t, const json& j, Walk& w) { if (judgeable(t)) B::sites_map(t, j, w, "multimap"); }
};

// ---- optional / smart pointers -------------------------------------------------------------
template <class E> struct Tr<std::optional<E>> : TrBase<std::optional<E>> {
    using C = std::optional<E>;
    static std::string name() { return "optional<" + Tr<E>::name() + ">"; }
    static C gen(Rng& r, int depth) { if (r.chance(1, 3)) return C(); return C(Tr<E>::gen(r, depth)); }
    static bool eq(const C& a, const C& b) { return a.has_value() == b.has_value() && (!a.has_value() || Tr<E>::eq(*a, *b)); }
    static constexpr unsigned is_mask = K_NULL | Tr<E>::is_mask, as_mask = K_NULL | Tr<E>::as_mask, st_mask = as_mask;
    static constexpr bool native = false;
    static constexpr bool copyable = Tr<E>::copyable, can_stream_encode = Tr<E>::can_stream_encode, can_stream_decode = Tr<E>::can_stream_decode;
    static bool judgeable(const C& c) { return !c.has_value() || Tr<E>::judgeable(*c); }
    static void sites(const C& t, const json& j, Walk& w) {
        Walk::Via v(w, true);
        if (t.has_value() && !j.is_null()) Tr<E>::sites(*t, j, w);
        else wrong_here(w, as_mask, st_mask, 0, "optional");
    }
};
template <class P, class E> struct PtrTr : TrBase<P> {
    static bool eq(const P& a, const P& b) { return (a == nullptr) == (b == nullptr) && (!a || Tr<E>::eq(*a, *b)); }
    static constexpr unsigned is_mask = K_NULL | Tr<E>::is_mask, as_mask = K_NULL | Tr<E>::as_mask, st_mask = as_mask;
    static constexpr bool native = false;
    static constexpr bool can_stream_encode = Tr<E>::can_stream_encode, can_stream_decode = Tr<E>::can_stream_decode;
    static bool judgeable(const P& c) { return !c || Tr<E>::judgeable(*c); }
    static void sites(const P& t, const json& j, Walk& w) {
        Walk::Via v(w, true);
        if (t && !j.is_null()) Tr<E>::sites(*t, j, w);
        else wrong_here(w, as_mask, st_mask, 0, "pointer");
    }
};
template <class E> struct Tr<std::shared_ptr<E>, typename std::enable_if<!std::is_polymorphic<E>::value>::type> : PtrTr<std::shared_ptr<E>, E> {
    static std::string name() { return "shared_ptr<" + Tr<E>::name() + ">"; }
    static std::shared_ptr<E> gen(Rng& r, int depth) { if (r.chance(1, 3)) return nullptr; return std::make_shared<E>(Tr<E>::gen(r, depth)); }
};
template <class E> struct Tr<std::unique_ptr<E>, typename std::enable_if<!std::is_polymorphic<E>::value>::type> : PtrTr<std::unique_ptr<E>, E> {
    static constexpr bool copyable = false;
    static std::string name() { return "unique_ptr<" + Tr<E>::name() + ">"; }
    static std::unique_ptr<E> gen(Rng& r, int depth) { if (r.chance(1, 3)) return nullptr; return std::make_unique<E>(Tr<E>::gen(r, depth)); }
};

// ---- variant (alternatives must be distinguishable through is<T>() for the value to be judged) -----
// variants whose alternatives overlap (a value of one alternative also satisfies is<> of an earlier one) are declared ambiguous by
// the driver: their values are executed through every route but never judged
template <class V> struct AmbiguousVariant : std::false_type {};
template <class... As> struct Tr<std::variant<As...>> : TrBase<std::variant<As...>> {
    using C = std::variant<As...>;
    static std::string name() { std::string s = "variant<"; bool f = true; ((s += (f ? "" : ","), s += Tr<As>::name(), f = false), ...); (void)f; return s + ">"; }
    template <size_t I> static C gen_alt(Rng& r, int depth) { return C(std::in_place_index<I>, Tr<std::variant_alternative_t<I, C>>::gen(r, depth)); }
    template <size_t... I> static C gen_(Rng& r, int depth, std::index_sequence<I...>) {
        using Fn = C (*)(Rng&, int);
        static const Fn fns[] = {&gen_alt<I>...};
        return fns[r.below(sizeof...(I))](r, depth);
    }
    static C gen(Rng& r, int depth) { return gen_(r, depth, std::index_sequence_for<As...>()); }
    static bool eq(const C& a, const C& b) {
        if (a.index() != b.index()) return false;
        return std::visit([&](const auto& x) { using X = std::decay_t<decltype(x)>; const X* y = std::get_if<X>(&b); return y && Tr<X>::eq(x, *y); }, a);
    }
    static constexpr unsigned is_mask = (Tr<As>::is_mask | ... | 0u), as_mask = is_mask, st_mask = is_mask;
    static constexpr bool native = false;
    static constexpr bool copyable = (Tr<As>::copyable && ... && true), can_stream_encode = (Tr<As>::can_stream_encode && ... && true), can_stream_decode = (Tr<As>::can_stream_decode && ... && true);
    static bool judgeable(const C& c) { if (AmbiguousVariant<C>::value) return false; return std::visit([](const auto& x) { return Tr<std::decay_t<decltype(x)>>::judgeable(x); }, c); }
    static void sites(const C&, const json&, Walk& w) { Walk::Via v(w, true); wrong_here(w, as_mask, st_mask, 0, "variant"); }   // no descent: the alternative is chosen by shape
};

// ---- chrono durations (seconds / milliseconds / nanoseconds periods are the supported ones) ----
template <class Rep, class Period> struct Tr<std::chrono::duration<Rep, Period>> : TrBase<std::chrono::duration<Rep, Period>> {
    using C = std::chrono::duration<Rep, Period>;
    static std::string name() {
        std::string p = std::is_same<Period, std::ratio<1>>::value ? "s" : std::is_same<Period, std::milli>::value ? "ms" : std::is_same<Period, std::nano>::value ? "ns" : "?";
        return "duration<" + Tr<Rep>::name() + "," + p + ">";
    }
    static C gen(Rng& r, int depth) {
        if (r.coin()) return C(Tr<Rep>::gen(r, depth));
        if (std::is_floating_point<Rep>::value) return C((Rep)((double)r.range(-4000000, 4000000) / 8.0));
        return C((Rep)r.range(r.coin() ? -100000 : -2000000000LL, 2000000000LL));
    }
    static bool eq(const C& a, const C& b) { return a.count() == b.count(); }
    static constexpr unsigned is_mask = K_NUM | K_STR, as_mask = K_BOOL | K_NUM | K_STR, st_mask = as_mask;
    static constexpr bool native = false;
    static void sites(const C&, const json&, Walk& w) { Walk::Via v(w, true); wrong_here(w, as_mask, st_mask, K_NUM, "duration"); }
};

// ---- bitset -----------------------------------------------------------------------------------
template <size_t N> struct Tr<std::bitset<N>> : TrBase<std::bitset<N>> {
    using C = std::bitset<N>;
    static std::string name() { return "bitset<" + std::to_string(N) + ">"; }
    static C gen(Rng& r, int) { C c; switch (r.below(4)) { case 0: break; case 1: c.set(); break; default: for (size_t i = 0; i < N; ++i) c[i] = r.coin(); } return c; }
    static bool eq(const C& a, const C& b) { return a == b; }
    static constexpr unsigned is_mask = K_STR | K_NUM, as_mask = K_BOOL | K_NUM | K_STR, st_mask = as_mask;
    static constexpr bool native = false;
    static void sites(const C&, const json&, Walk& w) { Walk::Via v(w, true); wrong_here(w, as_mask, st_mask, K_STR, "bitset"); }
};

// ---- classes described with the trait macros --------------------------------------------------
// A described class C provides:
//   auto tie() const                      -> std::tuple<const M&...> of all members in macro order
//   C(M...)                               constructor from all members
//   static const char* const* names()     JSON member names in macro order
//   static constexpr size_t mandatory     number of mandatory members
//   static constexpr bool native_decode   the macro family generates decode_traits (MEMBER / MEMBER_NAME)
//   static std::string family()           type name used in signatures of value checks
//   static const char* macro()            macro family, used in signatures of mismatch checks at positions of this class
template <class C> using class_family_t = decltype(C::family());   // std::string family()

template <class Tuple> struct TieValues;
template <class... Ms> struct TieValues<std::tuple<Ms...>> { using type = std::tuple<std::remove_cv_t<std::remove_reference_t<Ms>>...>; };

inline const char* pick_unknown_name(Rng& r, const json& obj) {
    static const char* fixed[] = {"!unknown", "zzzz_unknown", "Mid_unknown", "n_unknown"};
    (void)obj;
    return r.pick(fixed);
}
inline json gen_unknown_value(Rng& r) {
    switch (r.below(6)) {
    case 0: return json(5);
    case 1: return json("text");
    case 2: return json::null();
    case 3: return json::parse("[1,2,[3]]");
    case 4: return json::parse("{\"q\":2,\"w\":{\"e\":[]}}");
    default: return json(jsoncons::json_object_arg);
    }
}

template <class C> struct Tr<C, std::void_t<class_family_t<C>>> : TrBase<C> {
    using Tie = decltype(std::declval<const C&>().tie());
    using Vals = typename TieValues<Tie>::type;
    static constexpr size_t N = std::tuple_size<Vals>::value;
    static std::string name() { return C::family(); }
    template <size_t... I> static C gen_(Rng& r, int depth, std::index_sequence<I...>) {
        Vals v{Tr<std::tuple_element_t<I, Vals>>::gen(r, depth + 1)...};
        return C(std::move(std::get<I>(v))...);
    }
    static C gen(Rng& r, int depth) { return gen_(r, depth, std::make_index_sequence<N>()); }
    template <size_t... I> static bool eq_(const Tie& a, const Tie& b, std::index_sequence<I...>) { return (Tr<std::tuple_element_t<I, Vals>>::eq(std::get<I>(a), std::get<I>(b)) && ... && true); }
    static bool eq(const C& a, const C& b) { return eq_(a.tie(), b.tie(), std::make_index_sequence<N>()); }
    template <size_t... I> static bool judge_(const Tie& a, std::index_sequence<I...>) { return (Tr<std::tuple_element_t<I, Vals>>::judgeable(std::get<I>(a)) && ... && true); }
    static bool judgeable(const C& a) { return judge_(a.tie(), std::make_index_sequence<N>()); }
    static constexpr unsigned is_mask = K_OBJ, as_mask = K_OBJ, st_mask = K_OBJ;
    static constexpr bool native = C::native_decode;
    static constexpr bool copyable = std::is_copy_constructible<C>::value;
    template <size_t... I> static constexpr bool enc_ok(std::index_sequence<I...>) { return (Tr<std::tuple_element_t<I, Vals>>::can_stream_encode && ... && true); }
    template <size_t... I> static constexpr bool dec_ok(std::index_sequence<I...>) { return (Tr<std::tuple_element_t<I, Vals>>::can_stream_decode && ... && true); }
    static constexpr bool can_stream_encode = enc_ok(std::make_index_sequence<N>()), can_stream_decode = dec_ok(std::make_index_sequence<N>());
    template <size_t I> static void member_site(const Tie& t, const json& j, Walk& w) {
        const char* nm = C::names()[I];
        if (!j.contains(nm)) return;                       // absent optional member
        if (I < C::mandatory) w.offer("missing-member", [&] { Site s; s.op = Op::EraseMember; s.key = nm; s.expected_cpp = std::string("class/") + C::macro(); return s; });
        Walk::Push p(w, std::string(nm), !C::native_decode);
        Tr<std::tuple_element_t<I, Vals>>::sites(std::get<I>(t), j.at(nm), w);
    }
    template <size_t... I> static void sites_(const Tie& t, const json& j, Walk& w, std::index_sequence<I...>) { (member_site<I>(t, j, w), ...); }
    static void sites(const C& c, const json& j, Walk& w) {
        Walk::Via v(w, !C::native_decode);
        const std::string pos = std::string("class/") + C::macro();     // signature family: the macro family that generated the traits
        wrong_here(w, as_mask, st_mask, K_OBJ, pos);
        if (!j.is_object()) return;
        w.offer("extra-member", [&] { Site s; s.op = Op::AddMember; s.key = pick_unknown_name(w.r, j); s.val = gen_unknown_value(w.r); s.ex = Expect::Same; s.expected_cpp = pos; return s; });
        sites_(c.tie(), j, w, std::make_index_sequence<N>());
    }
};

// ------------------------------------------------------------------------------------------
// Formats.  All T-dependent code is confined to TypedImpl<T> (thin calls into the library); the monitor logic
// below is type-erased so that it is compiled once per driver.
enum Fmt { F_JSON = 0, F_CBOR, F_MSGPACK, F_UBJSON, F_BSON, F_N };
inline const char* fmt_name(int f) { static const char* n[] = {"json", "cbor", "msgpack", "ubjson", "bson"}; return n[f]; }
enum EncHow { E_CONT = 0, E_TRY, E_OSTREAM };
enum DecHow { D_CONT = 0, D_TRY, D_ISTREAM, D_ITER };

struct FJson {
    using Buf = std::string;
    template <class T> static void enc(const T& t, Buf& b) { jsoncons::encode_json(t, b); }
    template <class T> static jsoncons::write_result try_enc(const T& t, Buf& b) { return jsoncons::try_encode_json(t, b); }
    template <class T> static void enc_os(const T& t, std::ostream& os) { jsoncons::encode_json(t, os); }
    template <class T> static T dec(const Buf& b) { return jsoncons::decode_json<T>(b); }
    template <class T> static jsoncons::read_result<T> try_dec(const Buf& b) { return jsoncons::try_decode_json<T>(b); }
    template <class T> static T dec_is(std::istream& is) { return jsoncons::decode_json<T>(is); }
    template <class T> static T dec_it(const Buf& b) { return jsoncons::decode_json<T>(b.begin(), b.end()); }
};
#define C17_BINFMT(NAME, NS) \
struct NAME { \
    using Buf = std::vector<uint8_t>; \
    template <class T> static void enc(const T& t, Buf& b) { jsoncons::NS::encode_##NS(t, b); } \
    template <class T> static jsoncons::write_result try_enc(const T& t, Buf& b) { return jsoncons::NS::try_encode_##NS(t, b); } \
    template <class T> static void enc_os(const T& t, std::ostream& os) { jsoncons::NS::encode_##NS(t, os); } \
    template <class T> static T dec(const Buf& b) { return jsoncons::NS::decode_##NS<T>(b); } \
    template <class T> static jsoncons::read_result<T> try_dec(const Buf& b) { return jsoncons::NS::try_decode_##NS<T>(b); } \
    template <class T> static T dec_is(std::istream& is) { return jsoncons::NS::decode_##NS<T>(is); } \
    template <class T> static T dec_it(const Buf& b) { return jsoncons::NS::decode_##NS<T>(b.begin(), b.end()); } \
};
C17_BINFMT(FCbor, cbor)
C17_BINFMT(FMsgpack, msgpack)
C17_BINFMT(FUbjson, ubjson)
C17_BINFMT(FBson, bson)

inline std::string show_bytes(int f, const std::string& b) { return f == F_JSON ? (b.size() > 1500 ? b.substr(0, 1500) + "..." : b) : hex(b.data(), b.size() > 800 ? 800 : b.size()); }

// Outcome capture.  Library error channel = jsoncons::json_exception (conv_error, ser_error, ...) except assertion_error.
struct Err { bool lib = false; std::string what, type; };

// one try/catch for the whole driver: callers pass a plain function pointer + context
inline bool guarded_raw(void (*fn)(void*), void* ctx, Err& e) {
    try { fn(ctx); return true; }
    catch (const jsoncons::assertion_error& x) { e.lib = false; e.what = x.what(); e.type = "jsoncons::assertion_error"; }
    catch (const jsoncons::json_exception& x) { e.lib = true; e.what = x.what(); e.type = current_exception_type(); }
    catch (const std::exception& x) { e.lib = false; e.what = x.what(); e.type = current_exception_type(); }
    return false;
}
template <class Fn> bool guarded_call(Fn&& fn, Err& e) {
    using F = typename std::remove_reference<Fn>::type;
    return guarded_raw([](void* p) { (*static_cast<F*>(p))(); }, (void*)&fn, e);
}

inline std::string clip(const std::string& s, size_t n = 1500) { return s.size() > n ? s.substr(0, n) + "..." : s; }
template <class T> std::string show_value(const T& t) { try { json j(t); return clip(j.to_string()); } catch (...) { return "<unprintable>"; } }

// result codes of the compare operations
enum { R_ERROR = 0, R_EQUAL = 1, R_DIFFERENT = 2, R_TRY_THREW = 3, R_UNSUPPORTED = 4, R_ACCEPTED = 5 };

// A value that the library returned for input it should have refused may be partly uninitialised (reading it is undefined
// behaviour that UBSan turns into an abort).  It is therefore rendered in a sacrificial child process.
inline std::string in_child(void (*fn)(void*, std::string&), void* ctx) {
    int fd[2];
    if (pipe(fd) != 0) return "<pipe failed>";
    fflush(stdout);
    pid_t pid = fork();
    if (pid < 0) { close(fd[0]); close(fd[1]); return "<fork failed>"; }
    if (pid == 0) {
        close(fd[0]);
        int dn = open("/dev/null", O_WRONLY);
        if (dn >= 0) { dup2(dn, 1); dup2(dn, 2); }
        std::string out;
        try { fn(ctx, out); } catch (...) { out = "<exception while rendering>"; }
        size_t off = 0; while (off < out.size()) { ssize_t w = write(fd[1], out.data() + off, out.size() - off); if (w <= 0) break; off += (size_t)w; }
        _exit(0);
    }
    close(fd[1]);
    std::string out; char buf[4096]; ssize_t n;
    while ((n = read(fd[0], buf, sizeof buf)) > 0) out.append(buf, (size_t)n);
    close(fd[0]);
    int st = 0; waitpid(pid, &st, 0);
    if (!(WIFEXITED(st) && WEXITSTATUS(st) == 0))
        return "<reading the returned object aborted under the sanitizers (" + std::string(WIFSIGNALED(st) ? "signal " + std::to_string(WTERMSIG(st)) : "exit " + std::to_string(WEXITSTATUS(st))) + "): it is uninitialised or invalid>";
    return out;
}

struct Typed {
    std::string fam;
    bool native = false, can_enc = true, can_dec = true;
    const char* bson_array_kind = "fallback";
    virtual ~Typed() = default;
    virtual bool to_json(json& j, Err& e) const = 0;
    virtual bool judgeable() const = 0;
    virtual bool encode(int f, int how, std::string& out, Err& e) const = 0;
    // compare == false: the returned object is not touched (R_ACCEPTED)
    virtual int decode_cmp(int f, int how, const std::string& bytes, Err& e, std::string* shown, bool compare = true) const = 0;
    virtual int as_cmp(const json& d, bool use_try, Err& e, std::string* shown, bool compare = true) const = 0;
    virtual std::string describe_decoded(int f, const std::string& bytes) const = 0;   // rendered in a child process
    virtual std::string describe_as(const json& d) const = 0;
    virtual int as_vs_decode(const json& d, const std::string& text) const = 0;   // R_EQUAL: both routes agree (both reject or equal values)
    virtual void sites(const json& j, Walk& w) const = 0;
    virtual std::unique_ptr<Typed> wrapped() const = 0;                            // {"v": t} as std::map<std::string,T>, or null
};

template <class T, bool AllFormats = true> struct TypedImpl : Typed {
    using X = Tr<T>;
    T t;
    explicit TypedImpl(T&& v) : t(std::move(v)) { fam = X::name(); native = X::native; can_enc = X::can_stream_encode; can_dec = X::can_stream_decode; bson_array_kind = X::bson_array_kind(); }
    bool to_json(json& j, Err& e) const override { return guarded_call([&] { j = json(t); }, e); }
    bool judgeable() const override { return X::judgeable(t); }
    void sites(const json& j, Walk& w) const override { X::sites(t, j, w); }

    template <class F> bool enc_(int how, std::string& out, Err& e) const {
        if constexpr (!X::can_stream_encode) { (void)how; (void)out; e.lib = true; e.what = "uncompilable"; return false; }
        else {
            typename F::Buf b;
            switch (how) {
            case E_CONT: if (!guarded_call([&] { F::enc(t, b); }, e)) return false; out.assign(b.begin(), b.end()); return true;
            case E_TRY: { bool ok = false; if (!guarded_call([&] { auto wr = F::try_enc(t, b); ok = (bool)wr; if (!wr) { e.lib = true; e.what = wr.error().message(); e.type = "unexpected"; } }, e)) { e.type = "try-threw:" + e.type; return false; }
                          out.assign(b.begin(), b.end()); return ok; }
#ifdef C17_OVERLOADS
            default: { std::ostringstream os; if (!guarded_call([&] { F::enc_os(t, os); }, e)) return false; out = os.str(); return true; }
#else
            default: return false;
#endif
            }
        }
    }
    bool encode(int f, int how, std::string& out, Err& e) const override {
        if constexpr (AllFormats) {
            switch (f) {
            case F_JSON: return enc_<FJson>(how, out, e);
            case F_CBOR: return enc_<FCbor>(how, out, e);
            case F_MSGPACK: return enc_<FMsgpack>(how, out, e);
            case F_UBJSON: return enc_<FUbjson>(how, out, e);
            default: break;
            }
        }
        (void)f;
        return enc_<FBson>(how, out, e);
    }
    int cmp_(const T& got, std::string* shown) const { if (X::eq(got, t)) return R_EQUAL; if (shown) *shown = show_value(got); return R_DIFFERENT; }
    template <class F> int dec_(int how, const std::string& bytes, Err& e, std::string* shown, bool compare) const {
        if constexpr (!X::can_stream_decode) { (void)how; (void)bytes; (void)e; (void)shown; (void)compare; return R_UNSUPPORTED; }
        else {
            typename F::Buf b(bytes.begin(), bytes.end());
            int rc = R_ERROR;
            switch (how) {
            case D_CONT: guarded_call([&] { T v = F::template dec<T>(b); rc = compare ? cmp_(v, shown) : R_ACCEPTED; }, e); return rc;
            case D_TRY: if (!guarded_call([&] { auto rr = F::template try_dec<T>(b); if (rr) rc = compare ? cmp_(*rr, shown) : R_ACCEPTED; else { e.lib = true; e.what = rr.error().code().message(); e.type = "unexpected"; } }, e)) { e.type = "try-threw:" + e.type; return R_TRY_THREW; } return rc;
#ifdef C17_OVERLOADS
            case D_ISTREAM: guarded_call([&] { std::istringstream is(bytes); T v = F::template dec_is<T>(is); rc = cmp_(v, shown); }, e); return rc;
            default: guarded_call([&] { T v = F::template dec_it<T>(b); rc = cmp_(v, shown); }, e); return rc;
#else
            default: return R_UNSUPPORTED;
#endif
            }
        }
    }
    int decode_cmp(int f, int how, const std::string& bytes, Err& e, std::string* shown, bool compare) const override {
        if constexpr (AllFormats) {
            switch (f) {
            case F_JSON: return dec_<FJson>(how, bytes, e, shown, compare);
            case F_CBOR: return dec_<FCbor>(how, bytes, e, shown, compare);
            case F_MSGPACK: return dec_<FMsgpack>(how, bytes, e, shown, compare);
            case F_UBJSON: return dec_<FUbjson>(how, bytes, e, shown, compare);
            default: break;
            }
        }
        (void)f;
        return dec_<FBson>(how, bytes, e, shown, compare);
    }
    std::string describe_decoded(int f, const std::string& bytes) const override {
        struct Ctx { const TypedImpl* self; int f; const std::string* bytes; } ctx{this, f, &bytes};
        return in_child([](void* p, std::string& out) { Ctx* c = static_cast<Ctx*>(p); Err e; std::string shown; int rc = c->self->decode_cmp(c->f, D_CONT, *c->bytes, e, &shown, true); out = rc == R_EQUAL ? "the undamaged value" : rc == R_DIFFERENT ? shown : "error on second decode: " + e.what; }, &ctx);
    }
    std::string describe_as(const json& d) const override {
        struct Ctx { const TypedImpl* self; const json* d; } ctx{this, &d};
        return in_child([](void* p, std::string& out) { Ctx* c = static_cast<Ctx*>(p); Err e; std::string shown; int rc = c->self->as_cmp(*c->d, false, e, &shown, true); out = rc == R_EQUAL ? "the undamaged value" : rc == R_DIFFERENT ? shown : "error on second conversion: " + e.what; }, &ctx);
    }
    int as_cmp(const json& d, bool use_try, Err& e, std::string* shown, bool compare) const override {
        int rc = R_ERROR;
        if (!use_try) { guarded_call([&] { T v = d.template as<T>(); rc = compare ? cmp_(v, shown) : R_ACCEPTED; }, e); return rc; }
        if (!guarded_call([&] { auto rr = d.template try_as<T>(); if (rr) rc = compare ? cmp_(*rr, shown) : R_ACCEPTED; else { e.lib = true; e.what = rr.error().code().message(); e.type = "unexpected"; } }, e)) return R_TRY_THREW;
        return rc;
    }
    int as_vs_decode(const json& d, const std::string& text) const override {
        if constexpr (!X::can_stream_decode || !AllFormats) { (void)d; (void)text; return R_UNSUPPORTED; }
        else {
            std::optional<T> a, b; Err e1, e2;
            guarded_call([&] { a.emplace(d.template as<T>()); }, e1);
            guarded_call([&] { b.emplace(jsoncons::decode_json<T>(text)); }, e2);
            if (a.has_value() != b.has_value()) return R_DIFFERENT;
            if (!a.has_value()) return R_EQUAL;
            return X::eq(*a, *b) ? R_EQUAL : R_DIFFERENT;
        }
    }
    std::unique_ptr<Typed> wrapped() const override {
        if constexpr (X::copyable && AllFormats && !(X::is_mask & (K_ARR | K_OBJ))) { /* only types whose JSON form is never a container */ std::map<std::string, T> m; m.emplace("v", t); return std::unique_ptr<Typed>(new TypedImpl<std::map<std::string, T>, false>(std::move(m))); }
        else return nullptr;
    }
};

// type-independent codecs for basic_json values
inline bool enc_json_value(int f, const json& j, std::string& out, Err& e) {
    std::vector<uint8_t> b;
    bool ok = guarded_call([&] {
        switch (f) {
        case F_JSON: out.clear(); jsoncons::encode_json(j, out); break;
        case F_CBOR: jsoncons::cbor::encode_cbor(j, b); break;
        case F_MSGPACK: jsoncons::msgpack::encode_msgpack(j, b); break;
        case F_UBJSON: jsoncons::ubjson::encode_ubjson(j, b); break;
        default: jsoncons::bson::encode_bson(j, b); break;
        }
    }, e);
    if (ok && f != F_JSON) out.assign(b.begin(), b.end());
    return ok;
}
inline bool dec_json_value(int f, const std::string& bytes, json& out, Err& e) {
    return guarded_call([&] {
        std::vector<uint8_t> b; if (f != F_JSON) b.assign(bytes.begin(), bytes.end());
        switch (f) {
        case F_JSON: out = jsoncons::decode_json<json>(bytes); break;
        case F_CBOR: out = jsoncons::cbor::decode_cbor<json>(b); break;
        case F_MSGPACK: out = jsoncons::msgpack::decode_msgpack<json>(b); break;
        case F_UBJSON: out = jsoncons::ubjson::decode_ubjson<json>(b); break;
        default: out = jsoncons::bson::decode_bson<json>(b); break;
        }
    }, e);
}

inline void foreign(const std::string& where, const Err& e, const std::string& detail_text) {
    // an exception outside the library error channel: a violation of its own
    H.violation("typed/foreign-exception/" + where + "/" + e.type, J().str("what", e.what).str("input", clip(detail_text)).done());
}

inline bool has_nul_key(const json& j) {
    if (j.is_object()) { for (const auto& m : j.object_range()) { if (m.key().find('\0') != std::string::npos) return true; if (has_nul_key(m.value())) return true; } }
    else if (j.is_array()) { for (const auto& e : j.array_range()) if (has_nul_key(e)) return true; }
    return false;
}
inline bool has_big_uint(const json& j) {
    if (j.is_object()) { for (const auto& m : j.object_range()) if (has_big_uint(m.value())) return true; }
    else if (j.is_array()) { for (const auto& e : j.array_range()) if (has_big_uint(e)) return true; }
    else if (j.type() == json_type::uint64 && j.as<uint64_t>() > (uint64_t)INT64_MAX) return true;
    return false;
}

// Documented lossy format mappings: returns "" when the value lies in the judged domain of format f, else the reason.
//  - UBJSON has no byte string type (byte strings are written as arrays of uint8): std::bitset, whose JSON form is a byte string, is not judged.
//  - CBOR writes epoch_milli / epoch_nano values as tag 1 with float64 seconds: judged for integers below 2^51 in magnitude (the exact
//    value is then the nearest integer to seconds*1000 resp. seconds*1e9); floating-point millisecond/nanosecond counts are not judged.
//  - BSON datetime is int64 milliseconds: epoch_second values above INT64_MAX/1000 are refused by the encoder, epoch_nano values are
//    truncated to milliseconds; floating-point counts are not judged.
//  - MessagePack timestamps carry integer seconds + nanoseconds: floating-point counts are not judged.
inline const char* fmt_domain(const json& j, int f) {
    if (j.is_object()) { for (const auto& m : j.object_range()) if (const char* w = fmt_domain(m.value(), f)) return w; return nullptr; }
    if (j.is_array()) { for (const auto& e : j.array_range()) if (const char* w = fmt_domain(e, f)) return w; return nullptr; }
    if (f == F_UBJSON && j.is_byte_string()) return "ubjson-byte-string";
    semantic_tag t = j.tag();
    bool epoch = t == semantic_tag::epoch_second || t == semantic_tag::epoch_milli || t == semantic_tag::epoch_nano;
    if (!epoch || f == F_JSON || f == F_UBJSON) return nullptr;
    if (j.is_double()) return (t == semantic_tag::epoch_second && f == F_CBOR) ? nullptr : "epoch-floating-point";
    bool neg = j.type() == json_type::int64 && j.as<int64_t>() < 0;
    uint64_t mag = j.type() == json_type::uint64 ? j.as<uint64_t>() : (neg ? (uint64_t)0 - (uint64_t)j.as<int64_t>() : (uint64_t)j.as<int64_t>());
    if (f == F_CBOR && t != semantic_tag::epoch_second && mag >= (1ULL << 51)) return "cbor-epoch-float64-precision";   // two roundings (/ and *) of 2^-53 each
    if (f == F_BSON) {
        if (t == semantic_tag::epoch_second && mag > (uint64_t)INT64_MAX / 1000) return "bson-datetime-range";
        if (t == semantic_tag::epoch_nano && mag % 1000000 != 0) return "bson-datetime-milliseconds";
    }
    return nullptr;
}

struct Opts {
#ifdef C17_OVERLOADS
    bool overloads = true;
#else
    bool overloads = false;
#endif
    int damages = 2;
    bool known_all = false; std::set<std::string> known;      // root causes declared open: --known-open id,id | all  (or env C17_KNOWN_OPEN)
};
inline Opts& opts() { static Opts o; return o; }

// ------------------------------------------------------------------------------------------
// Known-bad classes.  Each root cause that was found by this monitor has an id and a predicate that decides membership of a
// would-be violation in its class.  While an id is declared open (stage argument --known-open, see vlib/propdefs/c17.py) the random
// workload does not judge cases of that class (counted as not_judged.known.<id>); the witness stage (c17_witness.cpp) executes fixed
// cases of every root cause on every run and reports typed/witness/<id> while the library still misbehaves.
inline bool known_open(const char* id) { return id && (opts().known_all || opts().known.count(id) != 0); }

inline bool has_epoch_int(const json& j, semantic_tag tag, bool negative_only) {
    if (j.is_object()) { for (const auto& m : j.object_range()) if (has_epoch_int(m.value(), tag, negative_only)) return true; return false; }
    if (j.is_array()) { for (const auto& e : j.array_range()) if (has_epoch_int(e, tag, negative_only)) return true; return false; }
    if (j.tag() != tag || !(j.type() == json_type::int64 || j.type() == json_type::uint64)) return false;
    return !negative_only || (j.type() == json_type::int64 && j.as<int64_t>() < 0);
}
// value checks (round trips, route comparison): check is the check name used in the signature
inline const char* known_value_class(const std::string& check, int f, const std::string& fam, const json& j) {
    const bool rt = check.compare(0, 10, "roundtrip/") == 0;
    if (rt && j.is_null() && (fam == "shared_ptr<poly>" || fam == "unique_ptr<poly>")) return "poly-null-pointer";
    if (check == "routes-differ" && fam.find("N_GETTER_SETTER_NAME") != std::string::npos) return "n-getter-setter-name-null-member";
    if (rt && f == F_CBOR && has_epoch_int(j, semantic_tag::epoch_milli, false)) return "duration-ms-from-double-truncated";
    if (rt && f == F_CBOR && has_epoch_int(j, semantic_tag::epoch_nano, false)) return "duration-ns-from-double-truncated";
    if (rt && f == F_MSGPACK && (has_epoch_int(j, semantic_tag::epoch_milli, true) || has_epoch_int(j, semantic_tag::epoch_nano, true))) return "msgpack-negative-timestamp";
    if (rt && f == F_BSON && fam.find("duration<int32,s>") != std::string::npos) return "duration-narrow-rep-scaled-late";
    if (rt && f == F_BSON && fam == "arrayroot:typed-array-vector") return "bson-arrayroot-typed-array";
    return nullptr;
}
// damages: route is "as" or "decode"
inline const char* known_damage_class(const Site& s, const char* route) {
    const bool dec = route[0] == 'd';
    if (s.expected_cpp == "std::array") {
        if (dec && (s.kind == "too-few" || s.kind == "too-many")) return "stdarray-decode-size-unchecked";
        if (!dec && (s.kind == "container-kind" || s.kind == "wrong-kind")) return "stdarray-as-kind-unchecked";
    }
    if (dec && s.kind == "extra-member" && (s.expected_cpp == "class/ALL_MEMBER" || s.expected_cpp == "class/N_MEMBER" || s.expected_cpp == "class/ALL_MEMBER_NAME" ||
                                           s.expected_cpp == "class/N_MEMBER_NAME" || s.expected_cpp == "class/TPL_ALL_MEMBER" || s.expected_cpp == "class/TPL_N_MEMBER"))
        return "macro-decode-unknown-member";
    return nullptr;
}
inline void report(const std::string& sig, const std::string& detail, const char* known_id) {
    if (known_open(known_id)) { H.count_(std::string("not_judged.known.") + known_id); return; }
    H.violation(sig, detail);
}

// the two encodings denote the same value: both decoded to basic_json by the same decoder
inline void compare_encodings(int f, const std::string& b1, const std::string& b2, const std::string& fmt, const std::string& fam, const std::string& text) {
    H.count_("check.same-value." + fmt);
    if (b1 == b2) { H.count_("enc.bytes-identical." + fmt); return; }
    H.count_("enc.bytes-differ." + fmt);
    json d1, d2; Err e1, e2;
    bool o1 = dec_json_value(f, b1, d1, e1), o2 = dec_json_value(f, b2, d2, e2);
    if (!o1 || !o2) {
        H.violation("typed/routes-differ/undecodable/" + fmt + "/" + fam, J().str("value", text).str("stream_enc", show_bytes(f, b1)).str("json_enc", show_bytes(f, b2)).str("err_stream", e1.what).str("err_json", e2.what).done());
        return;
    }
    CmpCfg cfg; cfg.ordered_objects = false; cfg.tags = true; cfg.zero_sign = true; cfg.merge_int_kinds = true;
    std::string d = strict_diff(d1, d2, cfg);
    if (!d.empty()) {
        // tolerated: the same value carrying a different semantic tag on one side only
        CmpCfg c2 = cfg; c2.tags = false;
        std::string dd = strict_diff(d1, d2, c2);
        if (dd.empty()) { H.count_("tolerated.tag-only-difference." + fmt); return; }
        report("typed/routes-differ/value/" + fmt + "/" + fam, J().str("value", text).str("diff", dd).str("stream_enc", show_bytes(f, b1)).str("json_enc", show_bytes(f, b2)).done(), known_value_class("routes-differ", f, fam, d1));
    }
}

// One format, one valid value: checks 1-4 of the property
inline void rt_format(const Typed& v, int f, const json& j, const std::string& fam, const std::string& text, bool judge) {
    const std::string fmt = fmt_name(f);
    auto bad = [&](const char* check, const std::string& got, const std::string* b, const Err* e) {
        if (e && !e->lib) foreign(std::string(check) + "/" + fmt + "/" + fam, *e, text);
        if (!judge) { H.count_(std::string("unjudged.") + check + "." + fmt); return; }
        J d; d.str("type", v.fam).str("value", text).str("got", got);
        if (b) d.str("encoding", show_bytes(f, *b));
        if (e) d.str("error", e->what).str("error_type", e->type);
        report(std::string("typed/") + check + "/" + fmt + "/" + fam, d.done(), known_value_class(check, f, fam, j));
    };
    std::string b1, b2; bool have1 = false, have2 = false;
    // -------- streaming route: encode
    if (v.can_enc) {
        Err e;
        H.count_("check.encode-stream." + fmt);
        if (!v.encode(f, E_CONT, b1, e)) bad("encode-failed/stream", "", nullptr, &e); else have1 = true;
        if (have1) {
            std::string b3; Err e3;
            if (!v.encode(f, E_TRY, b3, e3)) bad("try-disagrees/encode", "try_encode reports an error", nullptr, &e3);
            else if (b3 != b1) bad("try-disagrees/encode", "different bytes", &b3, nullptr);
            if (opts().overloads) {
                std::string b4; Err e4;
                if (!v.encode(f, E_OSTREAM, b4, e4)) bad("overload/encode-ostream", "error", nullptr, &e4);
                else if (b4 != b1) bad("overload/encode-ostream", "different bytes", &b4, nullptr);
            }
        }
    } else H.count_("uncompilable.stream-encode." + v.fam);
    // -------- basic_json route: encode
    { Err e; if (!enc_json_value(f, j, b2, e)) bad("encode-failed/json-route", "", nullptr, &e); else have2 = true; }
    // -------- decode
    if (v.can_dec) {
        auto decode_check = [&](const char* check, int how, const std::string& b) -> int {
            Err e; std::string shown;
            H.count_(std::string("check.") + check + "." + fmt);
            int rc = v.decode_cmp(f, how, b, e, &shown);
            if (rc == R_DIFFERENT) bad(check, shown, &b, nullptr); else if (rc != R_EQUAL) bad(check, "error", &b, &e);
            return rc;
        };
        // try_ variants and the other overloads must behave like the container overload (same outcome on the same bytes)
        auto agree_check = [&](const char* check, int how, const std::string& b, int rc_ref) {
            Err e; std::string shown;
            H.count_(std::string("check.") + check + "." + fmt);
            int rc = v.decode_cmp(f, how, b, e, &shown);
            if (rc == R_TRY_THREW && !e.lib) foreign(std::string(check) + "/" + fmt + "/" + fam, e, text);
            if (rc != rc_ref) bad(check, "outcome " + std::to_string(rc) + " vs " + std::to_string(rc_ref) + " (0 error, 1 equal, 2 different value, 3 try_ threw) " + shown, &b, rc == R_ERROR || rc == R_TRY_THREW ? &e : nullptr);
        };
        if (have1) {
            int rc = decode_check("roundtrip/stream", D_CONT, b1);
            agree_check("try-disagrees/decode", D_TRY, b1, rc);
            if (opts().overloads) { agree_check("overload/decode-istream", D_ISTREAM, b1, rc); agree_check("overload/decode-iterators", D_ITER, b1, rc); }
        }
        if (have2 && (!have1 || b2 != b1)) decode_check("roundtrip/json-route", D_CONT, b2);
        else if (have2) H.count_("check.roundtrip/json-route-same-bytes." + fmt);
    } else H.count_("uncompilable.stream-decode." + v.fam);
    // -------- same value
    if (have1 && have2 && judge) compare_encodings(f, b1, b2, fmt, fam, text);
}

// BSON needs a document root.  Objects are judged as they are; arrays are written as a document with index keys and are judged
// under a coarse family (one signature per decode path); everything is also wrapped as {"v": t} (std::map<std::string,T>).
inline void rt_bson(const Typed& v, const json& j, const std::string& text, bool judge) {
    if (has_nul_key(j)) { H.count_("skip.bson.nul-in-key"); return; }                      // BSON element names are C strings
    if (has_big_uint(j)) { H.count_("skip.bson.uint64-above-int64-max"); return; }         // BSON has no unsigned 64-bit integer
    if (j.is_object()) rt_format(v, F_BSON, j, v.fam, text, judge);
    else if (j.is_array()) {
        // an array root is written as a document with index keys; only decode_traits that call cursor.array_expected() can read it back
        // as a sequence.  Types decoded through basic_json see an object: not judged.
        bool fb = std::string(v.bson_array_kind) == "fallback";
        if (fb) H.count_("domain.not-judged.bson-arrayroot-fallback");
        rt_format(v, F_BSON, j, std::string("arrayroot:") + v.bson_array_kind, text, judge && !fb);
    }
    else H.count_("skip.bson.scalar-root");
    if (!j.is_object()) {
        std::unique_ptr<Typed> w = v.wrapped();
        if (w) { json jm(jsoncons::json_object_arg); jm.try_emplace("v", j); rt_format(*w, F_BSON, jm, "wrapped:" + v.fam, text, judge); }
        else H.count_("skip.bson.not-wrapped(container-form-or-move-only)");
    }
}

// ------------------------------------------------------------------------------------------
// Shape mismatch injection
inline bool want_detail(const std::string& sig) { auto it = H.viol_by_sig.find(sig); return it == H.viol_by_sig.end() || it->second < 3; }

inline void damage_format(const Typed& v, int f, const json& d, const Site& s, const std::string& dtext) {
    const std::string fmt = fmt_name(f); const std::string& fam = v.fam; const std::string& pos = s.expected_cpp;
    std::string b; Err e;
    if (!enc_json_value(f, d, b, e)) { H.count_("damage.unencodable." + fmt); return; }
    H.count_("damage.executed.decode." + fmt);
    const bool compare = s.ex != Expect::Reject;       // an object returned for refused input is not touched in this process
    Err ed; std::string shown;
    int rc = v.decode_cmp(f, D_CONT, b, ed, &shown, compare);
    if (rc == R_UNSUPPORTED) { H.count_("uncompilable.stream-decode." + fam); return; }
    bool ok = rc != R_ERROR;
    if (!ok && !ed.lib) foreign("mismatch-decode/" + fmt + "/" + s.kind + "/" + pos, ed, dtext);
    Err et; int rt = v.decode_cmp(f, D_TRY, b, et, nullptr, compare);
    if (rt == R_TRY_THREW) { if (!et.lib) foreign("mismatch-try_decode/" + fmt + "/" + s.kind + "/" + pos, et, dtext); else H.count_("observed.try_decode-threw-library-exception." + fam); }
    else if ((rt != R_ERROR) != ok) H.violation("typed/mismatch/try-disagrees/decode/" + fmt + "/" + s.kind + "/" + pos, J().str("type", fam).str("damaged", dtext).boolean("decode_ok", ok).boolean("try_decode_ok", rt != R_ERROR).done());
    if (s.ex == Expect::Reject) {
        if (!s.judge_stream) { H.count_("damage.unjudged.decode." + s.kind + (ok ? ".accepted" : ".rejected")); return; }
        if (ok) {
            std::string sig = "typed/mismatch/accepted/decode/" + fmt + "/" + s.kind + "/" + pos;
            const char* kid = known_damage_class(s, "decode");
            std::string returned = (!known_open(kid) && want_detail(sig)) ? v.describe_decoded(f, b) : std::string();
            report(sig, J().str("type", fam).str("damaged", dtext).str("at", path_str(s.path)).str("expected_at", s.expected_cpp).str("returned", returned).str("encoding", show_bytes(f, b)).done(), kid);
        } else H.count_("damage.rejected.decode." + s.kind);
    } else if (s.ex == Expect::Same) {
        if (!ok) report("typed/benign/rejected/decode/" + fmt + "/" + s.kind + "/" + pos,
                       J().str("type", fam).str("damaged", dtext).str("at", path_str(s.path)).str("error", ed.what).str("encoding", show_bytes(f, b)).done(), known_damage_class(s, "decode"));
        else if (rc != R_EQUAL) report("typed/benign/changed/decode/" + fmt + "/" + s.kind + "/" + pos, J().str("type", fam).str("damaged", dtext).str("returned", shown).done(), known_damage_class(s, "decode"));
        else H.count_("benign.ok.decode." + s.kind);
    }
}

inline void damage_once(Rng& r, const Typed& v, const json& j) {
    const std::string& fam = v.fam;
    Walk w(r);
    v.sites(j, w);
    if (w.res.empty()) { H.count_("damage.no-site." + fam); return; }
    auto it = w.res.begin(); std::advance(it, (long)r.below(w.res.size()));
    const Site& s = it->second.second;
    json d = j;
    if (!apply_site(d, s)) { H.count_("damage.not-applicable"); return; }
    std::string dtext = clip(d.to_string(), 3000);
    set_flight_desc("damage " + fam + " " + s.kind + " " + dtext);
    H.count_("damage-at." + s.kind + "." + s.expected_cpp);
    H.note_distinct(hash_str(dtext, hash_str(fam, 77)));
    // ---- route 1: basic_json as<T>() / try_as<T>()
    const bool compare = s.ex != Expect::Reject;
    Err e; std::string shown;
    int rc = v.as_cmp(d, false, e, &shown, compare);
    bool ok = rc != R_ERROR;
    if (!ok && !e.lib) foreign("mismatch-as/" + s.kind + "/" + s.expected_cpp, e, dtext);
    Err et; int rt = v.as_cmp(d, true, et, nullptr, compare);
    if (rt == R_TRY_THREW) { if (!et.lib) foreign("mismatch-try_as/" + s.kind + "/" + s.expected_cpp, et, dtext); else H.count_("observed.try_as-threw-library-exception." + fam); }
    else if ((rt != R_ERROR) != ok) H.violation("typed/mismatch/try-disagrees/as/basic_json/" + s.kind + "/" + s.expected_cpp, J().str("type", fam).str("damaged", dtext).boolean("as_ok", ok).boolean("try_as_ok", rt != R_ERROR).done());
    H.count_("damage.executed.as");
    if (s.ex == Expect::Reject) {
        if (!s.judge_as) H.count_("damage.unjudged.as." + s.kind + (ok ? ".accepted" : ".rejected"));
        else if (ok) {
            std::string sig = "typed/mismatch/accepted/as/basic_json/" + s.kind + "/" + s.expected_cpp;
            const char* kid = known_damage_class(s, "as");
            std::string returned = (!known_open(kid) && want_detail(sig)) ? v.describe_as(d) : std::string();
            report(sig, J().str("type", fam).str("damaged", dtext).str("at", path_str(s.path)).str("expected_at", s.expected_cpp).str("returned", returned).done(), kid);
        }
        else H.count_("damage.rejected.as." + s.kind);
    } else if (s.ex == Expect::Same) {
        if (!ok) H.violation("typed/benign/rejected/as/basic_json/" + s.kind + "/" + s.expected_cpp, J().str("type", fam).str("damaged", dtext).str("error", e.what).done());
        else if (rc != R_EQUAL) H.violation("typed/benign/changed/as/basic_json/" + s.kind + "/" + s.expected_cpp, J().str("type", fam).str("damaged", dtext).str("returned", shown).done());
        else H.count_("benign.ok.as." + s.kind);
    } else {
        // lenient sizes (tuple with extra trailing elements): the routes must agree and the value must be the undamaged one
        std::string txt; d.dump(txt);
        int ra = v.as_vs_decode(d, txt);
        if (ra == R_DIFFERENT) H.violation("typed/mismatch/routes-disagree/json/" + s.kind + "/" + s.expected_cpp, J().str("type", fam).str("damaged", dtext).boolean("as_ok", ok).done());
        else if (ra == R_EQUAL) H.count_(std::string("observed.lenient-size.") + (ok ? "accepted-by-both" : "rejected-by-both"));
        if (ok && rc != R_EQUAL) H.violation("typed/mismatch/lenient-changed/basic_json/" + s.kind + "/" + s.expected_cpp, J().str("damaged", dtext).str("returned", shown).done());
    }
    // ---- route 2: streaming traits on the encoded damaged document, every format
    if (!v.can_dec) { H.count_("uncompilable.stream-decode." + fam); return; }
    for (int f = F_JSON; f <= F_UBJSON; ++f) {
        if (const char* why = fmt_domain(d, f)) { H.count_(std::string("damage.skip.domain.") + why); continue; }
        damage_format(v, f, d, s, dtext);
    }
    // BSON: the root is always a document (an array root is written as a document with index keys and cursor.array_expected() turns a
    // root document into an array on request), so "object for a sequence / array for a map" at the root is not a mismatch in BSON
    if (s.path.empty() && s.kind == "container-kind") H.count_("damage.skip.bson-root-container-kind");
    else if (const char* why = fmt_domain(d, F_BSON)) H.count_(std::string("damage.skip.domain.") + why);
    else if ((d.is_object() || (d.is_array() && v.native)) && !has_nul_key(d) && !has_big_uint(d)) damage_format(v, F_BSON, d, s, dtext);
    else H.count_("damage.skip.bson");
}

// ------------------------------------------------------------------------------------------
inline void check_value(Rng& r, const Typed& v) {
    const std::string& fam = v.fam;
    json j; Err e;
    if (!v.to_json(j, e)) {
        if (!e.lib) foreign("to_json/" + fam, e, "");
        H.violation("typed/to_json-failed/basic_json/" + fam, J().str("error", e.what).done());
        return;
    }
    std::string text = clip(j.to_string(), 3000);
    set_flight_desc(fam + " " + text);
    H.count_("values." + fam);
    H.note_distinct(hash_str(text, hash_str(fam)));
    bool judge = v.judgeable();
    if (!judge) H.count_("unjudged-values." + fam);
    if (H.sample_seen < 40 || r.chance(1, 2000)) H.sample(J().str("type", fam).str("json", clip(text, 300)).done()); else ++H.sample_seen;
    // basic_json route: to_json then as<T>() / try_as<T>()
    {
        Err ea; std::string shown;
        H.count_("check.as-roundtrip");
        int rc = v.as_cmp(j, false, ea, &shown);
        if (rc == R_ERROR && !ea.lib) foreign("as/" + fam, ea, text);
        if (rc != R_EQUAL) { if (judge) report("typed/roundtrip/as/basic_json/" + fam, J().str("type", fam).str("value", text).str("got", rc == R_ERROR ? "error: " + ea.what : shown).done(), known_value_class("roundtrip/as", F_JSON, fam, j)); else H.count_("unjudged.as-roundtrip." + fam); }
        Err eb; int rt = v.as_cmp(j, true, eb, &shown);
        if (rt == R_TRY_THREW) { if (!eb.lib) foreign("try_as/" + fam, eb, text); else if (judge) H.violation("typed/try-disagrees/as/basic_json/" + fam, J().str("type", fam).str("value", text).str("got", "try_as threw " + eb.type).done()); }
        else if (rt != rc && judge) H.violation("typed/try-disagrees/as/basic_json/" + fam, J().str("type", fam).str("value", text).num("as", rc).num("try_as", rt).done());
    }
    bool any_unjudged = false;
    for (int f = F_JSON; f <= F_BSON; ++f) {
        bool jf = judge;
        if (const char* why = fmt_domain(j, f)) { jf = false; any_unjudged = true; H.count_(std::string("domain.not-judged.") + why); }
        if (f == F_BSON) rt_bson(v, j, text, jf); else rt_format(v, f, j, fam, text, jf);
    }
    (void)any_unjudged;
    if (judge) for (int k = 0; k < opts().damages; ++k) damage_once(r, v, j);
}

template <class T> void run_type(Rng& r) {
    TypedImpl<T> v(Tr<T>::gen(r, 0));
    check_value(r, v);
}

// ---- type table / main loop ---------------------------------------------------------------------
struct TypeEntry { std::string name; void (*fn)(Rng&); };
template <class T> TypeEntry entry() { return TypeEntry{Tr<T>::name(), &run_type<T>}; }

inline int run_table(int argc, char** argv, const std::vector<TypeEntry>& all, const std::vector<std::string>& uncompilable = {}) {
    H.parse(argc, argv);
    if (H.worker == 0) for (const auto& u : uncompilable) H.count_("uncompilable." + u);
    opts().damages = (int)H.opt_int("damages", 2);
    {
        std::string ko = H.opt("known-open");
        if (const char* env = getenv("C17_KNOWN_OPEN")) { if (!ko.empty()) ko += ","; ko += env; }
        size_t pos = 0;
        while (pos <= ko.size()) { size_t q = ko.find(',', pos); if (q == std::string::npos) q = ko.size(); std::string id = ko.substr(pos, q - pos); if (id == "all") opts().known_all = true; else if (!id.empty() && id != "none") opts().known.insert(id); pos = q + 1; }
    }
    std::string only = H.opt("only");
    std::vector<TypeEntry> table;
    for (const auto& e : all) if (only.empty() || e.name.find(only) != std::string::npos) table.push_back(e);
    if (H.opt_int("list", 0)) { for (const auto& e : table) fprintf(stderr, "%s\n", e.name.c_str()); return 0; }
    if (table.empty()) { fprintf(stderr, "no type matches\n"); return 2; }
    H.count_("types-in-table", table.size());
    auto body = [&](long long c) {
        Rng r = H.case_rng(c);
        const TypeEntry& e = table[(size_t)(c % (long long)table.size())];
        e.fn(r);
    };
    return H.run(body);
}

} // namespace c17
#endif
