// C17: classes described with every trait macro family
#ifndef C17_TYPES_CLASS_HPP
#define C17_TYPES_CLASS_HPP
#include "typed.hpp"
#include "types_enum.hpp"

namespace c17t {
using std::optional; using std::string; using std::vector;

// ---- JSONCONS_ALL_MEMBER_TRAITS
struct AllMember {
    bool flag{}; int32_t i{}; double d{}; string s; vector<int32_t> v;
    AllMember() = default;
    AllMember(bool f, int32_t i_, double d_, string s_, vector<int32_t> v_) : flag(f), i(i_), d(d_), s(std::move(s_)), v(std::move(v_)) {}
    auto tie() const { return std::tie(flag, i, d, s, v); }
    static const char* const* names() { static const char* n[] = {"flag", "i", "d", "s", "v"}; return n; }
    static constexpr size_t mandatory = 5; static constexpr bool native_decode = true;
    static string family() { return "class/ALL_MEMBER"; } static const char* macro() { return "ALL_MEMBER"; }
};
// ---- JSONCONS_N_MEMBER_TRAITS (2 mandatory)
struct NMember {
    int64_t id{}; string name; optional<int32_t> oi; optional<string> os; std::shared_ptr<string> sp; vector<string> tags;
    NMember() = default;
    NMember(int64_t id_, string n, optional<int32_t> a, optional<string> b, std::shared_ptr<string> c, vector<string> t) : id(id_), name(std::move(n)), oi(a), os(std::move(b)), sp(std::move(c)), tags(std::move(t)) {}
    auto tie() const { return std::tie(id, name, oi, os, sp, tags); }
    static const char* const* names() { static const char* n[] = {"id", "name", "oi", "os", "sp", "tags"}; return n; }
    static constexpr size_t mandatory = 2; static constexpr bool native_decode = true;
    static string family() { return "class/N_MEMBER"; } static const char* macro() { return "N_MEMBER"; }
};
// ---- JSONCONS_ALL_CTOR_GETTER_TRAITS
class AllCtorGetter {
    string author_; double price_{}; vector<string> tags_;
public:
    AllCtorGetter(string a, double p, vector<string> t) : author_(std::move(a)), price_(p), tags_(std::move(t)) {}
    const string& author() const { return author_; }
    double price() const { return price_; }
    const vector<string>& tags() const { return tags_; }
    auto tie() const { return std::tie(author_, price_, tags_); }
    static const char* const* names() { static const char* n[] = {"author", "price", "tags"}; return n; }
    static constexpr size_t mandatory = 3; static constexpr bool native_decode = false;
    static string family() { return "class/ALL_CTOR_GETTER"; } static const char* macro() { return "ALL_CTOR_GETTER"; }
};
// ---- JSONCONS_N_CTOR_GETTER_TRAITS (2 mandatory)
class NCtorGetter {
    string author_; int32_t year_{}; optional<string> isbn_; optional<double> price_;
public:
    NCtorGetter(string a, int32_t y, optional<string> i, optional<double> p) : author_(std::move(a)), year_(y), isbn_(std::move(i)), price_(p) {}
    const string& author() const { return author_; }
    int32_t year() const { return year_; }
    const optional<string>& isbn() const { return isbn_; }
    const optional<double>& price() const { return price_; }
    auto tie() const { return std::tie(author_, year_, isbn_, price_); }
    static const char* const* names() { static const char* n[] = {"author", "year", "isbn", "price"}; return n; }
    static constexpr size_t mandatory = 2; static constexpr bool native_decode = false;
    static string family() { return "class/N_CTOR_GETTER"; } static const char* macro() { return "N_CTOR_GETTER"; }
};
// ---- JSONCONS_ALL_GETTER_SETTER_TRAITS
class AllGetterSetter {
    string author_; uint32_t count_{}; vector<bool> flags_;
public:
    AllGetterSetter() = default;
    AllGetterSetter(string a, uint32_t c, vector<bool> f) : author_(std::move(a)), count_(c), flags_(std::move(f)) {}
    const string& getAuthor() const { return author_; } void setAuthor(const string& v) { author_ = v; }
    uint32_t getCount() const { return count_; } void setCount(uint32_t v) { count_ = v; }
    const vector<bool>& getFlags() const { return flags_; } void setFlags(const vector<bool>& v) { flags_ = v; }
    auto tie() const { return std::tie(author_, count_, flags_); }
    static const char* const* names() { static const char* n[] = {"Author", "Count", "Flags"}; return n; }
    static constexpr size_t mandatory = 3; static constexpr bool native_decode = false;
    static string family() { return "class/ALL_GETTER_SETTER"; } static const char* macro() { return "ALL_GETTER_SETTER"; }
};
// ---- JSONCONS_N_GETTER_SETTER_TRAITS (1 mandatory)
class NGetterSetter {
    int64_t id_{}; optional<string> note_; optional<vector<double>> scores_;
public:
    NGetterSetter() = default;
    NGetterSetter(int64_t i, optional<string> n, optional<vector<double>> s) : id_(i), note_(std::move(n)), scores_(std::move(s)) {}
    int64_t getId() const { return id_; } void setId(int64_t v) { id_ = v; }
    const optional<string>& getNote() const { return note_; } void setNote(const optional<string>& v) { note_ = v; }
    const optional<vector<double>>& getScores() const { return scores_; } void setScores(const optional<vector<double>>& v) { scores_ = v; }
    auto tie() const { return std::tie(id_, note_, scores_); }
    static const char* const* names() { static const char* n[] = {"Id", "Note", "Scores"}; return n; }
    static constexpr size_t mandatory = 1; static constexpr bool native_decode = false;
    static string family() { return "class/N_GETTER_SETTER"; } static const char* macro() { return "N_GETTER_SETTER"; }
};

// ---- *_NAME_TRAITS variants (renamed members: blank, non-ASCII, quote inside the name)
struct AllMemberName {
    double x{}; int16_t y{}; string label;
    AllMemberName() = default;
    AllMemberName(double x_, int16_t y_, string l) : x(x_), y(y_), label(std::move(l)) {}
    auto tie() const { return std::tie(x, y, label); }
    static const char* const* names() { static const char* n[] = {"X coord", "n\xc3\xa4me", "k\"q"}; return n; }
    static constexpr size_t mandatory = 3; static constexpr bool native_decode = true;
    static string family() { return "class/ALL_MEMBER_NAME"; } static const char* macro() { return "ALL_MEMBER_NAME"; }
};
struct NMemberName {
    string key; optional<int64_t> val; optional<std::map<string, int32_t>> extra;
    NMemberName() = default;
    NMemberName(string k, optional<int64_t> v, optional<std::map<string, int32_t>> e) : key(std::move(k)), val(v), extra(std::move(e)) {}
    auto tie() const { return std::tie(key, val, extra); }
    static const char* const* names() { static const char* n[] = {"Key", "Value", "extra data"}; return n; }
    static constexpr size_t mandatory = 1; static constexpr bool native_decode = true;
    static string family() { return "class/N_MEMBER_NAME"; } static const char* macro() { return "N_MEMBER_NAME"; }
};
class AllCtorGetterName {
    uint8_t first_{}; string second_;
public:
    AllCtorGetterName(uint8_t f, string s) : first_(f), second_(std::move(s)) {}
    uint8_t first() const { return first_; }
    const string& second() const { return second_; }
    auto tie() const { return std::tie(first_, second_); }
    static const char* const* names() { static const char* n[] = {"First", "Second"}; return n; }
    static constexpr size_t mandatory = 2; static constexpr bool native_decode = false;
    static string family() { return "class/ALL_CTOR_GETTER_NAME"; } static const char* macro() { return "ALL_CTOR_GETTER_NAME"; }
};
class NCtorGetterName {
    string name_; optional<string> nick_;
public:
    NCtorGetterName(string n, optional<string> k) : name_(std::move(n)), nick_(std::move(k)) {}
    const string& name() const { return name_; }
    const optional<string>& nick() const { return nick_; }
    auto tie() const { return std::tie(name_, nick_); }
    static const char* const* names() { static const char* n[] = {"Name", "Nick"}; return n; }
    static constexpr size_t mandatory = 1; static constexpr bool native_decode = false;
    static string family() { return "class/N_CTOR_GETTER_NAME"; } static const char* macro() { return "N_CTOR_GETTER_NAME"; }
};
class AllGetterSetterName {
    int32_t a_{}; vector<int32_t> b_;
public:
    AllGetterSetterName() = default;
    AllGetterSetterName(int32_t a, vector<int32_t> b) : a_(a), b_(std::move(b)) {}
    int32_t get_a() const { return a_; } void set_a(int32_t v) { a_ = v; }
    const vector<int32_t>& get_b() const { return b_; } void set_b(const vector<int32_t>& v) { b_ = v; }
    auto tie() const { return std::tie(a_, b_); }
    static const char* const* names() { static const char* n[] = {"A", "B"}; return n; }
    static constexpr size_t mandatory = 2; static constexpr bool native_decode = false;
    static string family() { return "class/ALL_GETTER_SETTER_NAME"; } static const char* macro() { return "ALL_GETTER_SETTER_NAME"; }
};
class NGetterSetterName {
    uint64_t id_{}; optional<string> tag_;
public:
    NGetterSetterName() = default;
    NGetterSetterName(uint64_t i, optional<string> t) : id_(i), tag_(std::move(t)) {}
    uint64_t get_id() const { return id_; } void set_id(uint64_t v) { id_ = v; }
    const optional<string>& get_tag() const { return tag_; } void set_tag(const optional<string>& v) { tag_ = v; }
    auto tie() const { return std::tie(id_, tag_); }
    static const char* const* names() { static const char* n[] = {"ID", "Tag"}; return n; }
    static constexpr size_t mandatory = 1; static constexpr bool native_decode = false;
    static string family() { return "class/N_GETTER_SETTER_NAME"; } static const char* macro() { return "N_GETTER_SETTER_NAME"; }
};

// ---- templates via JSONCONS_TPL_*
template <class T1> struct Tpl1 {
    T1 content{}; string s;
    Tpl1() = default;
    Tpl1(T1 c, string s_) : content(std::move(c)), s(std::move(s_)) {}
    auto tie() const { return std::tie(content, s); }
    static const char* const* names() { static const char* n[] = {"content", "s"}; return n; }
    static constexpr size_t mandatory = 2; static constexpr bool native_decode = true;
    static string family() { return "class/TPL_ALL_MEMBER<" + c17::Tr<T1>::name() + ">"; } static const char* macro() { return "TPL_ALL_MEMBER"; }
};
template <class T1, class T2> struct Tpl2 {
    T1 a{}; T2 b{}; optional<int32_t> c;
    Tpl2() = default;
    Tpl2(T1 a_, T2 b_, optional<int32_t> c_) : a(std::move(a_)), b(std::move(b_)), c(c_) {}
    auto tie() const { return std::tie(a, b, c); }
    static const char* const* names() { static const char* n[] = {"a", "b", "c"}; return n; }
    static constexpr size_t mandatory = 2; static constexpr bool native_decode = true;
    static string family() { return "class/TPL_N_MEMBER<" + c17::Tr<T1>::name() + "," + c17::Tr<T2>::name() + ">"; } static const char* macro() { return "TPL_N_MEMBER"; }
};

// ---- a class containing classes, containers, optionals, variants, enums, tuples, durations, bitsets
struct Outer {
    AllMember inner; vector<NMember> items; std::map<string, AllCtorGetter> dict; optional<NMember> maybe; std::variant<int64_t, string> var;
    Color color{Color::red}; Level level{low}; std::tuple<int32_t, string> tup; std::array<int32_t, 2> arr{}; std::chrono::seconds dur{}; std::bitset<12> bits;
    Outer() = default;
    Outer(AllMember a, vector<NMember> b, std::map<string, AllCtorGetter> c, optional<NMember> d, std::variant<int64_t, string> e, Color f, Level g,
          std::tuple<int32_t, string> h, std::array<int32_t, 2> i, std::chrono::seconds j, std::bitset<12> k)
        : inner(std::move(a)), items(std::move(b)), dict(std::move(c)), maybe(std::move(d)), var(std::move(e)), color(f), level(g), tup(std::move(h)), arr(i), dur(j), bits(k) {}
    auto tie() const { return std::tie(inner, items, dict, maybe, var, color, level, tup, arr, dur, bits); }
    static const char* const* names() { static const char* n[] = {"inner", "items", "dict", "maybe", "var", "color", "level", "tup", "arr", "dur", "bits"}; return n; }
    static constexpr size_t mandatory = 11; static constexpr bool native_decode = true;
    static string family() { return "class/nested-ALL_MEMBER"; } static const char* macro() { return "ALL_MEMBER"; }
};
// optional members of class / container type, N_MEMBER with zero mandatory members
struct Loose {
    optional<AllMemberName> pos; optional<vector<NCtorGetter>> books; std::shared_ptr<NMemberName> owned; optional<Color> color;
    Loose() = default;
    Loose(optional<AllMemberName> a, optional<vector<NCtorGetter>> b, std::shared_ptr<NMemberName> c, optional<Color> d) : pos(std::move(a)), books(std::move(b)), owned(std::move(c)), color(d) {}
    auto tie() const { return std::tie(pos, books, owned, color); }
    static const char* const* names() { static const char* n[] = {"pos", "books", "owned", "color"}; return n; }
    static constexpr size_t mandatory = 0; static constexpr bool native_decode = true;
    static string family() { return "class/N_MEMBER-all-optional"; } static const char* macro() { return "N_MEMBER"; }
};
} // namespace c17t

JSONCONS_ALL_MEMBER_TRAITS(c17t::AllMember, flag, i, d, s, v)
JSONCONS_N_MEMBER_TRAITS(c17t::NMember, 2, id, name, oi, os, sp, tags)
JSONCONS_ALL_CTOR_GETTER_TRAITS(c17t::AllCtorGetter, author, price, tags)
JSONCONS_N_CTOR_GETTER_TRAITS(c17t::NCtorGetter, 2, author, year, isbn, price)
JSONCONS_ALL_GETTER_SETTER_TRAITS(c17t::AllGetterSetter, get, set, Author, Count, Flags)
JSONCONS_N_GETTER_SETTER_TRAITS(c17t::NGetterSetter, get, set, 1, Id, Note, Scores)
JSONCONS_ALL_MEMBER_NAME_TRAITS(c17t::AllMemberName, (x, "X coord"), (y, "n\xc3\xa4me"), (label, "k\"q"))
JSONCONS_N_MEMBER_NAME_TRAITS(c17t::NMemberName, 1, (key, "Key"), (val, "Value"), (extra, "extra data"))
JSONCONS_ALL_CTOR_GETTER_NAME_TRAITS(c17t::AllCtorGetterName, (first, "First"), (second, "Second"))
JSONCONS_N_CTOR_GETTER_NAME_TRAITS(c17t::NCtorGetterName, 1, (name, "Name"), (nick, "Nick"))
JSONCONS_ALL_GETTER_SETTER_NAME_TRAITS(c17t::AllGetterSetterName, (get_a, set_a, "A"), (get_b, set_b, "B"))
JSONCONS_N_GETTER_SETTER_NAME_TRAITS(c17t::NGetterSetterName, 1, (get_id, set_id, "ID"), (get_tag, set_tag, "Tag"))
JSONCONS_TPL_ALL_MEMBER_TRAITS(1, c17t::Tpl1, content, s)
JSONCONS_TPL_N_MEMBER_TRAITS(2, c17t::Tpl2, 2, a, b, c)
JSONCONS_ALL_MEMBER_TRAITS(c17t::Outer, inner, items, dict, maybe, var, color, level, tup, arr, dur, bits)
JSONCONS_N_MEMBER_TRAITS(c17t::Loose, 0, pos, books, owned, color)

#endif
