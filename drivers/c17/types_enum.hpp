// C17: enum types (integer-backed without traits, JSONCONS_ENUM_TRAITS, JSONCONS_ENUM_NAME_TRAITS)
#ifndef C17_TYPES_ENUM_HPP
#define C17_TYPES_ENUM_HPP
#include "typed.hpp"

namespace c17t {
enum class Plain : int32_t { minus = -1, zero = 0, seven = 7, big = 2147483647 };   // no traits: converted as an integer
enum class Color { red = 1, green, blue };                                           // no enumerator with value 0: Color() is written as ""
enum Level { low, medium, high };                                                    // unscoped, has a zero enumerator
enum class Mode : uint8_t { off = 0, on = 1, automatic = 200 };
}
JSONCONS_ENUM_TRAITS(c17t::Color, red, green, blue)
JSONCONS_ENUM_NAME_TRAITS(c17t::Level, (low, "Low"), (medium, "medium level"), (high, "H\"igh\xc3\xa9"))
JSONCONS_ENUM_NAME_TRAITS(c17t::Mode, (off, "off"), (on, "on"), (automatic, ""))

namespace c17 {
template <> struct Tr<c17t::Plain> : TrBase<c17t::Plain> {
    using E = c17t::Plain;
    static std::string name() { return "enum/plain-integer"; }
    static E gen(Rng& r, int) { static const E v[] = {E::minus, E::zero, E::seven, E::big}; return r.chance(1, 5) ? (E)(int32_t)r.range(-100000, 100000) : r.pick(v); }
    static bool eq(E a, E b) { return a == b; }
    static constexpr unsigned is_mask = K_NUM | K_STR, as_mask = K_BOOL | K_NUM | K_STR, st_mask = as_mask;
    static constexpr bool native = false;
    static void sites(const E&, const json&, Walk& w) { Walk::Via v(w, true); wrong_here(w, as_mask, st_mask, K_NUM, "enum (integer)"); }
};
// named enums: only the declared names (and "" for a value-initialised enum without a zero enumerator) are convertible
template <class E> struct NamedEnumTr : TrBase<E> {
    static bool eq(E a, E b) { return a == b; }
    static constexpr unsigned is_mask = K_STR, as_mask = K_STR, st_mask = K_STR;
    static constexpr bool native = true;      // the enum macros generate decode_traits
    static void named_sites(Walk& w, const char* cpp) {
        wrong_here(w, as_mask, st_mask, K_STR, cpp);
        w.offer("unknown-enumerator", [&] { Site s; s.op = Op::Replace; s.val = json(w.r.coin() ? "zq!" : "Red "); s.expected_cpp = cpp; return s; });
    }
};
template <> struct Tr<c17t::Color> : NamedEnumTr<c17t::Color> {
    using E = c17t::Color;
    static std::string name() { return "enum/ENUM_TRAITS"; }
    static E gen(Rng& r, int) { static const E v[] = {E::red, E::green, E::blue, E()}; return r.pick(v); }
    static void sites(const E&, const json&, Walk& w) { named_sites(w, "Color"); }
};
template <> struct Tr<c17t::Level> : NamedEnumTr<c17t::Level> {
    using E = c17t::Level;
    static std::string name() { return "enum/ENUM_NAME_TRAITS"; }
    static E gen(Rng& r, int) { static const E v[] = {c17t::low, c17t::medium, c17t::high}; return r.pick(v); }
    static void sites(const E&, const json&, Walk& w) { named_sites(w, "Level"); }
};
template <> struct Tr<c17t::Mode> : NamedEnumTr<c17t::Mode> {
    using E = c17t::Mode;
    static std::string name() { return "enum/ENUM_NAME_TRAITS-empty-name"; }
    static E gen(Rng& r, int) { static const E v[] = {E::off, E::on, E::automatic}; return r.pick(v); }
    static void sites(const E&, const json&, Walk& w) { named_sites(w, "Mode"); }
};
} // namespace c17
#endif
