// C17: classes described with every *_NAME_TRAITS macro family whose members use the long member form
// (name, mode, match, into, from): a transformed member among the mandatory members and one among the optional members,
// a match predicate on them, and a JSONCONS_RDONLY member with a match predicate.
#ifndef C17_TYPES_TRANSFORM_HPP
#define C17_TYPES_TRANSFORM_HPP
#include "typed.hpp"

namespace c17t {
// a struct that is written as a string "L<digit>" through an Into/From pair; valid levels are 0..9 (match predicate)
struct Level { int32_t v{0}; };
inline std::string level_to_str(const Level& l) { return "L" + std::to_string(l.v); }
inline Level level_from_str(const std::string& s) {           // total: anything else becomes the invalid level -1, which the match predicate refuses
    if (s.size() == 2 && s[0] == 'L' && s[1] >= '0' && s[1] <= '9') return Level{s[1] - '0'};
    return Level{-1};
}
inline std::optional<std::string> opt_level_to_str(const std::optional<Level>& l) { return l ? std::optional<std::string>(level_to_str(*l)) : std::nullopt; }
inline std::optional<Level> opt_level_from_str(const std::optional<std::string>& s) { return s ? std::optional<Level>(level_from_str(*s)) : std::nullopt; }
// the macro families apply the predicate either to the member-side value (after From) or to the JSON-side value (before From)
inline bool level_ok(const Level& l) noexcept { return l.v >= 0 && l.v <= 9; }
inline bool level_ok(const std::string& s) noexcept { return level_ok(level_from_str(s)); }
inline bool level_ok(const std::optional<Level>& l) noexcept { return !l || level_ok(*l); }
inline bool level_ok(const std::optional<std::string>& s) noexcept { return !s || level_ok(*s); }
inline bool kind_ok(const std::string& s) noexcept { return s == "transformed"; }

#define C17T_DESCR(N, MAND, NATIVE, FAM, MACRO, ...) \
    static const char* const* names() { static const char* nm[] = {__VA_ARGS__}; return nm; } \
    static constexpr size_t mandatory = MAND; static constexpr bool native_decode = NATIVE; \
    static std::string family() { return FAM; } static const char* macro() { return MACRO; }

struct TA {     // ALL_MEMBER_NAME; `kind` is a constant read-only tag (not part of the generated value)
    std::string kind{"transformed"}; Level level; int32_t n{};
    TA() = default; TA(Level l, int32_t n_) : level(l), n(n_) {}
    auto tie() const { return std::tie(level, n); }
    C17T_DESCR(2, 2, true, "class/ALL_MEMBER_NAME-into-from", "ALL_MEMBER_NAME", "Level", "n")
};
struct TN {     // N_MEMBER_NAME, 2 mandatory
    std::string kind{"transformed"}; Level level; int32_t n{}; std::optional<Level> olevel; std::optional<std::string> note;
    TN() = default; TN(Level l, int32_t n_, std::optional<Level> o, std::optional<std::string> t) : level(l), n(n_), olevel(o), note(std::move(t)) {}
    auto tie() const { return std::tie(level, n, olevel, note); }
    C17T_DESCR(4, 2, true, "class/N_MEMBER_NAME-into-from", "N_MEMBER_NAME", "Level", "n", "OptLevel", "note")
};
class TAC {     // ALL_CTOR_GETTER_NAME
    Level level_; int32_t n_{};
public:
    TAC(Level l, int32_t n) : level_(l), n_(n) {}
    const Level& level() const { return level_; } int32_t n() const { return n_; }
    auto tie() const { return std::tie(level_, n_); }
    C17T_DESCR(2, 2, false, "class/ALL_CTOR_GETTER_NAME-into-from", "ALL_CTOR_GETTER_NAME", "Level", "n")
};
class TNC {     // N_CTOR_GETTER_NAME, 1 mandatory
    Level level_; std::optional<Level> olevel_; std::optional<int32_t> n_;
public:
    TNC(Level l, std::optional<Level> o, std::optional<int32_t> n) : level_(l), olevel_(o), n_(n) {}
    const Level& level() const { return level_; } const std::optional<Level>& olevel() const { return olevel_; } const std::optional<int32_t>& n() const { return n_; }
    auto tie() const { return std::tie(level_, olevel_, n_); }
    C17T_DESCR(3, 1, false, "class/N_CTOR_GETTER_NAME-into-from", "N_CTOR_GETTER_NAME", "Level", "OptLevel", "n")
};
class TAG {     // ALL_GETTER_SETTER_NAME
    Level level_; int32_t n_{};
public:
    TAG() = default; TAG(Level l, int32_t n) : level_(l), n_(n) {}
    const Level& get_level() const { return level_; } void set_level(const Level& l) { level_ = l; }
    int32_t get_n() const { return n_; } void set_n(int32_t v) { n_ = v; }
    auto tie() const { return std::tie(level_, n_); }
    C17T_DESCR(2, 2, false, "class/ALL_GETTER_SETTER_NAME-into-from", "ALL_GETTER_SETTER_NAME", "Level", "n")
};
class TNG {     // N_GETTER_SETTER_NAME, 1 mandatory
    Level level_; std::optional<Level> olevel_; std::optional<std::string> note_;
public:
    TNG() = default; TNG(Level l, std::optional<Level> o, std::optional<std::string> t) : level_(l), olevel_(o), note_(std::move(t)) {}
    const Level& get_level() const { return level_; } void set_level(const Level& l) { level_ = l; }
    const std::optional<Level>& get_olevel() const { return olevel_; } void set_olevel(const std::optional<Level>& l) { olevel_ = l; }
    const std::optional<std::string>& get_note() const { return note_; } void set_note(const std::optional<std::string>& v) { note_ = v; }
    auto tie() const { return std::tie(level_, olevel_, note_); }
    C17T_DESCR(3, 1, false, "class/N_GETTER_SETTER_NAME-into-from", "N_GETTER_SETTER_NAME", "Level", "OptLevel", "note")
};
} // namespace c17t

// Level is itself describable (as {"v":n}), so that writing it without the Into transform is a value difference, not a compile error
JSONCONS_ALL_MEMBER_TRAITS(c17t::Level, v)
JSONCONS_ALL_MEMBER_NAME_TRAITS(c17t::TA, (kind, "kind", JSONCONS_RDONLY, c17t::kind_ok),
                                (level, "Level", JSONCONS_RDWR, c17t::level_ok, c17t::level_to_str, c17t::level_from_str), (n, "n"))
JSONCONS_N_MEMBER_NAME_TRAITS(c17t::TN, 3, (kind, "kind", JSONCONS_RDONLY, c17t::kind_ok),
                              (level, "Level", JSONCONS_RDWR, c17t::level_ok, c17t::level_to_str, c17t::level_from_str), (n, "n"),
                              (olevel, "OptLevel", JSONCONS_RDWR, c17t::level_ok, c17t::opt_level_to_str, c17t::opt_level_from_str), (note, "note"))
JSONCONS_ALL_CTOR_GETTER_NAME_TRAITS(c17t::TAC, (level, "Level", JSONCONS_RDWR, c17t::level_ok, c17t::level_to_str, c17t::level_from_str), (n, "n"))
JSONCONS_N_CTOR_GETTER_NAME_TRAITS(c17t::TNC, 1, (level, "Level", JSONCONS_RDWR, c17t::level_ok, c17t::level_to_str, c17t::level_from_str),
                                   (olevel, "OptLevel", JSONCONS_RDWR, c17t::level_ok, c17t::opt_level_to_str, c17t::opt_level_from_str), (n, "n"))
JSONCONS_ALL_GETTER_SETTER_NAME_TRAITS(c17t::TAG, (get_level, set_level, "Level", JSONCONS_RDWR, c17t::level_ok, c17t::level_to_str, c17t::level_from_str), (get_n, set_n, "n"))
JSONCONS_N_GETTER_SETTER_NAME_TRAITS(c17t::TNG, 1, (get_level, set_level, "Level", JSONCONS_RDWR, c17t::level_ok, c17t::level_to_str, c17t::level_from_str),
                                     (get_olevel, set_olevel, "OptLevel", JSONCONS_RDWR, c17t::level_ok, c17t::opt_level_to_str, c17t::opt_level_from_str), (get_note, set_note, "note"))

namespace c17 {
// position of a transformed member: its JSON form is the string "L<digit>"; every other value must be refused by both routes
// (wrong kinds by the conversion to std::string or, where as<std::string>() returns the JSON text, by the match predicate)
template <> struct Tr<c17t::Level> : TrBase<c17t::Level> {
    static std::string name() { return "transformed-member"; }
    static c17t::Level gen(Rng& r, int) { return c17t::Level{(int32_t)r.below(10)}; }
    static bool eq(const c17t::Level& a, const c17t::Level& b) { return a.v == b.v; }
    static constexpr unsigned is_mask = K_STR, as_mask = K_STR, st_mask = K_STR;
    static constexpr bool native = true;
    static void sites(const c17t::Level&, const json&, Walk& w) {
        wrong_here(w, as_mask, st_mask, K_STR, "transformed-member");
        w.offer("match-rejected-value", [&] { Site s; s.op = Op::Replace; static const char* bad[] = {"L77", "zq!", "", "l3", "L-1"}; s.val = json(w.r.pick(bad)); s.expected_cpp = "transformed-member"; return s; });
    }
};
} // namespace c17
#endif
