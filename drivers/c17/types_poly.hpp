// C17: polymorphic hierarchy via JSONCONS_POLYMORPHIC_TRAITS held in shared_ptr / unique_ptr
#ifndef C17_TYPES_POLY_HPP
#define C17_TYPES_POLY_HPP
#include "typed.hpp"
#include "types_enum.hpp"

namespace c17t {
struct Shape { virtual ~Shape() = default; virtual int kind() const = 0; };
// mandatory member sets of the derived classes are pairwise disjoint, so that the JSON form identifies the dynamic type
struct Circle : Shape {
    double radius{}; std::optional<std::string> label;
    Circle() = default;
    Circle(double r, std::optional<std::string> l) : radius(r), label(std::move(l)) {}
    int kind() const override { return 1; }
    auto tie() const { return std::tie(radius, label); }
    static const char* const* names() { static const char* n[] = {"radius", "label"}; return n; }
    static constexpr size_t mandatory = 1; static constexpr bool native_decode = true;
    static std::string family() { return "class/poly-derived-N_MEMBER"; } static const char* macro() { return "N_MEMBER"; }
};
struct Rect : Shape {
    double w{}, h{}; Color color{Color::red};
    Rect() = default;
    Rect(double w_, double h_, Color c) : w(w_), h(h_), color(c) {}
    int kind() const override { return 2; }
    auto tie() const { return std::tie(w, h, color); }
    static const char* const* names() { static const char* n[] = {"w", "h", "color"}; return n; }
    static constexpr size_t mandatory = 3; static constexpr bool native_decode = true;
    static std::string family() { return "class/poly-derived-ALL_MEMBER"; } static const char* macro() { return "ALL_MEMBER"; }
};
class Tri : public Shape {
    int32_t a_{}, b_{}; std::vector<int32_t> rest_;
public:
    Tri(int32_t a, int32_t b, std::vector<int32_t> r) : a_(a), b_(b), rest_(std::move(r)) {}
    int kind() const override { return 3; }
    int32_t sideA() const { return a_; }
    int32_t sideB() const { return b_; }
    const std::vector<int32_t>& rest() const { return rest_; }
    auto tie() const { return std::tie(a_, b_, rest_); }
    static const char* const* names() { static const char* n[] = {"sideA", "sideB", "rest"}; return n; }
    static constexpr size_t mandatory = 3; static constexpr bool native_decode = false;
    static std::string family() { return "class/poly-derived-ALL_CTOR_GETTER"; } static const char* macro() { return "ALL_CTOR_GETTER"; }
};
// a class holding polymorphic pointers
struct Scene {
    std::string title; std::shared_ptr<Shape> main; std::vector<std::shared_ptr<Shape>> shapes; std::optional<Mode> mode;
    Scene() = default;
    Scene(std::string t, std::shared_ptr<Shape> m, std::vector<std::shared_ptr<Shape>> s, std::optional<Mode> o) : title(std::move(t)), main(std::move(m)), shapes(std::move(s)), mode(o) {}
    auto tie() const { return std::tie(title, main, shapes, mode); }
    static const char* const* names() { static const char* n[] = {"title", "main", "shapes", "mode"}; return n; }
    static constexpr size_t mandatory = 4; static constexpr bool native_decode = true;
    static std::string family() { return "class/ALL_MEMBER-with-poly-members"; } static const char* macro() { return "ALL_MEMBER"; }
};
} // namespace c17t

JSONCONS_N_MEMBER_TRAITS(c17t::Circle, 1, radius, label)
JSONCONS_ALL_MEMBER_TRAITS(c17t::Rect, w, h, color)
JSONCONS_ALL_CTOR_GETTER_TRAITS(c17t::Tri, sideA, sideB, rest)
JSONCONS_POLYMORPHIC_TRAITS(c17t::Shape, c17t::Circle, c17t::Rect, c17t::Tri)
// (N_MEMBER traits do not compile with a shared_ptr<Base> member: try_encode_optional_member dereferences the pointer and asks for encode_traits<Base>)
JSONCONS_ALL_MEMBER_TRAITS(c17t::Scene, title, main, shapes, mode)

namespace c17 {
template <class P> struct PolyTr : TrBase<P> {
    using S = c17t::Shape;
    static P make(Rng& r, int depth, bool allow_null) {
        switch (r.below(allow_null ? 7 : 6)) {
        case 0: case 1: return P(new c17t::Circle(Tr<c17t::Circle>::gen(r, depth)));
        case 2: case 3: return P(new c17t::Rect(Tr<c17t::Rect>::gen(r, depth)));
        case 4: case 5: return P(new c17t::Tri(Tr<c17t::Tri>::gen(r, depth)));
        default: return P();
        }
    }
    static bool eq(const P& a, const P& b) {
        if (!a || !b) return !a && !b;
        if (a->kind() != b->kind()) return false;
        switch (a->kind()) {
        case 1: return Tr<c17t::Circle>::eq(static_cast<const c17t::Circle&>(*a), static_cast<const c17t::Circle&>(*b));
        case 2: return Tr<c17t::Rect>::eq(static_cast<const c17t::Rect&>(*a), static_cast<const c17t::Rect&>(*b));
        default: return Tr<c17t::Tri>::eq(static_cast<const c17t::Tri&>(*a), static_cast<const c17t::Tri&>(*b));
        }
    }
    static constexpr unsigned is_mask = K_OBJ, as_mask = K_OBJ | K_NULL, st_mask = as_mask;
    static constexpr bool native = false;
    static void sites(const P& t, const json& j, Walk& w) {
        Walk::Via v(w, true);
        if (!t || !j.is_object()) { wrong_here(w, as_mask, st_mask, K_OBJ, "polymorphic pointer"); return; }
        switch (t->kind()) {
        case 1: Tr<c17t::Circle>::sites(static_cast<const c17t::Circle&>(*t), j, w); break;
        case 2: Tr<c17t::Rect>::sites(static_cast<const c17t::Rect&>(*t), j, w); break;
        default: Tr<c17t::Tri>::sites(static_cast<const c17t::Tri&>(*t), j, w); break;
        }
    }
};
template <> struct Tr<std::shared_ptr<c17t::Shape>> : PolyTr<std::shared_ptr<c17t::Shape>> {
    static std::string name() { return "shared_ptr<poly>"; }
    static std::shared_ptr<c17t::Shape> gen(Rng& r, int depth) { return make(r, depth, depth == 0); }   // null only at the root (one signature per root cause)
};
template <> struct Tr<std::unique_ptr<c17t::Shape>> : PolyTr<std::unique_ptr<c17t::Shape>> {
    static constexpr bool copyable = false;
    static std::string name() { return "unique_ptr<poly>"; }
    static std::unique_ptr<c17t::Shape> gen(Rng& r, int depth) { return make(r, depth, depth == 0); }   // null only at the root (one signature per root cause)
};
} // namespace c17
#endif
