// C17: std::wstring (a string whose character type differs from the encoder's / the basic_json's) and types containing it
#ifndef C17_TYPES_WIDE_HPP
#define C17_TYPES_WIDE_HPP
#include "typed.hpp"

namespace c17 {
static_assert(sizeof(wchar_t) == 4, "the generator and the reference conversions below assume UTF-32 wchar_t");

// reference conversions written for the monitor (independent of jsoncons::unicode_traits)
inline std::string narrow_utf8(const std::wstring& w) { std::string s; for (wchar_t c : w) put_utf8(s, (uint32_t)c); return s; }
inline std::wstring widen_utf8(const std::string& s) {
    std::wstring w; size_t i = 0;
    while (i < s.size()) {
        unsigned char c = (unsigned char)s[i]; uint32_t cp; int n;
        if (c < 0x80) { cp = c; n = 0; } else if (c < 0xE0) { cp = c & 0x1F; n = 1; } else if (c < 0xF0) { cp = c & 0x0F; n = 2; } else { cp = c & 0x07; n = 3; }
        ++i;
        for (int k = 0; k < n && i < s.size(); ++k, ++i) cp = (cp << 6) | ((unsigned char)s[i] & 0x3F);
        w.push_back((wchar_t)cp);
    }
    return w;
}

inline std::wstring gen_wstring(Rng& r, int depth) {
    static const wchar_t* fixed[] = {L"", L"a", L"caf\u00e9", L"\u20ac 100", L"\U0001F600", L"x\U0001F600y\u00e9\u20ac", L"\u00e9", L"\u20ac", L"\U0010FFFF", L"\ufffd\uffff",
                                     L"tab\there \"q\" \\ /", L"\x80\x7ff\x800", L"\U00010000", L"\ud7ff\ue000"};
    switch (r.below(6)) {
    case 0: return r.pick(fixed);
    case 1: { std::wstring w; size_t n = r.below(depth == 0 ? 40 : 12); for (size_t i = 0; i < n; ++i) w.push_back((wchar_t)(0x20 + r.below(0x5F))); return w; }                 // ASCII
    case 2: { std::wstring w; size_t n = 1 + r.below(depth == 0 ? 30 : 8); for (size_t i = 0; i < n; ++i) w.push_back((wchar_t)(0x10000 + r.below(0x100000))); return w; }       // astral only
    case 3: if (depth == 0) { std::wstring w; size_t n = 100 + r.below(300); for (size_t i = 0; i < n; ++i) w.push_back((wchar_t)(r.chance(1, 4) ? gen_scalar(r) : 0x20 + r.below(0x5F))); return w; }
            // fall through for nested positions
            [[fallthrough]];
    default: { std::wstring w; size_t n = gen_len(r, depth == 0 ? 300 : 16); for (size_t i = 0; i < n; ++i) w.push_back((wchar_t)gen_scalar(r)); return w; }                    // any scalar value incl. NUL, controls, BMP, astral
    }
}

// as<std::wstring>() on a narrow basic_json requires a string (no dump of other kinds, unlike std::string); the streaming decode_traits
// converts the cursor's string representation, so numbers/bools are conservatively treated as convertible there
template <> struct Tr<std::wstring> : TrBase<std::wstring> {
    static std::string name() { return "wstring"; }
    static std::wstring gen(Rng& r, int depth) { return gen_wstring(r, depth); }
    static bool eq(const std::wstring& a, const std::wstring& b) { return a == b; }
    static constexpr unsigned is_mask = K_STR, as_mask = K_STR, st_mask = K_NULL | K_BOOL | K_NUM | K_STR;
    static constexpr bool native = true;
    static void sites(const std::wstring&, const json&, Walk& w) {
        // with wjson / a wide cursor the character types agree and std::wstring behaves like std::string does with json: as<>() returns the JSON text of any value
        if (w.wide) wrong_here(w, K_ALL, st_mask, K_STR, "wstring"); else wrong_here(w, as_mask, st_mask, K_STR, "wstring");
    }
};
} // namespace c17

namespace c17t {
// a macro-described class with wide string members, encoded/decoded with narrow and wide character types
struct Wide {
    std::wstring name; int32_t n{}; std::optional<std::wstring> note; std::vector<std::wstring> tags;
    Wide() = default;
    Wide(std::wstring a, int32_t b, std::optional<std::wstring> c, std::vector<std::wstring> d) : name(std::move(a)), n(b), note(std::move(c)), tags(std::move(d)) {}
    auto tie() const { return std::tie(name, n, note, tags); }
    static const char* const* names() { static const char* nm[] = {"name", "n", "note", "tags"}; return nm; }
    static constexpr size_t mandatory = 2; static constexpr bool native_decode = true;
    static std::string family() { return "class/N_MEMBER-wstring-members"; } static const char* macro() { return "N_MEMBER"; }
};
struct WideName {
    std::wstring label; std::wstring text;
    WideName() = default;
    WideName(std::wstring a, std::wstring b) : label(std::move(a)), text(std::move(b)) {}
    auto tie() const { return std::tie(label, text); }
    static const char* const* names() { static const char* nm[] = {"La bel", "t\xc3\xa9xt"}; return nm; }
    static constexpr size_t mandatory = 2; static constexpr bool native_decode = true;
    static std::string family() { return "class/ALL_MEMBER_NAME-wstring-members"; } static const char* macro() { return "ALL_MEMBER_NAME"; }
};
}
JSONCONS_N_MEMBER_TRAITS(c17t::Wide, 2, name, n, note, tags)
JSONCONS_ALL_MEMBER_NAME_TRAITS(c17t::WideName, (label, "La bel"), (text, "t\xc3\xa9xt"))
#endif
