"""C07: binary decoders implement their specifications.
Recorded-log monitor: inputs are produced by the independent reference encoders (every legal spelling), their strict
prefixes, byte/structural mutations and the exhaustive 1-2 (thorough: 3) byte space; each is decoded by the real library
(exec driver x_bin) and by the reference decoder (vlib/ref/*_ref.py). Rules: well-formed JSON-like => accepted with the
reference value; ill-formed => rejected; well-formed but not JSON-like => no value demand."""
import json, random, itertools, binascii
from decimal import Decimal
from .. import core, execdrv
from ..ref import cbor_ref, msgpack_ref, ubjson_ref, bson_ref, rv as RV

REF = {"cbor": cbor_ref, "msgpack": msgpack_ref, "ubjson": ubjson_ref, "bson": bson_ref}
KNOWN_CBOR_TAGS = {0, 1, 2, 3, 21, 22, 23, 32, 33, 34}
JUDGED_CBOR_TAGS_SKIP = {4, 5, 25, 256} | set(range(64, 88)) | {40, 1040, 24, 35, 36, 55799}   # interpreted by jsoncons in ways the monitor does not model: no value demand


def dbits(x):
    import struct
    return "%016x" % struct.unpack(">Q", struct.pack(">d", x))[0]


class NoDemand(Exception):
    pass


def expected_desc(fmt, rv):
    """Reference value -> the typed description (drivers/common/jvalue.hpp describe()) jsoncons must produce.
    Numbers are returned in a comparable normal form; raises NoDemand where the value is outside the judged domain."""
    k = rv[0]
    if k == "null":
        return None
    if k == "undefined":
        return {"n": 0, "t": "undefined"} if fmt in ("cbor", "bson") else NoDemandRaise()
    if k == "bool":
        return rv[1]
    if k == "int":
        n = rv[1]
        if -(2 ** 63) <= n < 2 ** 64:
            return {"int": n}
        return {"s": binascii.hexlify(str(n).encode()).decode(), "t": "bigint"}
    if k == "float":
        bits, width = rv[1], rv[2]
        x = RV.float_value(bits, width)
        if width == 16 and fmt == "cbor":
            return {"h": bits}
        return {"float": x}
    if k == "text":
        return {"s": binascii.hexlify(rv[1]).decode()}
    if k == "bytes":
        return {"b": binascii.hexlify(rv[1]).decode()}
    if k == "array":
        return {"a": [expected_desc(fmt, e) for e in rv[1]]}
    if k == "map":
        out = []
        for kk, vv in rv[1]:
            if kk[0] != "text":
                raise NoDemand("non-text key")
            out.append([binascii.hexlify(kk[1]).decode(), expected_desc(fmt, vv)])
        return {"o": out}
    if k == "hpn":
        txt = rv[1].decode()
        is_int = txt.lstrip("-").isdigit()
        return {"hpn": txt, "t": "bigint" if is_int else "bigdec"}
    if k == "tag":
        n, inner = rv[1], rv[2]
        if n in JUDGED_CBOR_TAGS_SKIP:
            raise NoDemand("tag %d" % n)
        if n in (2, 3):
            if inner[0] != "bytes":
                raise NoDemand("bignum tag on non-bytes")
            mag = int.from_bytes(inner[1], "big")
            val = mag if n == 2 else -1 - mag
            return {"s": binascii.hexlify(str(val).encode()).decode(), "t": "bigint"}
        e = expected_desc(fmt, inner)
        if n == 0 and inner[0] == "text":
            e["t"] = "datetime"
        elif n == 1 and inner[0] in ("int", "float") and isinstance(e, dict) and "s" not in e:
            e["t"] = "epoch_second"
        elif n == 32 and inner[0] == "text":
            e["t"] = "uri"
        elif n == 33 and inner[0] == "text":
            e["t"] = "base64url"
        elif n == 34 and inner[0] == "text":
            e["t"] = "base64"
        elif n in (21, 22, 23) and inner[0] == "bytes":
            e["t"] = {21: "base64url", 22: "base64", 23: "base16"}[n]
        elif n in KNOWN_CBOR_TAGS:
            raise NoDemand("tag %d on %s" % (n, inner[0]))
        elif inner[0] == "bytes" and isinstance(e, dict) and "t" not in e:
            # an unknown tag on a byte string is kept by jsoncons as the byte string's ext tag
            e["t"] = "ext"; e["x"] = n
        # other unknown tags are ignored by jsoncons: the inner value is expected unchanged
        return e
    if k == "ext":
        if rv[1] == -1:
            raise NoDemand("timestamp ext")
        return {"b": binascii.hexlify(rv[2]).decode(), "x": rv[1] & 0xff if rv[1] < 0 else rv[1], "t": "ext"}
    if k == "bson":
        kind, payload = rv[1], rv[2]
        if kind == "binary":
            return {"b": binascii.hexlify(payload[1]).decode(), "x": payload[0], "t": "ext"}
        raise NoDemand("bson " + kind)
    if k == "simple":
        raise NoDemand("simple value")
    raise NoDemand(k)


def NoDemandRaise():
    raise NoDemand("undefined")


def _num(d):
    """normal form of a number description produced by describe(): ('int', n) | ('float', python float) | None"""
    if "i" in d:
        return ("int", int(d["i"]))
    if "u" in d:
        return ("int", int(d["u"]))
    if "d" in d:
        import struct
        return ("float", struct.unpack(">d", bytes.fromhex(d["d"]))[0])
    return None


def same(exp, got, path="$"):
    """'' if the description `got` (from jsoncons) denotes `exp`; else a short reason."""
    if exp is None or isinstance(exp, bool):
        return "" if got == exp and type(got) == type(exp) else "%s: expected %r got %s" % (path, exp, json.dumps(got)[:80])
    if not isinstance(got, dict):
        return "%s: expected %s got %s" % (path, json.dumps(exp)[:80], json.dumps(got)[:80])
    et, gt = exp.get("t"), got.get("t")
    if "int" in exp:
        n = _num(got)
        if n is None or n[0] != "int" or n[1] != exp["int"]:
            return "%s: integer %d decoded as %s" % (path, exp["int"], json.dumps(got)[:80])
        return "" if et == gt else "%s: tag %s vs %s" % (path, et, gt)
    if "float" in exp:
        n = _num(got)
        x = exp["float"]
        if "h" in got:
            return "%s: float decoded as half %s" % (path, got)
        if n is None or n[0] != "float":
            return "%s: float %r decoded as %s" % (path, x, json.dumps(got)[:80])
        y = n[1]
        if x != x:
            ok = y != y
        else:
            ok = (dbits(x) == dbits(y))
        if not ok:
            return "%s: float %r decoded as %r" % (path, x, y)
        return "" if et == gt else "%s: tag %s vs %s" % (path, et, gt)
    if "hpn" in exp:
        if "s" not in got or gt != exp["t"]:
            return "%s: high-precision number %s decoded as %s" % (path, exp["hpn"], json.dumps(got)[:80])
        txt = bytes.fromhex(got["s"]).decode("utf-8", "replace")
        try:
            ok = txt == exp["hpn"] or Decimal(txt) == Decimal(exp["hpn"])     # identical digits need no arithmetic (Decimal refuses huge exponents)
        except Exception:
            ok = False
        return "" if ok else "%s: high-precision number %s decoded as %s" % (path, exp["hpn"], txt)
    for key in ("h", "s", "b"):
        if key in exp:
            if key not in got or got[key] != exp[key]:
                return "%s: %s %s decoded as %s" % (path, key, str(exp[key])[:60], json.dumps(got)[:80])
            if key == "b" and exp.get("x") is not None and got.get("x") != exp.get("x"):
                return "%s: ext type %s vs %s" % (path, exp.get("x"), got.get("x"))
            return "" if (et or None) == (gt or None) else "%s: tag %s vs %s" % (path, et, gt)
    if "n" in exp:
        return "" if got.get("n") == 0 and gt == et else "%s: expected undefined got %s" % (path, json.dumps(got)[:80])
    if "a" in exp:
        if "a" not in got or len(got["a"]) != len(exp["a"]):
            return "%s: array of %d decoded as %s" % (path, len(exp["a"]), json.dumps(got)[:80])
        for i, (e, g) in enumerate(zip(exp["a"], got["a"])):
            r = same(e, g, "%s[%d]" % (path, i))
            if r:
                return r
        return ""
    if "o" in exp:
        if "o" not in got or len(got["o"]) != len(exp["o"]):
            return "%s: map of %d decoded as %s" % (path, len(exp["o"]), json.dumps(got)[:80])
        for (ek, ev), (gk, gv) in zip(exp["o"], got["o"]):
            if ek != gk:
                return "%s: key %s decoded as %s" % (path, ek, gk)
            r = same(ev, gv, "%s.%s" % (path, ek[:16]))
            if r:
                return r
        return ""
    return "%s: unhandled expectation %s" % (path, json.dumps(exp)[:80])


def _all_text_valid(d):
    if isinstance(d, dict):
        if "s" in d:
            try:
                bytes.fromhex(d["s"]).decode("utf-8")
            except Exception:
                return False
        for e in d.get("a", []):
            if not _all_text_valid(e):
                return False
        for k, v in d.get("o", []):
            try:
                bytes.fromhex(k).decode("utf-8")
            except Exception:
                return False
            if not _all_text_valid(v):
                return False
    return True


def mutate(b, rng):
    b = bytearray(b)
    if not b:
        return bytes([rng.randrange(256)])
    k = rng.randrange(8)
    i = rng.randrange(len(b))
    if k == 0:
        b[i] = rng.randrange(256)
    elif k == 1:
        b[i] ^= 1 << rng.randrange(8)
    elif k == 2:
        b.insert(i, rng.choice([0xff, 0x00, 0x1c, 0x1f, 0x5f, 0x7f, 0x9f, 0xbf, 0xc1, rng.randrange(256)]))
    elif k == 3:
        del b[i]
    elif k == 4:
        b[i] = (b[i] + rng.choice([1, 255])) & 0xff          # length +-1
    elif k == 5:
        b.append(0xff)
    elif k == 6:
        b[i] = (b[i] & 0xe0) | rng.choice([28, 29, 30, 31])    # reserved additional information / indefinite
    else:
        b[i:i + 1] = bytes([0xc0 | rng.randrange(2, 32), 0x28])  # invalid UTF-8 start + bad continuation
    return bytes(b)


def gen_inputs(fmt, rng, n_values, tier):
    ref = REF[fmt]
    inputs = []          # (kind, bytes)
    # exhaustive small inputs
    for b0 in range(256):
        inputs.append(("exhaustive1", bytes([b0])))
    for b0 in range(256):
        for b1 in range(256):
            inputs.append(("exhaustive2", bytes([b0, b1])))
    if tier == "thorough":
        for b0 in range(256):
            for b1 in range(0, 256, 1):
                for b2 in range(0, 256, 5):
                    inputs.append(("exhaustive3(stride5)", bytes([b0, b1, b2])))
    for i in range(n_values):
        v = ref.gen_value(rng, depth=rng.choice([1, 2, 3, 3, 4]), jsonlike=rng.random() < 0.9)
        try:
            enc = ref.encode(v, rng, variety=rng.choice([0.0, 0.5, 0.9]))
        except ValueError:
            continue
        if len(enc) > 6000:
            continue
        inputs.append(("encoded", enc))
        if len(enc) <= 48:
            for k in range(len(enc)):
                inputs.append(("prefix", enc[:k]))
        else:
            for k in sorted(set(rng.randrange(len(enc)) for _ in range(6))):
                inputs.append(("prefix", enc[:k]))
        for _ in range(4):
            m = enc
            for _ in range(rng.choice([1, 1, 2])):
                m = mutate(m, rng)
            inputs.append(("mutated", m))
    return inputs


def judge(fmt, kind, data, reply, res):
    """returns (signature or None, detail, judged_class)"""
    if "abnormal" in reply:
        return ("conform/%s/abnormal/%s" % (fmt, reply["abnormal"]), {"stderr": reply.get("stderr", "")[-1500:]}, "abnormal")
    if "exception" in reply:
        return ("conform/%s/foreign-exception/%s" % (fmt, reply.get("type")), {"what": reply["exception"]}, "exception")
    accepted = reply.get("ok") is True
    if fmt == "ubjson" and b"N" in data:
        # the no-op marker: the draft leaves its legal positions (and whether it counts in counted containers) open; not judged
        return (None, None, "no-demand-noop")
    if not res.ok and fmt == "bson" and res.reason == "invalid-utf8" and accepted and _all_text_valid(reply.get("v")):
        # the invalid bytes are in an array element name, which carries no information and is ignored by the decoder
        return (None, None, "illformed-ignored-array-name")
    if not res.ok and res.reason == "count-limit":
        # a resource guard of the reference decoder (huge counted container without payload), not a rule of the format: not judged
        return (None, None, "no-demand-reference-count-limit")
    if not res.ok:
        if accepted:
            return ("conform/%s/ill-formed-accepted/%s" % (fmt, res.reason), {"reason": res.reason, "decoded": json.dumps(reply.get("v"))[:300]}, "illformed")
        return (None, None, "illformed-rejected")
    # well-formed first item; trailing bytes after the first item are not an error (CBOR sequences etc.)
    try:
        exp = expected_desc(fmt, res.value)
    except NoDemand as nd:
        return (None, None, "no-demand")
    if "dup-keys" in res.features or not res.jsonlike:
        return (None, None, "no-demand")
    if not accepted:
        return ("conform/%s/well-formed-rejected/%s" % (fmt, "+".join(sorted(f.split(":")[0] for f in res.features))[:60]), {"ec": reply.get("ec"), "features": sorted(res.features), "expected": json.dumps(exp)[:300]}, "wellformed")
    why = same(exp, reply.get("v"))
    if why:
        cls = why.split(": ", 1)[1].split(" ")[0] if ": " in why else "value"
        return ("conform/%s/wrong-value/%s" % (fmt, cls), {"why": why[:300], "features": sorted(res.features)}, "wellformed")
    return (None, None, "wellformed-ok")


def run(run, tier, seed, stage, bins):
    exe = bins[("x_bin", "asan")]
    rng = random.Random(seed * 7919 + 17)
    n_values = stage.get("values_" + tier, 1500)
    total = 0
    for fmt in ("cbor", "msgpack", "ubjson", "bson"):
        inputs = gen_inputs(fmt, rng, n_values, tier)
        reqs = [{"id": i, "op": "decode", "fmt": fmt, "hex": binascii.hexlify(b).decode(), "route": (i % 2)} for i, (k, b) in enumerate(inputs)]
        replies = execdrv.run_requests(exe, "asan", reqs)
        seen = set()
        ref = REF[fmt]
        for i, (kind, data) in enumerate(inputs):
            res = ref.decode(data)
            reply = replies.get(i, {"abnormal": "no-reply"})
            sig, detail, cls = judge(fmt, kind, data, reply, res)
            run.count("%s.%s.%s" % (stage["name"], fmt, cls))
            run.count("%s.%s.inputs.%s" % (stage["name"], fmt, kind.split("(")[0]))
            total += 1
            if data not in seen:
                seen.add(data)
            if sig:
                detail = dict(detail or {})
                detail.update({"format": fmt, "input": binascii.hexlify(data).decode()[:600], "input_kind": kind})
                run.add_violation(sig, detail, stage=stage["name"], case=i, replay={"fmt": fmt, "hex": binascii.hexlify(data).decode()})
        run.distinct += len(seen)
        if len(run.samples) < 8:
            for kind, data in inputs[70000:70003] + inputs[-2:]:
                run.samples.append({"stage": stage["name"], "case": {"format": fmt, "kind": kind, "hex": binascii.hexlify(data).decode()[:120]}})
    run.evaluations += total
    run.extra_cov["exhaustive_subspaces"] = "all 1- and 2-byte inputs per format" + (" and a stride-5 sample of 3-byte inputs" if tier == "thorough" else "")


def replay(rp, stage):
    exe = core.build("x_bin", "asan")
    r = rp.get("replay") or {}
    fmt, hx = r.get("fmt"), r.get("hex")
    replies = execdrv.run_requests(exe, "asan", [{"id": 0, "op": "decode", "fmt": fmt, "hex": hx, "route": 0}])
    res = REF[fmt].decode(bytes.fromhex(hx))
    sig, detail, cls = judge(fmt, "replay", bytes.fromhex(hx), replies.get(0, {}), res)
    print("reference:", res)
    print("jsoncons :", json.dumps(replies.get(0))[:600])
    if sig:
        print("VIOLATION property=C07 replay=(same) signature=%s" % sig)
        return 1
    return 0
