"""C12: JSONPath evaluation yields the specified nodes.
Recorded-log monitor (exec driver x_query, op 'jsonpath').  For every (document, expression) pair the driver records
json_query (values / paths / nodups / sort / nodups|sort / callback), the compiled expression (evaluate values / paths /
callback, evaluated twice), json_location::parse + get for every returned path, and json_replace with a marker (as a
json temporary, as a std::string temporary and through the callback overload).  Offline oracles:
 (1) model-free laws on EVERY accepted expression: each returned path resolves (library get() AND an independent
     Python resolver) to the value returned alongside; nodups / sort are the de-duplicated / sorted plain list;
     compiled == one-shot == callback; the document is not modified by a query; json_replace changes exactly the
     selected nodes (full tree diff against "marker written at every selected path").
 (2) the independent reference evaluator vlib/ref/jsonpath_ref.py on the in-scope grammar (exact order without '..',
     multiset with '..'); cases in which the reference exercised one of its own less certain semantics (notes) are
     compared for information only (counter unjudged_mismatch.*), never reported."""
import json, random, re, os
from concurrent.futures import ProcessPoolExecutor
from .. import core, execdrv
from ..ref import jsonpath_ref as P

MARKER = "@@MARK@@ replaced by json_replace @@MARK@@"
_MISSING = object()


def U(s):
    """driver strings are latin-1 escaped byte strings (jstr): recover the UTF-8 text"""
    return s.encode("latin-1").decode("utf-8")


# ---------------------------------------------------------------- values
def same(a, b):
    """strict JSON equality: bool/int/float/str/None types must match (1 != 1.0 != true)"""
    if type(a) is not type(b):
        return False
    if isinstance(a, list):
        return len(a) == len(b) and all(same(x, y) for x, y in zip(a, b))
    if isinstance(a, dict):
        return len(a) == len(b) and all(k in b and same(v, b[k]) for k, v in a.items())
    return a == b


def canon(v):
    return json.dumps(v, sort_keys=True, ensure_ascii=False)


# ---------------------------------------------------------------- normalized paths (own parser, independent of library and reference)
_ESC = {"'": "'", "\\": "\\", "b": "\b", "f": "\f", "n": "\n", "r": "\r", "t": "\t", '"': '"', "/": "/"}


def parse_npath(s):
    """$['name'][3]... -> tuple of str/int; None when the text is not a normalized path"""
    if not s.startswith("$"):
        return None
    i, n, out = 1, len(s), []
    while i < n:
        if s[i] != "[":
            return None
        i += 1
        if i < n and s[i] == "'":
            i += 1
            buf = []
            while True:
                if i >= n:
                    return None
                c = s[i]
                if c == "\\":
                    if i + 1 >= n:
                        return None
                    e = s[i + 1]
                    if e == "u":
                        try:
                            buf.append(chr(int(s[i + 2:i + 6], 16)))
                        except ValueError:
                            return None
                        i += 6
                        continue
                    if e not in _ESC:
                        return None
                    buf.append(_ESC[e])
                    i += 2
                elif c == "'":
                    i += 1
                    break
                else:
                    buf.append(c)
                    i += 1
            if i >= n or s[i] != "]":
                return None
            i += 1
            out.append("".join(buf))
        else:
            j = i
            while j < n and s[j].isdigit():
                j += 1
            if j == i or j >= n or s[j] != "]":
                return None
            out.append(int(s[i:j]))
            i = j + 1
    return tuple(out)


def resolve(doc, elems):
    v = doc
    for e in elems:
        if isinstance(e, int):
            if isinstance(v, list) and 0 <= e < len(v):
                v = v[e]
            else:
                return _MISSING
        else:
            if isinstance(v, dict) and e in v:
                v = v[e]
            else:
                return _MISSING
    return v


def sort_key(elems):
    """the library's documented element-wise order: names by code unit (UTF-8 bytes == code points), indices numerically,
    a prefix before its extensions.  Lists in which a name meets an index at the same position are not judged."""
    return tuple((0, e.encode("utf-8"), 0) if isinstance(e, str) else (1, b"", e) for e in elems)


def mixes_kinds(paths):
    """does any position (under the same prefix) hold both a name and an index?  (only the synthetic 'length' member can do that)"""
    seen = {}
    for p in paths:
        for k in range(len(p)):
            kind = isinstance(p[k], int)
            prev = seen.setdefault(p[:k], kind)
            if prev != kind:
                return True
    return False


def dedup(seq):
    seen, out = set(), []
    for x in seq:
        if x not in seen:
            seen.add(x)
            out.append(x)
    return out


def copy_json(v):
    if isinstance(v, dict):
        return {k: copy_json(x) for k, x in v.items()}
    if isinstance(v, list):
        return [copy_json(x) for x in v]
    return v


def write_markers(doc, paths):
    """the document with the marker written at every selected path, in the given order; a path whose ancestor has
    already been overwritten no longer exists and is skipped"""
    box = [copy_json(doc)]
    for p in paths:
        if not p:
            box[0] = MARKER
            continue
        parent = resolve(box[0], p[:-1])
        if parent is _MISSING:
            continue
        k = p[-1]
        if isinstance(k, int):
            if isinstance(parent, list) and 0 <= k < len(parent):
                parent[k] = MARKER
        elif isinstance(parent, dict) and k in parent:
            parent[k] = MARKER
    return box[0]


def tree_diff(a, b, prefix=(), out=None):
    """minimal paths at which two documents differ"""
    if out is None:
        out = []
    if isinstance(a, dict) and isinstance(b, dict):
        for k in a:
            if k not in b:
                out.append(prefix + (k,))
            else:
                tree_diff(a[k], b[k], prefix + (k,), out)
        for k in b:
            if k not in a:
                out.append(prefix + (k,))
    elif isinstance(a, list) and isinstance(b, list) and len(a) == len(b):
        for i, (x, y) in enumerate(zip(a, b)):
            tree_diff(x, y, prefix + (i,), out)
    elif not same(a, b):
        out.append(prefix)
    return out


# ---------------------------------------------------------------- expression classification
_FUNC_CALL_RE = re.compile(r"[A-Za-z_][A-Za-z0-9_]*\s*\(")
_PRIORITY = ["filter", "union", "desc", "parent", "slice", "wild", "index", "name"]


def synthetic_possible(expr):
    """may the expression return values that are not nodes of the document (function results, the 'length' pseudo-member)?"""
    return bool(_FUNC_CALL_RE.search(expr)) or "length" in expr


def _kinds(ast, acc):
    for st in ast[2]:
        acc.add(st[0])
        if st[0] == "union":
            for it in st[1]:
                if it[0] == "subpath":
                    acc.add("union")
                    _kinds(it[1], acc)
                else:
                    acc.add(it[0])


def extension_kind(expr):
    if "[(" in expr.replace(" ", ""):
        return "expression-index"
    if "=~" in expr:
        return "regex"
    if _FUNC_CALL_RE.search(expr):
        return "function"
    return "extension"


def _has_empty_name(ast):
    for st in ast[2]:
        if st == ("name", ""):
            return True
        if st[0] == "union" and any(it[0] == "subpath" and _has_empty_name(it[1]) for it in st[1]):
            return True
    return False


def _has_root_subpath(ast):
    for st in ast[2]:
        if st[0] == "union":
            for it in st[1]:
                if it[0] == "subpath" and (it[1][1] == "$" or _has_root_subpath(it[1])):
                    return True
    return False


_ROOT_IN_UNION_RE = re.compile(r"[\[,]\s*\$")
_DOT_EMPTY_RE = re.compile(r"""\.\s*(?:''|"")""")


def construct_of(expr, ast=None):
    """most specific selector kind used on the result-producing chain (from the reference AST when it parses)"""
    if ast is None:
        try:
            ast = P.parse(expr)
        except (P.NotSupported, P.PathSyntaxError, RecursionError) as e:
            if _ROOT_IN_UNION_RE.search(expr):
                return "union-with-root-subpath"
            return extension_kind(expr) if isinstance(e, P.NotSupported) else "other"
    if _has_root_subpath(ast):
        return "union-with-root-subpath"
    if _has_empty_name(ast) and _DOT_EMPTY_RE.search(expr):
        return "dot-quoted-empty-name"
    acc = set()
    _kinds(ast, acc)
    for k in _PRIORITY:
        if k in acc:
            return k
    return "root"


def plain_core_ast(ast):
    def plain(st):
        if st[0] in ("name", "index", "wild", "slice"):
            return True
        return st[0] == "union" and all(plain(it) for it in st[1])
    return ast[1] == "$" and all(plain(st) for st in ast[2])


_PC_NAME = r"'(?:[^'\\\x00-\x1f]|\\['\\])*'"
_PC_ITEM = r"(?:%s|-?(?:0|[1-9][0-9]{0,5})|\*|(?:-?(?:0|[1-9][0-9]{0,5}))?:(?:-?(?:0|[1-9][0-9]{0,5}))?(?::(?:-?[1-9][0-9]{0,5})?)?)" % _PC_NAME
_PLAIN_CORE_TEXT = re.compile(r"\$(?:\.[A-Za-z_][A-Za-z0-9_]*|\.\*|\[%s(?:,%s)*\])*\Z" % (_PC_ITEM, _PC_ITEM))


def plain_core_text(expr):
    """strictly spelled plain core form: $ followed by .name / .* / [items] with items 'name' | int | * | slice (no spaces,
    no zero step, no leading zeros).  For these accept/reject must agree between library and reference."""
    return bool(_PLAIN_CORE_TEXT.match(expr)) and not expr.endswith(".length")


def has_descent(expr):
    return ".." in expr


# ---------------------------------------------------------------- generation
_EXT_FILTERS = [
    "[?(length(@) > %d)]", "[?(@.length >= %d)]", "[?(@ + 1 > %d)]", "[?(@ * 2 == %d)]", "[?(-@ < %d)]", "[?(@.a - 1 <= %d)]",
    "[?(@.name =~ /a.*/)]", "[?(@ =~ /^.{%d}/i)]", "[?(contains(@, 'a'))]", "[?(starts_with(@.name, 'a'))]", "[?(ends_with(@, 'b'))]",
    "[?(abs(@) == %d)]", "[?(ceil(@) > %d)]", "[?(floor(@) < %d)]", "[?(to_number(@) > %d)]", "[?(length(keys(@)) > %d)]",
    "[?(sum(@) > %d)]", "[?(min(@) < %d)]", "[?(max(@) >= %d)]", "[?(avg(@) > %d)]", "[?(@.a / 2 > %d)]", "[?(@.id % 2 == %d)]",
    "[(@.length - 1)]", "[(@.length-%d)]", "[?(tokenize(@, ' ')[0] == 'a')]", "[?(@.length)]", "[?(length(@.*) > %d && @.a)]",
]
_EXT_TOP = ["length", "sum", "avg", "min", "max", "keys", "prod"]


def gen_ext_expression(rng, doc):
    """expression using a function, arithmetic, a regular expression, an expression index or the length pseudo-member:
    outside the reference evaluator, judged by the model-free laws only"""
    base = P.gen_expression(rng, doc, rng.choice([1, 2, 2, 3]))
    r = rng.random()
    flt = rng.choice(_EXT_FILTERS)
    flt = flt.replace("%d", str(rng.randint(0, 4)))
    if r < 0.06:
        # union with a $-rooted sub-path
        v = doc
        sub = "$"
        for _ in range(rng.randint(0, 2)):
            if isinstance(v, dict) and v:
                k = rng.choice(list(v.keys()))
                sub += "['%s']" % k.replace("\\", "\\\\").replace("'", "\\'")
                v = v[k]
            elif isinstance(v, list) and v:
                i = rng.randrange(len(v))
                sub += "[%d]" % i
                v = v[i]
        other = rng.choice(["*", "0", "-1", "'a'", "@", "?(@)", "1:"])
        items = [other, sub] if rng.random() < 0.5 else [sub, other]
        return base.rstrip() + "[" + ",".join(items) + "]" + rng.choice(["", ".*", "[0]"])
    if r < 0.45:
        return base.rstrip() + flt
    if r < 0.60:
        return "$" + rng.choice(["", "..", "[*]", ".*"]) + flt + rng.choice(["", ".*", "..*", "[0]", ".a"])
    if r < 0.75:
        return base.rstrip() + ".length"
    if r < 0.90:
        return "%s(%s)" % (rng.choice(_EXT_TOP), base.strip())
    return base.rstrip() + flt + rng.choice([".*", "[0]", "..a", "^"])


_MUT_DICT = ["$", "@", ".", "..", "[", "]", "(", ")", "?", "*", "'", "\"", ",", ":", "-1", "0", "1", "&&", "||", "!", "==", "!=", "<", ">=", "^", " ", "\\", "a", "name", "[*]", "['a']", "[?(@)]", "::", "-", "true", "null", "length"]


def mutate_expr(rng, e):
    for _ in range(rng.choice([1, 1, 2, 3])):
        k = rng.randrange(5)
        pos = rng.randrange(len(e) + 1)
        if k == 0 and e:
            pos = min(pos, len(e) - 1)
            e = e[:pos] + e[pos + 1:]
        elif k == 1:
            e = e[:pos] + rng.choice(_MUT_DICT) + e[pos:]
        elif k == 2 and e:
            pos = min(pos, len(e) - 1)
            e = e[:pos] + rng.choice(_MUT_DICT) + e[pos + 1:]
        elif k == 3 and len(e) > 2:
            a = rng.randrange(len(e) - 1)
            b = rng.randrange(a + 1, len(e))
            e = e[:a] + e[b:]
        else:
            a = rng.randrange(len(e) + 1)
            b = rng.randrange(a, min(len(e), a + 6) + 1)
            e = e[:pos] + e[a:b] + e[pos:]
    return e


def gen_plain_core(rng, doc):
    """strictly spelled plain core expression steered by the document (names, indices, wildcards, slices, unions)"""
    text, v = "$", doc
    for _ in range(rng.randint(1, 4)):
        r = rng.random()
        if isinstance(v, dict) and v:
            keys = list(v.keys())
            k = rng.choice(keys)
            if r < 0.35 and re.match(r"[A-Za-z_][A-Za-z0-9_]*\Z", k):
                text += "." + k
                v = v[k]
            elif r < 0.6:
                text += "['%s']" % k.replace("\\", "\\\\").replace("'", "\\'")
                v = v[k]
            elif r < 0.8:
                text += rng.choice([".*", "[*]"])
                v = v[k]
            else:
                ks = [rng.choice(keys + ["zz"]) for _ in range(rng.randint(2, 3))]
                text += "[%s]" % ",".join("'%s'" % x.replace("\\", "\\\\").replace("'", "\\'") for x in ks)
                v = v.get(ks[0])
        elif isinstance(v, list) and v:
            n = len(v)
            i = rng.randrange(n)

            def bound():
                return "" if rng.random() < 0.3 else str(rng.randint(-n - 1, n + 1))
            sl = "%s:%s" % (bound(), bound()) + (rng.choice(["", ":", ":1", ":2", ":-1", ":-2"]))
            if r < 0.4:
                text += "[%d]" % (i if rng.random() < 0.7 else i - n)
            elif r < 0.6:
                text += "[%s]" % sl
            elif r < 0.75:
                text += rng.choice([".*", "[*]"])
            else:
                items = [rng.choice([str(rng.randint(-n - 1, n)), sl, "*", str(i)]) for _ in range(rng.randint(2, 3))]
                text += "[%s]" % ",".join(items)
            v = v[i]
        else:
            text += rng.choice([".a", "[0]", "[*]", "['b']", "[1:]"])
            v = None
    return text


FIXED = [
    ({"a": [1, 2, [3, 4]], "b": {"x": "y"}}, "$"),
    ({"a": [1, 2, [3, 4]], "b": {"x": "y"}}, "$..[0,1]"),
    ({"a": [1, 2, [3, 4]], "b": {"x": "y"}}, "$.a[*,*]"),
    ({"a": [1, 2, [3, 4]], "b": {"x": "y"}}, "$..*"),
    ({"a": [1, 2, [3, 4]], "b": {"x": "y"}}, "$['b','a','b']"),
    ([[5, 4, 3], {"k": [1, 2]}, "s"], "$[::-1]"),
    ([[5, 4, 3], {"k": [1, 2]}, "s"], "$[0][-1:-4:-1]"),
    ([{"a": 1, "b": [1]}, {"a": 2}, {"b": 3}], "$[?(@.a)]"),
    ([{"a": 1, "b": [1]}, {"a": 2}, {"b": 3}], "$[?(@.a > 1 || @.b == 3)].*"),
    ([{"a": 1, "b": [1]}, {"a": 2}, {"b": 3}], "$[*].b^"),
    ({"it's": {"say \"hi\"": 1, "back\\slash": 2, "": 3, "é": 4}}, "$[\"it's\"].*"),
    ({"it's": {"say \"hi\"": 1, "back\\slash": 2, "": 3, "é": 4}}, "$..['', 'é', 'back\\\\slash']"),
    ({"a": [1, 2], "b": {"x": 1}}, "$[*]['x',$.b]"),
    ({"a": [1, 2], "b": {"x": 1}}, "$.b[@.x,$.a[0]]"),
]


# ---------------------------------------------------------------- open root causes
# KNOWN_BAD: id -> predicate(expression, document) deciding membership in the class of cases a root cause that is still
# OPEN in the library is known to break; such cases are not judged by the random workload (counter not_judged.known.<id>)
# and are watched by their witnesses instead.  Every root cause found so far has a repair, so the table is empty.
KNOWN_BAD = {}

# WITNESSES: (root cause id, document, expression, expectation).  Executed on every run in every tier, one request each; a
# witness on which the library misbehaves is reported as jsonpath/witness/<id>, a sanitizer abort / crash / hang as
# abnormal/witness/<id>/<kind>; a witness that passes is not reported.  Expectation keys: "pairs" = the (normalized path,
# value) list json_query must return, "replaced" = the document after json_replace(doc, expr, json(MARKER)), "get" = what
# jsonpath::get must report for every returned path.
_WD = {"a": [1, 2], "b": {"x": 1}}
WITNESSES = [
    ("replace-json-temporary", {"a": [1, 2, [3, 4]]}, "$..[0,1]", {"replaced": {"a": [MARKER, MARKER, [MARKER, MARKER]]}}),
    ("get-root-location", _WD, "$", {"pairs": [("$", _WD)], "get": [True]}),
    ("dot-quoted-empty-name", {"": 1, "b": 2}, "$.''", {"pairs": [("$['']", 1)]}),
    ("dot-quoted-empty-name", {"": 1, "b": {"": 3}}, "$..\"\"", {"pairs": [("$['']", 1), ("$['b']['']", 3)]}),
    ("expression-index-out-of-range", {"a": [3]}, "$.a[(@.length)]", {"pairs": []}),
    ("expression-index-out-of-range", {"o": {"k": 1}}, "$.o[('zz')]", {"pairs": []}),
    ("union-root-subpath", _WD, "$[*]['x',$.b]", {"pairs": [("$['b']", {"x": 1}), ("$['b']['x']", 1), ("$['b']", {"x": 1})]}),
    ("union-root-subpath", _WD, "$[*]['a',$]", {"pairs": [("$", _WD), ("$", _WD)], "replaced": MARKER}),
    ("parent-operator-continuation", {"a": {"b": [1, 2], "c": 5}}, "$.a.b^.c", {"pairs": [("$['a']['c']", 5)]}),
    ("parent-operator-continuation", {"a": {"b": [1, 2], "c": 5}}, "$.a.b[0]^^['c']", {"pairs": [("$['a']['c']", 5)]}),
]


def judge_witness(wid, doc, expr, expect, rep):
    """-> (signature, detail) when the library misbehaves on the witness, else None"""
    detail = {"witness": wid, "document": json.dumps(doc), "expression": expr, "expected": _short(expect, 600)}
    if "abnormal" in rep:
        detail["stderr"] = rep.get("stderr", "")[-1500:]
        return "abnormal/witness/%s/%s" % (wid, "/".join(rep["abnormal"].split("/")[:2])), detail
    bad = "jsonpath/witness/%s" % wid
    if "exception" in rep:
        detail["library"] = rep["exception"][:300]
        return bad, detail
    thrown = sorted(k for k in rep if k.endswith("_throw"))
    if rep.get("ok") is not True or thrown:
        detail["library"] = U(rep.get("ec", "")) or U(rep[thrown[0]])[:300]
        return bad, detail
    paths, vals = _load(rep, "paths"), _load(rep, "values")
    if "pairs" in expect:
        detail["library"] = _short(list(zip(paths, vals)), 600)
        exp = expect["pairs"]
        if len(exp) != len(paths) or len(paths) != len(vals) or any(p != ep or not same(v, ev) for p, v, (ep, ev) in zip(paths, vals, exp)):
            return bad, detail
    if "get" in expect and not same(_load(rep, "get_found"), expect["get"]):
        detail["library"] = "get_found=%s" % U(rep.get("get_found", "?"))
        return bad, detail
    if "replaced" in expect and not same(_load(rep, "replaced"), expect["replaced"]):
        detail["library"] = "replaced=%s" % _short(U(rep.get("replaced", "?")), 600)
        return bad, detail
    return None


def run_witnesses(run, exe, stage):
    reqs = [request_for(i, P.sort_keys(d), e) for i, (_, d, e, _x) in enumerate(WITNESSES)]
    replies = execdrv.run_requests(exe, "asan", reqs, nworkers=1)
    for i, (wid, doc, expr, expect) in enumerate(WITNESSES):
        res = judge_witness(wid, P.sort_keys(doc), expr, expect, replies.get(i, {"abnormal": "no-reply"}))
        run.count("%s.witness.%s" % (stage["name"], "passed" if res is None else "failed"))
        if res is not None:
            run.add_violation(res[0], res[1], stage=stage["name"], case=-1 - i, replay={"req": reqs[i], "witness": i})
    run.evaluations += len(reqs)


def build_cases(rng, n):
    """list of (doc, expr, source)"""
    cases = [(P.sort_keys(d), e, "fixed") for d, e in FIXED]
    while len(cases) < n:
        doc = P.gen_document(rng, rng.choice([1, 2, 2, 3, 3, 3, 4]))
        for _ in range(rng.choice([4, 6, 8])):
            r = rng.random()
            try:
                if r < 0.62:
                    cases.append((doc, P.gen_expression(rng, doc, rng.choice([1, 2, 3, 3, 4])), "gen"))
                elif r < 0.72:
                    cases.append((doc, gen_plain_core(rng, doc), "core"))
                elif r < 0.86:
                    cases.append((doc, gen_ext_expression(rng, doc), "ext"))
                else:
                    base = P.gen_expression(rng, doc, rng.choice([1, 2, 3])) if rng.random() < 0.8 else gen_ext_expression(rng, doc)
                    cases.append((doc, mutate_expr(rng, base), "mut"))
            except RecursionError:
                continue
    return cases[:n]


def request_for(i, doc, expr):
    return {"id": i, "op": "jsonpath", "doc": json.dumps(doc), "expr": expr}


# ---------------------------------------------------------------- judgement
def _load(rep, key):
    if key not in rep:
        return _MISSING
    return json.loads(U(rep[key]))


def _short(v, n=300):
    s = v if isinstance(v, str) else json.dumps(v, ensure_ascii=False)
    return s if len(s) <= n else s[:n] + "..."


def judge(doc, expr, source, rep):
    """-> (list of (signature, detail), list of counter names)"""
    viol, counts = [], []

    def V(sig, **detail):
        viol.append((sig, detail))

    if "abnormal" in rep:
        # sanitizer report / crash / hang: the faulting file varies with the API that touches the bad memory first
        V("jsonpath/abnormal/%s/%s" % ("/".join(rep["abnormal"].split("/")[:2]), construct_of(expr)), report=rep["abnormal"], stderr=rep.get("stderr", "")[-1500:])
        return viol, counts
    if "exception" in rep:
        if "assertion" in rep["exception"]:
            counts.append("internal_assertion(not judged here)")
        else:
            V("jsonpath/foreign-exception/%s" % rep.get("type"), what=rep["exception"][:300])
        return viol, counts

    # ---- reference side: parse
    ast, ref_status = None, "accept"
    try:
        ast = P.parse(expr)
    except P.NotSupported:
        ref_status = "unsupported"
    except P.PathSyntaxError:
        ref_status = "reject"
    except RecursionError:
        ref_status = "unsupported"
    construct = construct_of(expr, ast)
    lib_ok = rep.get("ok") is True
    threw = U(rep.get("values_throw", ""))

    # compiled and one-shot must agree on accept/reject (a rejecting json_query throws jsonpath_error)
    if (not lib_ok and not threw.startswith("jsonpath_error:")) or (lib_ok and threw.startswith("jsonpath_error:")):
        V("jsonpath/compiled-vs-oneshot/accept-mismatch", make_expression="accepted" if lib_ok else U(rep.get("ec", "")), json_query=threw or "returned")
        return viol, counts
    if not lib_ok:
        counts.append("rejected")
        if ref_status == "accept":
            counts.append("accept_mismatch.library_rejects_reference_accepts")
            if plain_core_text(expr):
                V("jsonpath/accept-mismatch/plain-core-rejected/%s" % construct, error=U(rep.get("ec", "")))
        # a rejected expression must not modify the document either
        for key in ("replaced", "replaced_str", "replaced_cb"):
            if key in rep:
                V("jsonpath/replace-after-compile-error", variant=key)
        return viol, counts
    counts.append("accepted")
    counts.append("accepted.%s" % source)
    for kid, pred in KNOWN_BAD.items():
        if pred(expr, doc):
            counts.append("not_judged.known.%s" % kid)
            return viol, counts
    if ref_status == "reject":
        counts.append("accept_mismatch.library_accepts_reference_rejects")

    # any query API throwing after a successful compile
    thrown = sorted(k for k in rep if k.endswith("_throw"))
    if thrown:
        what = U(rep[thrown[0]])
        m = re.match(r"[\w:]*<([\w:]+)", what) or re.match(r"((?:\w|::)+)", what)
        V("jsonpath/evaluation-threw/%s/%s" % (m.group(1) if m else "exception", construct), what=what[:300], apis=[k[:-6] for k in thrown])
        return viol, counts

    vals = _load(rep, "values")
    paths = _load(rep, "paths")
    if vals is _MISSING or paths is _MISSING:
        V("jsonpath/driver/incomplete-reply", keys=sorted(rep))
        return viol, counts
    synthetic = synthetic_possible(expr)

    # ---- (1a) the query did not modify the document
    if U(rep["doc_after"]) != U(rep["doc_parsed"]):
        V("jsonpath/query-modified-document/%s" % construct, after=_short(U(rep["doc_after"])))

    # ---- (1b) paths resolve to the values returned alongside
    if len(vals) != len(paths):
        V("jsonpath/values-paths-length-differ/%s" % construct, values=len(vals), paths=len(paths))
        return viol, counts
    elems = [parse_npath(p) if isinstance(p, str) else None for p in paths]
    if any(e is None for e in elems):
        bad = [p for p, e in zip(paths, elems) if e is None][0]
        V("jsonpath/not-a-normalized-path/%s" % construct, path=_short(bad))
        return viol, counts
    found = _load(rep, "get_found")
    gvals = _load(rep, "get_values")
    gerrs = _load(rep, "get_errors")
    real = []       # is result i a node of the document (own resolver)?
    for i, (p, e, v) in enumerate(zip(paths, elems, vals)):
        mine = resolve(doc, e)
        is_real = mine is not _MISSING and same(mine, v)
        real.append(is_real)
        if synthetic and not is_real:
            counts.append("synthetic_result(not judged by the resolution law)")
            continue
        if mine is _MISSING:
            V("jsonpath/path-does-not-resolve/%s" % construct, path=p, value=_short(v), by="independent resolver")
            break
        if not is_real:
            V("jsonpath/path-resolves-to-other-value/%s" % construct, path=p, returned=_short(v), at_path=_short(mine))
            break
        if found is not _MISSING:
            if gerrs[i] is not None:
                V("jsonpath/json_location-parse-rejects-returned-path/%s" % construct, path=p, error=gerrs[i])
                break
            if not found[i]:
                if not e:
                    V("jsonpath/path-does-not-resolve/root", path=p, by="jsonpath::get(root, json_location::parse(\"$\")) reports not found")
                else:
                    V("jsonpath/path-does-not-resolve/%s" % construct, path=p, value=_short(v), by="jsonpath::get")
                    break
            elif not same(gvals[i], v):
                V("jsonpath/path-resolves-to-other-value/%s" % construct, path=p, returned=_short(v), at_path=_short(gvals[i]), by="jsonpath::get")
                break
    all_real = all(real)
    if all_real:
        counts.append("resolution_law_judged")
    if any(sig.startswith(("jsonpath/path-does-not-resolve/", "jsonpath/path-resolves-to-other-value/")) and not sig.endswith("/root") for sig, _ in viol):
        # the returned paths are wrong: the laws below, which are stated in terms of the paths, would only repeat that
        counts.append("path_laws_skipped_after_resolution_failure")
        return viol, counts

    # ---- (1c) nodups / sort
    by_path = {}
    for e, v in zip(elems, vals):
        by_path.setdefault(e, v)
    exp_nodups = dedup(elems)
    judge_sort = not mixes_kinds(elems)
    exp_sort = sorted(elems, key=sort_key)
    exp_nodups_sort = sorted(exp_nodups, key=sort_key)
    for key, exp, is_sorted in (("nodups", exp_nodups, False), ("sort", exp_sort, True), ("nodups_sort", exp_nodups_sort, True)):
        got = _load(rep, key)
        if got is _MISSING:
            continue
        got_e = [parse_npath(p) if isinstance(p, str) else None for p in got]
        if is_sorted and not judge_sort:
            counts.append("sort_not_judged(name and index at one position)")
            if sorted(map(repr, got_e)) == sorted(map(repr, exp)):
                continue
        if got_e != exp:
            kind = "count" if len(got_e) != len(exp) else ("order" if sorted(map(repr, got_e)) == sorted(map(repr, exp)) else "members")
            V("jsonpath/%s-option/%s/%s" % (key.replace("_", "+"), kind, construct), plain=_short(paths), got=_short(got), expected=_short([P.normalized_path(x) for x in exp]))
            continue
        gv = _load(rep, key + "_v")
        if gv is not _MISSING:
            if len(gv) != len(got_e):
                V("jsonpath/%s-option/values-count/%s" % (key.replace("_", "+"), construct), paths=_short(got), values=_short(gv))
            elif all_real and not all(same(by_path[e], v) for e, v in zip(got_e, gv)):
                V("jsonpath/%s-option/values-differ/%s" % (key.replace("_", "+"), construct), paths=_short(got), values=_short(gv), plain_values=_short(vals))

    # ---- (1d) compiled == one-shot == callback
    for key, ref_list, what in (("c_values", vals, "values"), ("c_paths", paths, "paths"), ("c_values2", vals, "second-evaluation"),
                                ("cb_paths", paths, "callback-paths"), ("cb_values", vals, "callback-values"),
                                ("c_cb_paths", paths, "compiled-callback-paths"), ("c_cb_values", vals, "compiled-callback-values")):
        got = _load(rep, key)
        if got is _MISSING:
            V("jsonpath/driver/incomplete-reply", missing=key)
        elif not same(got, ref_list):
            V("jsonpath/compiled-vs-oneshot/%s/%s" % (what, construct), one_shot=_short(ref_list), other=_short(got))

    # ---- (1e) json_replace
    order = sorted(set(elems), key=lambda p: (len(p), sort_key(p)))
    if synthetic and not all_real:
        # function results / length pseudo-members are temporaries: only real nodes can be written
        order = [e for e in order if any(r for x, r in zip(elems, real) if x == e)]
    expected = write_markers(doc, order)
    selected = set(order)
    str_ok = False
    for key, variant in (("replaced_str", "string"), ("replaced_cb", "callback"), ("replaced", "json-temporary")):
        after = _load(rep, key)
        if after is _MISSING:
            V("jsonpath/driver/incomplete-reply", missing=key)
            continue
        if same(after, expected):
            counts.append("replace_judged_ok.%s" % variant)
            str_ok = str_ok or variant == "string"
            continue
        if variant == "json-temporary" and str_ok:
            # same expression, same selection, correct when the value is passed as std::string: the json temporary is
            # forwarded (moved) into the first node written and the remaining nodes receive moved-from leftovers
            V("jsonpath/replace-wrong-value/json-temporary", selected=_short([P.normalized_path(x) for x in order]), after=_short(after), expected=_short(expected))
            continue
        if synthetic:
            # function results / length pseudo-members are temporaries (even when path and value happen to coincide with a
            # node): which of them are writable is not specified, demand only that nothing else is touched
            diff = tree_diff(doc, after)
            if all(any(d[:len(s)] == s for s in selected) for d in diff):
                counts.append("replace_synthetic(not judged)")
                continue
        diff_exp = tree_diff(expected, after)
        d0 = diff_exp[0]
        under = [s for s in selected if d0[:len(s)] == s]
        if not under:
            kind = "replace-touched-other-node"
        elif resolve(after, min(under, key=len)) is not _MISSING and not same(resolve(after, min(under, key=len)), MARKER):
            same_as_before = same(resolve(after, min(under, key=len)), resolve(doc, min(under, key=len)))
            kind = "replace-missed-selected-node" if same_as_before else "replace-wrote-other-value"
        else:
            kind = "replace-touched-other-node"
        if True:
            V("jsonpath/%s/%s/%s" % (kind, variant, construct), at=P.normalized_path(d0), selected=_short([P.normalized_path(x) for x in order]), after=_short(after), expected=_short(expected))
    rcp = _load(rep, "replaced_cb_paths")
    if rcp is not _MISSING and not synthetic:
        got_e = [parse_npath(p) for p in rcp]
        if sorted(map(repr, got_e)) != sorted(map(repr, set(elems))):
            V("jsonpath/replace-callback-paths/%s" % construct, called_with=_short(rcp), selected=_short(paths))

    # ---- (2) reference evaluator
    if ref_status == "accept":
        judged_source = source in ("gen", "core", "fixed") or (plain_core_ast(ast) and plain_core_text(expr))
        notes = set()
        try:
            ref = P.evaluate(ast, doc, notes)
        except RecursionError:
            return viol, counts
        ref_pairs = [(p, v) for p, v in ref]
        lib_pairs = list(zip(paths, vals))
        multiset = has_descent(expr)

        def keyed(pairs):
            return sorted((p, canon(v), repr(type(v))) for p, v in pairs)
        eq_exact = len(ref_pairs) == len(lib_pairs) and all(a[0] == b[0] and same(a[1], b[1]) for a, b in zip(lib_pairs, ref_pairs))
        eq_multi = eq_exact or keyed(ref_pairs) == keyed(lib_pairs)
        ok = eq_multi if multiset else eq_exact
        if re.search(r"""['"]-?\d+['"]""", expr):
            # a quoted name made of digits: jsoncons (by design) lets it index an array, RFC 9535 applies names to objects only
            notes = set(notes) | {"digits-only-quoted-name"}
        if notes or not judged_source:
            tag = ",".join(sorted(notes)) if notes else "mutated-expression"
            counts.append("reference_not_judged.%s" % tag)
            if not ok:
                counts.append("unjudged_mismatch.%s" % tag)
        else:
            counts.append("reference_judged" + (".multiset" if multiset else ".ordered"))
            if not ok:
                lp, rp_ = [p for p, _ in lib_pairs], [p for p, _ in ref_pairs]
                if sorted(lp) == sorted(rp_):
                    kind = "order" if eq_multi else "values"
                elif set(lp) < set(rp_) or (set(lp) == set(rp_) and len(lp) < len(rp_)):
                    kind = "missing-nodes"
                elif set(lp) > set(rp_) or (set(lp) == set(rp_) and len(lp) > len(rp_)):
                    kind = "extra-nodes"
                else:
                    kind = "different-nodes"
                if construct == "dot-quoted-empty-name":
                    kind = "selector-ignored-or-different"
                V("jsonpath/reference-differs/%s/%s" % (construct, kind), library=_short(lib_pairs, 500), reference=_short(ref_pairs, 500))
    else:
        counts.append("reference_out_of_scope.%s" % ref_status)
    return viol, counts


# ---------------------------------------------------------------- running
def _shard(args):
    exe, seed, shard, n = args
    rng = random.Random(seed * 1000003 + shard * 7919 + 12)
    cases = build_cases(rng, n)
    reqs = [request_for(i, d, e) for i, (d, e, s) in enumerate(cases)]
    replies = execdrv.run_requests(exe, "asan", reqs, nworkers=1)
    counters, viols, distinct = {}, [], set()
    per_sig = {}
    for i, (doc, expr, source) in enumerate(cases):
        rep = replies.get(i, {"abnormal": "no-reply"})
        try:
            v, c = judge(doc, expr, source, rep)
        except RecursionError:
            v, c = [], ["judge_recursion_limit"]
        distinct.add((reqs[i]["doc"], expr))
        for k in c:
            counters[k] = counters.get(k, 0) + 1
        counters["source.%s" % source] = counters.get("source.%s" % source, 0) + 1
        for sig, detail in v:
            counters["violations_by_signature.%s" % sig] = counters.get("violations_by_signature.%s" % sig, 0) + 1
            per_sig[sig] = per_sig.get(sig, 0) + 1
            if per_sig[sig] <= 3:
                detail = dict(detail)
                detail.update({"document": _short(reqs[i]["doc"], 600), "expression": expr, "source": source})
                viols.append((sig, detail, shard * 10000000 + i, {"req": reqs[i], "source": source}))
    samples = [{"document": _short(reqs[i]["doc"], 200), "expression": cases[i][1], "source": cases[i][2]} for i in range(len(FIXED), min(len(cases), len(FIXED) + 2))]
    return counters, viols, len(cases), len(distinct), samples


def run(run, tier, seed, stage, bins):
    exe = bins[("x_query", "asan")]
    run_witnesses(run, exe, stage)
    n = stage.get("pairs_" + tier, 40000)
    per = 2500
    nshards = max(1, (n + per - 1) // per)
    jobs = [(exe, seed, s, min(per, n - s * per)) for s in range(nshards)]
    name = stage["name"]
    with ProcessPoolExecutor(max_workers=min(core.NCPU, nshards)) as ex:
        for counters, viols, ncases, ndistinct, samples in ex.map(_shard, jobs):
            for k, v in counters.items():
                run.count(("%s.%s" % (name, k)) if not k.startswith("violations_by_signature.") else k, v)
            for sig, detail, case, rp in viols:
                run.add_violation(sig, detail, stage=name, case=case, replay=rp)
            run.evaluations += ncases
            run.distinct += ndistinct
            if len(run.samples) < 5:
                for s in samples[:1 if run.samples else 2]:
                    run.samples.append({"stage": name, "case": s})


def replay(rp, stage):
    exe = core.build("x_query", "asan")
    r = rp.get("replay") or {}
    req = dict(r["req"])
    req["id"] = 0
    rep = execdrv.run_requests(exe, "asan", [req]).get(0, {"abnormal": "no-reply"})
    doc = json.loads(req["doc"])
    if "witness" in r:
        wid, wdoc, wexpr, expect = WITNESSES[r["witness"]]
        res = judge_witness(wid, P.sort_keys(wdoc), wexpr, expect, rep)
        print("witness %s: %s on %s, expected %s" % (wid, wexpr, json.dumps(wdoc), _short(expect, 600)))
        for k in ("values", "paths", "replaced", "get_found", "ec"):
            if k in rep:
                print("%-10s: %s" % (k, U(rep[k])[:600]))
        if res is not None and res[0] == rp.get("signature"):
            print("VIOLATION property=C12 replay=(same) signature=%s" % res[0])
            return 1
        print("replay: signature %s did not reproduce" % rp.get("signature"))
        return 0
    viols, counts = judge(doc, req["expr"], r.get("source", "gen"), rep)
    print("document  :", req["doc"][:1000])
    print("expression:", req["expr"])
    for k in ("values", "paths", "replaced_str", "ec"):
        if k in rep:
            print("%-10s: %s" % (k, U(rep[k])[:600]))
    hit = False
    for sig, detail in viols:
        print("replayed: %s %s" % (sig, json.dumps(detail, ensure_ascii=False)[:1200]))
        hit = hit or sig == rp.get("signature")
    if hit:
        print("VIOLATION property=C12 replay=(same) signature=%s" % rp.get("signature"))
        return 1
    print("replay: signature %s did not reproduce" % rp.get("signature"))
    return 0
