"""C14: JSON Pointer operations follow RFC 6901.
Recorded-log monitor: sequences of pointer calls (parse/to_string, get, contains, add, add_if_absent, replace, remove -
string and pre-parsed json_pointer overloads, with and without create_if_missing - flatten, unflatten(flatten)) are
executed by the real library (exec driver x_ptr, json and ojson) on an evolving document; every reply (error code,
returned value, document text after the call) is judged against vlib/ref/pointer_patch_ref.py applied to the document
the library itself reported before that call (so one divergence gives one violation, not a cascade)."""
import json, random
from .. import core, execdrv
from ..ref import pointer_patch_ref as R

FIX = lambda s: s.encode("latin-1").decode("utf-8")     # driver strings: bytes >= 0x7f arrive as \u00XX

# member names: plain, index-like, escape-relevant, empty, non-ASCII, control characters
KEYS = ["a", "b", "c", "d", "", "0", "1", "2", "01", "00", "10", "-", "+1", "-1", "a/b", "m~n", "~", "/", "~0", "~1", "~01", "a~1b", "//", " ",
        "é", "€", "\U0001F600", "k\"q", "back\\slash", "\u0000", "x\ty", "1e0", "٣", "long_member_name_beyond_small_string_optimisation_xxxxxxxx"]
PLAIN_KEYS = ["a", "b", "c", "d", "", "-", "+1", "-1", "a/b", "m~n", "~", "/", "~0", "~1", "~01", "//", " ", "é", "\U0001F600", "k\"q", "\u0000", "1e0", "٣", "x1"]
STRINGS = ["", "x", "bar", "a/b", "m~n", "~", "/", "é€", "\U0001F600", "quote\"d", "back\\slash", "line\nbreak", "\u0000", "0", "10", "-",
           "a string that is longer than the small string optimisation buffer"]
INTS = [0, 1, -1, 2, 7, 10, 255, 256, 65536, 2 ** 31 - 1, -(2 ** 31), 2 ** 32, 2 ** 53, 2 ** 53 + 1, 2 ** 63 - 1, -(2 ** 63), -(2 ** 63) + 1]


def gen_scalar(rng):
    k = rng.randrange(10)
    if k == 0:
        return None
    if k == 1:
        return rng.random() < 0.5
    if k < 6:
        return rng.choice(INTS) if rng.random() < 0.5 else rng.randrange(-1000, 1000)
    return rng.choice(STRINGS)


def gen_value(rng, depth, keys=KEYS, width=4):
    k = rng.randrange(10)
    if depth <= 0 or k < 3:
        return gen_scalar(rng)
    n = rng.choice([0, 1, 1, 2, 2, 3, 3, width])
    if k < 6:
        return [gen_value(rng, depth - 1, keys, width) for _ in range(n)]
    out = {}
    for _ in range(n):
        out[rng.choice(keys)] = gen_value(rng, depth - 1, keys, width)
    return out


def size_of(v):
    if isinstance(v, dict):
        return 1 + sum(size_of(x) for x in v.values())
    if isinstance(v, list):
        return 1 + sum(size_of(x) for x in v)
    return 1


def random_location(rng, doc, stop=0.3):
    toks = []
    cur = doc
    while True:
        if isinstance(cur, dict) and cur and rng.random() > stop:
            k = rng.choice(list(cur.keys()))
            toks.append(k)
            cur = cur[k]
        elif isinstance(cur, list) and cur and rng.random() > stop:
            i = rng.randrange(len(cur))
            toks.append(str(i))
            cur = cur[i]
        else:
            return toks


def index_variants(rng, n):
    i = rng.randrange(n) if n else 0
    return rng.choice([str(i), str(i), str(n), str(n), str(n + 1), "-", "-", "0" + str(i), "00", "000" + str(i), "+" + str(i), "-" + str(i), "-0", "+0", "", " " + str(i), str(i) + " ",
                       str(i) + ".0", str(i) + "e0", "0x" + str(i), str(2 ** 64), str(2 ** 64 - 1), str(2 ** 64 + i), str(2 ** 32 + i), str(2 ** 63), "٣", "０", "9" * 30,
                       "1" + "0" * 19, str(i) + "\u0000", "a", "--", "~0", str(max(n - 1, 0))])


def gen_pointer(rng, doc):
    """-> (pointer string, label of the construction)"""
    toks = random_location(rng, doc)
    r = rng.random()
    if r < 0.30:
        return R.format_pointer(toks), "existing"
    if r < 0.78:
        mode = rng.randrange(3)
        if mode == 0 and toks:
            base = toks[:-1]          # vary the last token
        elif mode == 1 and toks:
            cut = rng.randrange(len(toks))
            base = toks[:cut]         # vary a middle token, keep the tail
        else:
            base = toks               # append a token
        tail = toks[len(base) + 1:] if mode == 1 and toks else []
        try:
            parent = R.get(doc, base)
        except R.PointerError:
            parent = None
        if isinstance(parent, list):
            t = index_variants(rng, len(parent))
            label = "array-token"
        elif isinstance(parent, dict):
            t = rng.choice(list(parent.keys())) if parent and rng.random() < 0.4 else rng.choice(KEYS)
            label = "member-token"
        else:
            t = rng.choice(KEYS + ["0", "-"])
            label = "below-scalar"
        if rng.random() < 0.1:
            tail = tail + [rng.choice(KEYS + ["0", "-", "1"])]
        return R.format_pointer(base + [t] + tail), label
    p = R.format_pointer(toks)
    k = rng.randrange(12)
    if k == 0:
        return p + "~", "text/trailing-tilde"
    if k == 1:
        return p + "~2", "text/tilde-2"
    if k == 2:
        return p + "/~/x", "text/tilde-slash"
    if k == 3 and p:
        pos = rng.randrange(len(p) + 1)
        return p[:pos] + "~" + p[pos:], "text/inserted-tilde"
    if k == 4 and p:
        return p[1:], "text/no-leading-slash"
    if k == 5:
        return "x" + p, "text/leading-garbage"
    if k == 6:
        return p + "/", "text/trailing-empty-token"
    if k == 7:
        return "/" + p, "text/leading-empty-token"
    if k == 8 and p:
        return p.replace("/", "//", 1), "text/doubled-slash"
    if k == 9 and "~" in p:
        return p.replace("~0", "~", 1).replace("~1", "~", 1), "text/unescaped-tilde"
    if k == 10:
        return "".join(rng.choice("/~01a-é") for _ in range(rng.randrange(1, 8))), "text/random"
    return p + rng.choice(["~01", "~10", "~00", "~11", "/~0~1", "/~1~0"]), "text/escape-sequences"


MUTATORS = ("add", "add_if_absent", "replace", "remove")
FNS = ["get"] * 18 + ["contains"] * 9 + ["add"] * 20 + ["add_if_absent"] * 10 + ["replace"] * 13 + ["remove"] * 13 + ["parse"] * 8 + ["get_create"] * 3 + ["flatten"] * 2 + ["unflatten"] * 4


def gen_step(rng, doc):
    fn = rng.choice(FNS)
    if fn in ("flatten", "unflatten"):
        return {"fn": fn}, fn
    p, label = gen_pointer(rng, doc)
    st = {"fn": fn, "ptr": p}
    if rng.random() < 0.3:
        st["via"] = "p"
    if fn == "get_create":
        st["fn"] = "get"
        st["create"] = rng.random() < 0.85
    if fn in ("add", "add_if_absent", "replace"):
        st["v"] = json.dumps(gen_value(rng, rng.choice([0, 0, 1, 2])))
        c = rng.random()
        if c < 0.3:
            st["create"] = True
        elif c < 0.4:
            st["create"] = False
    return st, label


class Dup(Exception):
    pass


def _pairs(pairs):
    d = {}
    for k, v in pairs:
        if k in d:
            raise Dup(k)
        d[k] = v
    return d


def loads_strict(text):
    return json.loads(text, object_pairs_hook=_pairs)


KIND_NAME = {"index/leading-zero": "array-index/leading-zero", "index/sign": "array-index/sign", "index/not-a-number": "array-index/not-a-number", "index/empty": "array-index/empty-token",
             "index/out-of-range": "array-index/out-of-range", "index/dash": "array-index/dash", "key-not-found": "missing-member", "not-a-container": "scalar-parent",
             "root": "whole-document", "exists": "existing-location", "syntax/bad-escape": "malformed-pointer/bad-escape", "syntax/no-leading-slash": "malformed-pointer/no-leading-slash"}


def index_like_names(v):
    """True if some member name consists of ASCII digits only (flatten cannot tell such an object from an array)."""
    if isinstance(v, dict):
        return any(k != "" and all("0" <= c <= "9" for c in k) for k in v) or any(index_like_names(x) for x in v.values())
    if isinstance(v, list):
        return any(index_like_names(x) for x in v)
    return False


def last_kind(toks):
    if not toks:
        return "whole-document"
    if toks[-1] == "-":
        return "dash"
    return "index-like-token" if R.ARRAY_INDEX.fullmatch(toks[-1]) else "member-token"


def expected(before, st):
    """reference outcome of one step on the document `before`:
    ('err', kind) | ('ok', doc_after, value_or_None, used_creation)"""
    fn = st["fn"]
    try:
        toks = R.parse_pointer(st["ptr"])
    except R.PointerError as e:
        return ("err", e.kind)
    create = bool(st.get("create", False))
    created = []
    try:
        if fn == "get":
            if create:
                val, after = R.get_create(before, toks, created)
                return ("ok", after, val, bool(created))
            return ("ok", before, R.get(before, toks), False)
        value = json.loads(st["v"]) if "v" in st else None
        if fn == "add":
            return ("ok", R.add(before, toks, value, create, created), None, bool(created))
        if fn == "add_if_absent":
            return ("ok", R.add_if_absent(before, toks, value, create, created), None, bool(created))
        if fn == "replace":
            return ("ok", R.replace(before, toks, value, create, created), None, bool(created))
        if fn == "remove":
            return ("ok", R.remove(before, toks), None, False)
    except R.PointerError as e:
        if created:
            # the error arose below a member that create_if_missing would have created: cannot happen (created values are
            # empty objects), kept for safety: jsoncons-specific territory, not judged
            return ("open",)
        return ("err", e.kind)
    raise AssertionError(fn)


def judge_step(policy, before, st, rep, out, counts):
    """before: Python value of the document before the step. Appends (signature, detail) to out. Returns the document after
    (as reported by the library) or None when it cannot be read."""
    fn = st["fn"]
    tag = fn + ("+create" if st.get("create") else "")

    def viol(sig, **detail):
        detail.update({"policy": policy, "document_before": json.dumps(before)[:600], "step": {k: v for k, v in st.items()}})
        out.append(("pointer/" + sig, detail))

    try:
        after = loads_strict(FIX(rep["doc"]))
    except Dup as e:
        viol("%s/duplicate-member-in-document" % fn, member=str(e), document_after=FIX(rep["doc"])[:600])
        return None
    except Exception as e:
        viol("%s/document-text-not-json" % fn, why=str(e)[:100], document_after=rep.get("doc", "")[:600])
        return None
    lib_err = rep.get("ec") is not None or "threw" in rep
    if "threw" in rep and fn not in ("unflatten",):
        counts["threw_from_error_code_overload"] = counts.get("threw_from_error_code_overload", 0) + 1
    same = R.ordered_equal(after, before) if policy == "ojson" else R.json_equal(after, before)

    if fn == "parse":
        try:
            toks = R.parse_pointer(st["ptr"])
        except R.PointerError as e:
            if not lib_err:
                viol("parse/%s-accepted" % KIND_NAME[e.kind], printed=FIX(rep.get("str", "")))
            counts["parse.malformed"] = counts.get("parse.malformed", 0) + 1
            return after
        counts["parse.valid"] = counts.get("parse.valid", 0) + 1
        if lib_err:
            viol("parse/valid-pointer-refused", ec=rep.get("ec"))
            return after
        got = [FIX(t) for t in rep.get("tokens", [])]
        if got != toks:
            viol("parse/tokens-differ", expected=toks, observed=got)
        elif FIX(rep.get("str", "")) != st["ptr"]:
            viol("parse/round-trip-differs", expected=st["ptr"], observed=FIX(rep.get("str", "")))
        elif rep.get("ctor_same") is not True:
            viol("parse/constructor-disagrees-with-parse")
        return after

    if fn in ("flatten", "unflatten"):
        if not same:
            viol("%s/document-changed" % fn, document_after=json.dumps(after)[:600])
        if "threw" in rep:
            viol("%s/exception" % fn, what=rep["threw"])
            return after
        key = "flat" if fn == "unflatten" else "val"
        try:
            flat = loads_strict(FIX(rep[key]))
        except Exception as e:
            viol("flatten/result-not-json", why=str(e)[:100])
            return after
        # every entry of the flattened form must be a valid pointer that resolves to an equal value in the document,
        # and every leaf of the document must be present
        bad = None
        if not isinstance(flat, dict):
            bad = "result is not an object"
        else:
            for k, v in flat.items():
                try:
                    if not R.json_equal(R.get(before, R.parse_pointer(k)), v):
                        bad = "entry %r holds a different value" % k
                        break
                except R.PointerError as e:
                    bad = "entry %r does not resolve (%s)" % (k, e.kind)
                    break
        if bad:
            viol("flatten/entry-does-not-resolve", why=bad, flattened=json.dumps(flat)[:600])
        else:
            want = {R.format_pointer(t) for t, _ in R.leaves(before)}
            if set(flat.keys()) != want:
                viol("flatten/leaf-missing", missing=sorted(want - set(flat.keys()))[:5], extra=sorted(set(flat.keys()) - want)[:5])
        if fn == "unflatten":
            if index_like_names(before):
                counts["unflatten.not_judged_index_like_member_names"] = counts.get("unflatten.not_judged_index_like_member_names", 0) + 1
            else:
                counts["unflatten.judged"] = counts.get("unflatten.judged", 0) + 1
                try:
                    back = loads_strict(FIX(rep["val"]))
                    if not R.json_equal(back, before):
                        viol("unflatten/round-trip-differs", observed=json.dumps(back)[:600], flattened=json.dumps(flat)[:600])
                except Exception as e:
                    viol("unflatten/result-not-json", why=str(e)[:100])
        return after

    if fn == "contains":
        if not same:
            viol("contains/document-changed", document_after=json.dumps(after)[:600])
        try:
            want = R.contains(before, R.parse_pointer(st["ptr"]))
            kind = None
            if not want:
                try:
                    R.get(before, R.parse_pointer(st["ptr"]))
                except R.PointerError as e:
                    kind = e.kind
        except R.PointerError as e:
            want, kind = False, e.kind
        counts["contains.%s" % want] = counts.get("contains.%s" % want, 0) + 1
        if rep.get("b") is not want:
            if want:
                viol("contains/false-for-existing-location")
            else:
                viol("contains/true-for-%s" % KIND_NAME[kind])
        return after

    exp = expected(before, st)
    if exp[0] == "open":
        counts["not_judged.open"] = counts.get("not_judged.open", 0) + 1
        return after
    if exp[0] == "err":
        counts["%s.error_expected.%s" % (tag, exp[1])] = counts.get("%s.error_expected.%s" % (tag, exp[1]), 0) + 1
        if not lib_err:
            viol("%s/%s-accepted" % (fn, KIND_NAME[exp[1]]), document_after=json.dumps(after)[:600], returned=FIX(rep.get("val", ""))[:200])
        elif not same:
            viol("%s/error-but-document-changed" % fn, ec=rep.get("ec"), document_after=json.dumps(after)[:600])
        return after
    _, want_after, want_val, used_creation = exp
    counts["%s.success_expected%s" % (tag, ".with_creation" if used_creation else "")] = counts.get("%s.success_expected%s" % (tag, ".with_creation" if used_creation else ""), 0) + 1
    if lib_err:
        if not same:
            viol("%s/error-but-document-changed" % fn, ec=rep.get("ec"), document_after=json.dumps(after)[:600])
        elif used_creation:
            # create_if_missing is jsoncons-specific: refusing is not judged, only that nothing was left behind
            counts["not_judged.create_if_missing_refused"] = counts.get("not_judged.create_if_missing_refused", 0) + 1
        else:
            viol("%s/valid-location-refused/%s" % (fn, last_kind(R.parse_pointer(st["ptr"]))), ec=rep.get("ec"), expected_document=json.dumps(want_after)[:600])
        return after
    if not R.json_equal(after, want_after):
        viol("%s/result-differs%s" % (fn, "/create-if-missing" if used_creation else ("/" + last_kind(R.parse_pointer(st["ptr"])))),
             expected_document=json.dumps(want_after)[:600], document_after=json.dumps(after)[:600])
    elif policy == "ojson" and not R.ordered_equal(after, want_after):
        # member order of insertion-ordered objects is not RFC matter: recorded, not judged
        counts["ojson.member_order_differs_from_model"] = counts.get("ojson.member_order_differs_from_model", 0) + 1
    if fn == "get":
        try:
            val = loads_strict(FIX(rep["val"]))
            if not R.json_equal(val, want_val):
                viol("get/wrong-value", expected=json.dumps(want_val)[:300], observed=json.dumps(val)[:300])
        except Exception as e:
            viol("get/value-not-json", why=str(e)[:100])
    return after


def judge_request(req, rep, counts):
    """-> list of (signature, detail)"""
    out = []
    if "abnormal" in rep:
        return [("pointer/abnormal/%s" % rep["abnormal"], {"stderr": rep.get("stderr", "")[-1500:], "request": json.dumps(req)[:1200]})]
    if "exception" in rep:
        return [("pointer/%s-exception/%s" % ("foreign" if rep["exception"].startswith("foreign") else "escaped-json", rep.get("type")), {"what": rep["exception"], "request": json.dumps(req)[:1200]})]
    if "res" not in rep or len(rep["res"]) != len(req["steps"]):
        return [("pointer/harness/short-reply", {"reply": json.dumps(rep)[:600]})]
    before = json.loads(req["doc"])
    for st, r in zip(req["steps"], rep["res"]):
        if "error" in r:
            out.append(("pointer/harness/%s" % r["error"], {}))
            break
        before = judge_step(req["policy"], before, st, r, out, counts)
        if before is None:
            break
    return out


def build_requests(rng, n_ops):
    reqs = []
    labels = {}
    total = 0
    while total < n_ops:
        depth = rng.choice([1, 2, 2, 3, 3, 4])
        doc = gen_value(rng, depth)
        if rng.random() < 0.85 and not isinstance(doc, (dict, list)):
            doc = gen_value(rng, depth, width=5)
        nsteps = rng.choice([1, 2, 3, 5, 8, 12, 20])
        steps = []
        sim = doc
        for _ in range(nsteps):
            st, label = gen_step(rng, sim)
            labels[label] = labels.get(label, 0) + 1
            steps.append(st)
            if st["fn"] in MUTATORS or (st["fn"] == "get" and st.get("create")):
                try:
                    e = expected(sim, st)
                    if e[0] == "ok":
                        sim = e[1]
                except Exception:
                    pass
            if size_of(sim) > 120:
                break
        reqs.append({"id": len(reqs), "op": "ptr", "policy": rng.choice(["json", "ojson"]), "doc": json.dumps(doc), "steps": steps})
        total += len(steps)
    return reqs, labels


CHUNK = 200000      # operations generated, executed and judged at a time (bounds memory in the thorough tier)


def run(run, tier, seed, stage, bins):
    exe = bins[("x_ptr", "asan")]
    rng = random.Random(seed * 7919 + 14)
    n_ops = stage.get("ops_" + tier, 150000)
    counts, labels_all, per_sig = {}, {}, {}
    seen = set()
    nsteps = nreq = 0
    while nsteps < n_ops:
        reqs, labels = build_requests(rng, min(CHUNK, n_ops - nsteps))
        for k, v in labels.items():
            labels_all[k] = labels_all.get(k, 0) + v
        replies = execdrv.run_requests(exe, "asan", reqs)
        for rq in reqs:
            rep = replies.get(rq["id"], {"abnormal": "no-reply"})
            for sig, detail in judge_request(rq, rep, counts):
                per_sig[sig] = per_sig.get(sig, 0) + 1
                if per_sig[sig] <= 3:
                    run.add_violation(sig, detail, stage=stage["name"], case=nreq + rq["id"], replay={"req": rq})
            nsteps += len(rq["steps"])
            for st in rq["steps"]:
                if st.get("ptr") or rq["doc"][0] in "[{":
                    seen.add(hash((rq["doc"], st["fn"], st.get("ptr"), st.get("v"), st.get("create"))))
        for rq in reqs[:200]:
            if len(run.samples) >= 4:
                break
            if 2 <= len(rq["steps"]) <= 5:
                rep = replies.get(rq["id"], {})
                run.samples.append({"stage": stage["name"], "case": {"policy": rq["policy"], "document": rq["doc"][:300], "steps": rq["steps"][:3],
                                                                      "replies": [{"ec": r.get("ec"), "doc": FIX(r.get("doc", ""))[:200]} for r in rep.get("res", [])[:3]]}})
        nreq += len(reqs)
    for k, v in sorted(counts.items()):
        run.count("%s.%s" % (stage["name"], k), v)
    for k, v in sorted(labels_all.items()):
        run.count("%s.pointer_construction.%s" % (stage["name"], k), v)
    for k, v in sorted(per_sig.items()):
        run.count("violations_by_signature.%s" % k, v)
    run.count("%s.requests" % stage["name"], nreq)
    run.evaluations += nsteps
    run.distinct += len(seen)


def replay(rp, stage):
    exe = core.build("x_ptr", "asan")
    req = (rp.get("replay") or {}).get("req")
    req["id"] = 0
    rep = execdrv.run_requests(exe, "asan", [req]).get(0, {"abnormal": "no-reply"})
    found = judge_request(req, rep, {})
    for sig, detail in found:
        print("replayed: %s %s" % (sig, json.dumps(detail)[:1500]))
    if any(sig == rp["signature"] for sig, _ in found):
        print("VIOLATION property=%s replay reproduces %s" % (rp.get("property"), rp["signature"]))
        return 1
    print("replay: signature %s did not reproduce" % rp["signature"])
    return 0
