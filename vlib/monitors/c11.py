"""C11: JSON Schema validation verdicts.
Recorded-log monitor. The real library (exec driver x_schema, ASan+UBSan) compiles each schema and reports for every
instance the verdicts of is_valid, validate(reporter), throwing validate, a second is_valid and the (keyword, location)
pairs visited by walk. Offline the log is judged by
 (0) the official JSON-Schema-Test-Suite (mandatory files under /repo/test): expected verdicts, used both as an oracle
     and as the ADMISSION step: a keyword is generated for a dialect only if the reference validator AND jsoncons
     reproduce every expected verdict of that keyword's suite files (run_suite, keyword_files);
 (a) a reference differential against python-jsonschema 4.26 (format assertion off) on generated schemas restricted to the
     admitted, unambiguous core vocabulary; every schema passes the reference's check_schema for its dialect; mismatches are
     shrunk (schema and instance, shrink_all) before they are classified and reported;
 (b) model-free agreement laws on every case, including an 'extended' vocabulary that is never judged by (a):
     is_valid <=> no message <=> no throw, same verdict on re-use, verdict invariant under permutation of object
     members (json vs ojson), under evaluation options that must not matter, and under allOf:[S], not:{not:S},
     anyOf:[S,false] (schemas without unevaluated*); locations reported by walk and by messages resolve in the instance (RFC 6901).

Left out of the judged vocabulary (reasons):
  * integer-valued floats (1.0) in draft 4 instances: whether 1.0 is an 'integer' there is an optional test of the suite;
  * numbers outside +-2^53, non-integer multipleOf: precision is implementation-defined;
  * '.' in patterns together with non-ASCII subjects: ECMA-262 non-unicode mode vs code points is not prescribed;
  * 2019-09 'contains' in a schema that also uses unevaluatedItems: the reference applies the 2020-12 rule (contains marks items);
  * 2019-09 schema-valued additionalProperties / unevaluatedProperties in a schema that uses unevaluatedProperties: the reference
    (_legacy_keywords.find_evaluated_property_keys_by_schema) reads such a value as if it were a 'properties' map; jsoncons is
    right there (observed: {"additionalProperties":{},"unevaluatedProperties":false} on {"m~n":{}} is valid by the specification);
  * format, content*, $recursiveRef/$dynamicRef, 'dependencies'/'definitions' in 2019-09+ (compatibility_mode), remote and
    $id-relative references: only the agreement laws are applied;
  * an unguarded reference cycle ({"$ref":"#"}): the library recurses without bound (recorded finding of C05); never generated
    (definitions are ranked, in-place applicators only reference lower ranks; ref_problem() re-checks every document).
Signatures name a root cause, not a dialect/keyword combination: recognised causes get one fixed signature each
(classify()); an unrecognised reference disagreement keeps dialect + coarse keyword set + direction.
Open (known, unrepaired) root causes live in OPEN_ROOT_CAUSES: a predicate over (schema, instance) takes the cases of the
known-bad class out of the law concerned (counted as not_judged.known.<id>, everything else is still judged), and 1-3 fixed
witnesses per cause are executed on every run and reported under schema/witness/<id> while the library still misbehaves.
A request that trips the driver's 60 s no-progress watchdog is re-executed one instance at a time (recursive schemas cost time
exponential in the depth of the instance); only a single small instance that still exceeds it is reported as a hang."""
import json, random, os, re, glob, copy, time, hashlib, warnings, multiprocessing
from .. import core, execdrv

try:
    import jsonschema as _js
    from jsonschema import exceptions as _jsx
except Exception:                                        # pragma: no cover
    _js = None

SUITE = os.path.join(core.REPO, "test", "jsonschema", "JSON-Schema-Test-Suite", "tests")

DIALECTS = {
    "draft4": dict(n=4, uri="http://json-schema.org/draft-04/schema#", cls="Draft4Validator", dir="draft4"),
    "draft6": dict(n=6, uri="http://json-schema.org/draft-06/schema#", cls="Draft6Validator", dir="draft6"),
    "draft7": dict(n=7, uri="http://json-schema.org/draft-07/schema#", cls="Draft7Validator", dir="draft7"),
    "2019-09": dict(n=2019, uri="https://json-schema.org/draft/2019-09/schema", cls="Draft201909Validator", dir="draft2019-09"),
    "2020-12": dict(n=2020, uri="https://json-schema.org/draft/2020-12/schema", cls="Draft202012Validator", dir="draft2020-12"),
}
DKEYS = list(DIALECTS)


def validator_class(dialect):
    return getattr(_js, DIALECTS[dialect]["cls"])


def dumps(v, ascii_=True):
    return json.dumps(v, ensure_ascii=ascii_, separators=(",", ":"))


# ------------------------------------------------------------------------------------------------ schema structure
SCHEMA_VALUED = ("additionalProperties", "additionalItems", "contains", "not", "if", "then", "else", "propertyNames",
                 "unevaluatedItems", "unevaluatedProperties")
SCHEMA_LISTS = ("allOf", "anyOf", "oneOf", "prefixItems")
SCHEMA_MAPS = ("properties", "patternProperties", "definitions", "$defs", "dependentSchemas", "dependencies")
# positions that apply the subschema to the SAME instance (a reference cycle through these alone never terminates)
INPLACE_VALUED = ("not", "if", "then", "else")
INPLACE_LISTS = ("allOf", "anyOf", "oneOf")
INPLACE_MAPS = ("dependentSchemas", "dependencies")
REF_KEYS = ("$ref", "$recursiveRef", "$dynamicRef")


def is_schema(x):
    return isinstance(x, (dict, bool))


def children(S):
    """(keyword, key/index/None, subschema) of a schema object, by keyword semantics."""
    if not isinstance(S, dict):
        return
    for k, v in S.items():
        if k in SCHEMA_VALUED and is_schema(v):
            yield k, None, v
        elif k == "items":
            if is_schema(v):
                yield k, None, v
            elif isinstance(v, list):
                for i, e in enumerate(v):
                    if is_schema(e):
                        yield k, i, e
        elif k in SCHEMA_LISTS and isinstance(v, list):
            for i, e in enumerate(v):
                if is_schema(e):
                    yield k, i, e
        elif k in SCHEMA_MAPS and isinstance(v, dict):
            for kk, e in v.items():
                if is_schema(e):
                    yield k, kk, e


def all_schemas(S):
    out = []
    stack = [S]
    while stack:
        x = stack.pop()
        out.append(x)
        for _, _, e in children(x):
            stack.append(e)
    return out


def keywords_of(S):
    ks = set()
    for x in all_schemas(S):
        if isinstance(x, dict):
            ks.update(x.keys())
    ks.discard("$schema")
    return ks


def ptr_unescape(t):
    return t.replace("~1", "/").replace("~0", "~")


def ptr_escape(t):
    return t.replace("~", "~0").replace("/", "~1")


def resolve_pointer(doc, ptr):
    """RFC 6901 evaluation; returns (True, value) or (False, None)."""
    if ptr == "":
        return True, doc
    if not ptr.startswith("/"):
        return False, None
    cur = doc
    for tok in ptr[1:].split("/"):
        tok = ptr_unescape(tok)
        if isinstance(cur, dict):
            if tok not in cur:
                return False, None
            cur = cur[tok]
        elif isinstance(cur, list):
            if not re.fullmatch(r"0|[1-9][0-9]*", tok) or int(tok) >= len(cur):
                return False, None
            cur = cur[int(tok)]
        else:
            return False, None
    return True, cur


def resolve_ref(root, ref):
    """Local references only: '#', '#/json/pointer', '#anchor' ($anchor, or $id/id '#anchor' before 2019-09)."""
    if not isinstance(ref, str) or not ref.startswith("#"):
        return None
    if ref == "#":
        return root
    if ref.startswith("#/"):
        ok, v = resolve_pointer(root, ref[1:])
        return v if ok and is_schema(v) else None
    name = ref[1:]
    for x in all_schemas(root):
        if isinstance(x, dict) and (x.get("$anchor") == name or x.get("$dynamicAnchor") == name or x.get("$id") == ref or x.get("id") == ref):
            return x
    return None


def ref_problem(root, n):
    """'' when every reference resolves locally and no reference cycle runs through in-place applicators only."""
    nodes = [x for x in all_schemas(root) if isinstance(x, dict)]
    edges = {}
    for x in nodes:
        out = []
        for rk in REF_KEYS:
            if rk in x:
                t = root if rk in ("$recursiveRef", "$dynamicRef") and x[rk] == "#" else resolve_ref(root, x[rk])
                if t is None:
                    return "dangling"
                if isinstance(t, dict):
                    out.append(t)
        if "$ref" in x and n <= 7:
            edges[id(x)] = out                       # siblings of $ref are ignored before 2019-09
            continue
        for k, _, e in children(x):
            if isinstance(e, dict) and (k in INPLACE_VALUED or k in INPLACE_LISTS or k in INPLACE_MAPS):
                out.append(e)
        edges[id(x)] = out
    state = {}

    def dfs(x):
        state[id(x)] = 1
        for y in edges.get(id(x), ()):
            s = state.get(id(y), 0)
            if s == 1 or (s == 0 and dfs(y)):
                return True
        state[id(x)] = 2
        return False
    for x in nodes:
        if state.get(id(x), 0) == 0 and dfs(x):
            return "unguarded-cycle"
    return ""


def permute(v, pseed, salt="", flip=False):
    """Same value with the members of every object in another order (arrays keep their order). The position of a member depends on
    (pseed, name) only, so that removing or hoisting parts while shrinking does not reshuffle the rest; instance objects (salt 'I') get the
    reverse of the order schema objects (salt 'S') get, so that an object with two or more members never appears in the same order on
    both sides; an array item that equals an earlier item of the same array (as a JSON value) is written in the opposite order of that one."""
    if isinstance(v, dict):
        ks = sorted(v.keys(), key=lambda k: hashlib.blake2b(("%d\0%s" % (pseed, k)).encode("utf-8", "surrogatepass"), digest_size=8).digest(),
                    reverse=(salt == "I") != flip)
        return {k: permute(v[k], pseed, salt, flip) for k in ks}
    if isinstance(v, list):
        out, seen = [], set()
        for e in v:
            key = json.dumps(e, sort_keys=True) if (salt == "I" and isinstance(e, (dict, list))) else None
            out.append(permute(e, pseed, salt, flip != (key in seen) if key is not None else flip))
            if key is not None:
                seen.add(key)
        return out
    return v


# ------------------------------------------------------------------------------------------------ reference side
def ref_check_schema(dialect, schema):
    """'' | 'bad_schema' | 'reference_error'"""
    V = validator_class(dialect)
    try:
        with warnings.catch_warnings():
            warnings.simplefilter("ignore")
            V.check_schema(schema)
        return ""
    except _jsx.SchemaError:
        return "bad_schema"
    except Exception:
        return "reference_error"


def ref_verdicts(dialect, schema, instances):
    """list of True/False/None (None: the reference raised)."""
    V = validator_class(dialect)
    out = []
    try:
        with warnings.catch_warnings():
            warnings.simplefilter("ignore")
            val = V(schema)
    except Exception:
        return [None] * len(instances)
    for inst in instances:
        try:
            with warnings.catch_warnings():
                warnings.simplefilter("ignore")
                out.append(bool(val.is_valid(inst)))
        except BaseException as e:                       # RecursionError, referencing errors, ...
            if isinstance(e, (KeyboardInterrupt, SystemExit)):
                raise
            out.append(None)
    return out


def ref_sub_verdicts(dialect, root, sub, instances):
    """verdicts of a subschema of 'root' (references keep resolving against root)"""
    out = []
    try:
        val = validator_class(dialect)(root).evolve(schema=sub)
    except Exception:
        return [None] * len(instances)
    for inst in instances:
        try:
            with warnings.catch_warnings():
                warnings.simplefilter("ignore")
                out.append(bool(val.is_valid(inst)))
        except Exception:
            out.append(None)
    return out


# ------------------------------------------------------------------------------------------------ official suite / admission
def keyword_files(n):
    """generated keyword -> suite files whose expected verdicts both validators must reproduce before it is generated."""
    m = {k: [k + ".json"] for k in ("type", "enum", "minimum", "maximum", "multipleOf", "minLength", "maxLength", "pattern", "items",
                                    "minItems", "maxItems", "uniqueItems", "properties", "patternProperties", "additionalProperties",
                                    "required", "minProperties", "maxProperties", "allOf", "anyOf", "oneOf", "not")}
    m["$ref"] = ["ref.json", "definitions.json" if n <= 7 else "defs.json"]
    m["anchor"] = ["ref.json"] if n <= 7 else ["anchor.json"]      # before 2019-09 plain-name fragments ($id:"#x") are tested in ref.json
    if n == 4:
        m["exclusiveMinimum"] = ["minimum.json"]                   # boolean form, tested next to minimum/maximum
        m["exclusiveMaximum"] = ["maximum.json"]
    if n <= 2019:
        m["additionalItems"] = ["additionalItems.json"]
    if n >= 6:
        for k in ("const", "exclusiveMinimum", "exclusiveMaximum", "contains", "propertyNames"):
            m[k] = [k + ".json"]
        m["boolean"] = ["boolean_schema.json"]
    if n <= 7:
        m["dependencies"] = ["dependencies.json"]
    if n >= 7:
        m["if"] = ["if-then-else.json"]
    if n >= 2019:
        for k in ("dependentRequired", "dependentSchemas", "minContains", "maxContains", "unevaluatedProperties", "unevaluatedItems"):
            m[k] = [k + ".json"]
    if n == 2020:
        m["prefixItems"] = ["prefixItems.json"]
    return m


def load_suite_file(path):
    """(groups, how): strict Python json only; a file it cannot read is skipped for admission ('lenient' = readable once
    /* */ comments are removed: still executed as an oracle, and accepted for admission only together with the strict files)."""
    def bad(c):
        raise ValueError(c)
    with open(path, encoding="utf-8") as fh:
        txt = fh.read()
    try:
        return json.loads(txt, parse_constant=bad), "strict"
    except ValueError:
        pass
    try:
        return json.loads(re.sub(r"/\*.*?\*/", "", txt, flags=re.S), parse_constant=bad), "lenient"
    except ValueError:
        return None, "unreadable"


def _suite_ref_job(job):
    dialect, schema, datas = job
    if ref_check_schema(dialect, schema):
        return None
    return ref_verdicts(dialect, schema, datas)


def run_suite(run, stage, exe, pool):
    """Executes the mandatory suite files of the five dialects on both sides. Returns admitted[dialect] = set of keywords."""
    groups = []
    for dk, d in DIALECTS.items():
        for f in sorted(glob.glob(os.path.join(SUITE, d["dir"], "*.json"))):
            base = os.path.basename(f)
            if base == "refRemote.json":
                continue                                  # needs the suite's HTTP remotes
            gs, how = load_suite_file(f)
            if gs is None:
                run.count("%s.suite.files_unreadable" % stage["name"])
                continue
            for g in gs:
                if isinstance(g, dict) and "schema" in g and g.get("tests"):
                    groups.append((dk, base, how, g))
    reqs = []
    for i, (dk, base, how, g) in enumerate(groups):
        reqs.append({"id": i, "schema": dumps(g["schema"]), "instances": [dumps(t["data"]) for t in g["tests"]], "policy": "json",
                     "default_version": DIALECTS[dk]["uri"]})
    refs = pool.map(_suite_ref_job, [(dk, g["schema"], [t["data"] for t in g["tests"]]) for dk, _, _, g in groups], chunksize=20)
    reps = execdrv.run_requests(exe, "asan", reqs)
    file_ok = {}                                          # (dialect, file) -> both sides reproduce everything that could be run
    for i, (dk, base, how, g) in enumerate(groups):
        key = (dk, base)
        file_ok.setdefault(key, True)
        rep = reps.get(i, {"abnormal": "no-reply"})
        rv = refs[i]
        if "abnormal" in rep:
            file_ok[key] = False
            run.add_violation("schema/test-suite/%s/abnormal/%s" % (dk, rep["abnormal"]), {"file": base, "group": g["description"], "schema": reqs[i]["schema"][:600], "stderr": rep.get("stderr", "")[-1500:]},
                              stage=stage["name"], case=i, replay={"kind": "suite", "req": reqs[i]})
            continue
        if "compile_error" in rep and "load JSON Schema" in rep["compile_error"] or "Unsupported schema version http://localhost" in rep.get("compile_error", ""):
            run.count("%s.suite.groups_needing_remote_skipped" % stage["name"])
            continue
        if rv is None:
            run.count("%s.suite.groups_reference_refuses_schema" % stage["name"])
            file_ok[key] = False
            continue
        results = rep.get("results")
        for ti, t in enumerate(g["tests"]):
            exp = t["valid"]
            if rv[ti] is not exp:
                file_ok[key] = False
                run.count("%s.suite.reference_deviates_from_expected" % stage["name"])
                continue                                  # single oracle only: not judged
            run.evaluations += 1
            run.count("%s.suite.verdicts_judged" % stage["name"])
            got = results[ti]["v"] if results is not None else None
            if got is not exp:
                file_ok[key] = False
                run.add_violation("schema/test-suite/%s/%s" % (dk, base[:-5]),
                                  {"file": base, "group": g["description"], "test": t["description"], "dialect": dk, "schema": g["schema"], "instance": t["data"],
                                   "expected": exp, "jsoncons": got if results is not None else {k: v for k, v in rep.items() if k != "id"}, "reference": rv[ti]},
                                  stage=stage["name"], case=i, replay={"kind": "suite", "req": reqs[i], "expected": [x["valid"] for x in g["tests"]]})
    admitted = {}
    how_of = {(dk, base): how for dk, base, how, _ in groups}
    for dk, d in DIALECTS.items():
        adm = set()
        for kw, files in keyword_files(d["n"]).items():
            ok = all(file_ok.get((dk, f), False) for f in files)
            if ok and any(how_of.get((dk, f)) != "strict" for f in files):
                # a file strict json cannot read (draft7/ref.json carries a /* */ comment) does not count by itself: require the
                # same keyword to be admitted from the strict files of the neighbouring dialect (draft 6: same $ref semantics)
                ok = dk == "draft7" and all(file_ok.get(("draft6", f), False) and how_of.get(("draft6", f)) == "strict" for f in files)
                run.count("%s.suite.keywords_admitted_via_lenient_file" % stage["name"], 1 if ok else 0)
            if ok:
                adm.add(kw)
            else:
                run.count("%s.suite.not_admitted.%s.%s" % (stage["name"], dk, kw))
        admitted[dk] = adm
        run.count("%s.suite.keywords_admitted.%s" % (stage["name"], dk), len(adm))
    run.count("%s.suite.groups" % stage["name"], len(groups))
    return admitted


# ------------------------------------------------------------------------------------------------ schema generator
TYPES = ["null", "boolean", "integer", "number", "string", "array", "object"]
NAMES_ASCII = ["a", "b", "c", "d", "ab", "a/b", "m~n", ""]
NAMES_WIDE = ["é", "\U0001F600x"]
DEF_NAMES = ["A", "B", "C", "x/y", "t~q"]
PATTERNS = ["^a", "b$", "^[a-c]$", "^[a-z]+$", "c*d", "^ab?$", "x", "^a[a-z]*z$", "ab+", "^$"]
PATTERNS_DOT = ["a.b", "^.$", "^..?$", ".+", "^a.*z$"]
PATTERNS_EXT = ["^\\d+$", "^(a|b)c$", "^a{2,3}$", "\\w+", "[^a]", "^\\S*$", "^(?:ab)+$", "\\u00e9", "^\\p{L}$"]
STR_POOL = ["", "a", "b", "ab", "abc", "abb", "d", "cd", "ccd", "x", "az", "amz", "a b", "zzz", "aXz", "A", "abcd", "bbbbb"]
STR_WIDE = ["é", "\U0001F600", "a\U0001F600", "€€", "\U0001F600\U0001F600", "ééé", "aéz"]
FORMATS = ["ipv4", "date", "email", "uri", "date-time", "regex", "json-pointer", "unknown-format"]


class Ctx:
    def __init__(self, rng, dialect, admitted, ext):
        self.rng, self.dialect, self.n, self.adm, self.ext = rng, dialect, DIALECTS[dialect]["n"], admitted, ext
        self.dot = rng.random() < 0.25                   # '.' in patterns <=> every string of the case stays ASCII
        self.wide = not self.dot or ext
        self.intfloat = self.n >= 6 or ext               # 1.0-style numbers
        # 2019-09: 'contains' and 'unevaluatedItems' never meet in one judged schema (reference applies the 2020-12 rule)
        self.arr_mode = rng.choice(["contains", "uneval"]) if (self.n == 2019 and not ext) else "both"
        self.defs = []                                   # names of the definitions; index = rank for in-place references
        self.cur = 0                                     # rank of the definition being generated (len(defs) = root)
        self.anchors = {}                                # def name -> anchor name
        # 2019-09 reference (python-jsonschema _legacy_keywords.find_evaluated_property_keys_by_schema) reads an object-valued
        # additionalProperties / unevaluatedProperties as if it were a 'properties' map: wrong by the specification, so a judged
        # 2019-09 schema either uses unevaluatedProperties (then both keywords are boolean-valued) or schema-valued additionalProperties
        self.uneval_props = rng.random() < 0.6 if (self.n == 2019 and not ext) else True
        self.bool_ap = self.n == 2019 and not ext and self.uneval_props

    def ok(self, kw):
        return kw in self.adm or self.ext

    def names(self):
        return NAMES_ASCII + (NAMES_WIDE if self.wide else [])

    def strings(self):
        return STR_POOL + (STR_WIDE if self.wide else [])


def g_number(c, small=False):
    r = c.rng
    k = r.random()
    if k < 0.7:
        return r.randrange(-2, 7)
    if k < 0.85:
        return r.randrange(-2, 7) + 0.5
    if k < 0.93 and c.intfloat:
        return float(r.randrange(-2, 7))
    if c.ext and r.random() < 0.5:
        return r.choice([9007199254740993, -9007199254740993, 18446744073709551616, 1e300, 0.1, 1e-7, 123456789012345678901234567890])
    return r.choice([10, 100, -10, 2147483648, 4503599627370496])


def g_value(c, depth=2):
    """free JSON value from a small universe (so that enum/const/uniqueItems collide often)"""
    r = c.rng
    k = r.randrange(11 if depth > 0 else 8)
    if k == 0:
        return None
    if k == 1:
        return r.random() < 0.5
    if k in (2, 3):
        return g_number(c)
    if k in (4, 5):
        return r.choice(c.strings())
    if k == 6:
        if r.random() < 0.12:
            # adjacent integers beyond 2^53 (distinct values that round to the same double): enum/const/uniqueItems compare exactly
            b = r.choice([2 ** 53, 2 ** 60, 2 ** 63 - 2, 2 ** 63, 2 ** 64 - 2, -2 ** 53 - 1, -2 ** 63])
            return b + r.randrange(0, 2)
        return r.choice([0, 1, True, False, "1", "0", [], {}])
    if k == 7:
        return r.choice([[1], [True], [0], [False], {"a": 1}, {"a": True}, {"a": [1]}, [[1]], ["a"], {"a": None}, {"a": 1, "b": 2}])
    if k in (8, 9):
        return [g_value(c, depth - 1) for _ in range(r.randrange(0, 4))]
    return {nm: g_value(c, depth - 1) for nm in r.sample(c.names(), r.randrange(0, 4))}


def g_pattern(c):
    r = c.rng
    if c.ext and r.random() < 0.3:
        return r.choice(PATTERNS_EXT)
    if c.dot and r.random() < 0.6:
        return r.choice(PATTERNS_DOT)
    return r.choice(PATTERNS)


def k_type(c, S, hint=None):
    r = c.rng
    if not c.ok("type"):
        return
    tmap = {"number": ["integer", "number"], "string": ["string"], "array": ["array"], "object": ["object"]}
    if hint in tmap and r.random() < 0.7:
        t = r.choice(tmap[hint])
        S["type"] = t if r.random() < 0.7 else sorted(set([t, r.choice(TYPES)]))
    elif r.random() < 0.6:
        S["type"] = r.choice(TYPES)
    else:
        S["type"] = r.sample(TYPES, r.randrange(1, 4))


def k_enum(c, S):
    r = c.rng
    if c.n >= 6 and c.ok("const") and r.random() < 0.4:
        S["const"] = g_value(c, 1)
    elif c.ok("enum"):
        vals = []
        for _ in range(r.randrange(1, 5)):
            v = g_value(c, 1)
            if not any(type(v) == type(w) and v == w for w in vals):
                vals.append(v)
        S["enum"] = vals


def k_num(c, S):
    r = c.rng
    lo = r.randrange(-2, 5)
    hi = lo + r.randrange(0, 5)
    wide = r.random() < 0.08
    if wide:
        # integer bounds around the 32/53/63/64-bit limits: integer-versus-integer comparison is exact in the specification and in the
        # reference (Python int); everything stays inside [-2^63, 2^64-1] so that both sides are native integers in jsoncons
        base = r.choice([2 ** 31, 2 ** 32, 2 ** 53, 2 ** 63 - 4, 2 ** 63, 2 ** 64 - 6, -2 ** 63 + 3, -2 ** 31, -2 ** 53])
        lo = base + r.randrange(-2, 3)
        hi = min(lo + r.randrange(0, 3), 2 ** 64 - 1)
        lo = max(lo, -2 ** 63)
    elif r.random() < 0.15:
        lo, hi = lo + 0.5, hi + 0.5
    for _ in range(r.randrange(1, 4)):
        k = r.randrange(5)
        if k == 0 and c.ok("minimum"):
            S["minimum"] = lo
        elif k == 1 and c.ok("maximum"):
            S["maximum"] = hi
        elif k == 2 and c.ok("exclusiveMinimum"):
            if c.n == 4:
                if c.ok("minimum"):
                    S["minimum"] = lo
                    S["exclusiveMinimum"] = r.random() < 0.8
            else:
                S["exclusiveMinimum"] = lo
        elif k == 3 and c.ok("exclusiveMaximum"):
            if c.n == 4:
                if c.ok("maximum"):
                    S["maximum"] = hi
                    S["exclusiveMaximum"] = r.random() < 0.8
            else:
                S["exclusiveMaximum"] = hi
        elif k == 4 and c.ok("multipleOf") and not wide:
            S["multipleOf"] = r.choice([1, 2, 2, 3, 5]) if not (c.ext and r.random() < 0.4) else r.choice([0.1, 0.01, 1.5, 0.5, 1e-8])


def k_str(c, S):
    r = c.rng
    a = r.randrange(0, 4)
    for _ in range(r.randrange(1, 3)):
        k = r.randrange(3)
        if k == 0 and c.ok("minLength"):
            S["minLength"] = a
        elif k == 1 and c.ok("maxLength"):
            S["maxLength"] = a + r.randrange(0, 3)
        elif k == 2 and c.ok("pattern"):
            S["pattern"] = g_pattern(c)
    if c.ext and r.random() < 0.3:
        S["format"] = r.choice(FORMATS)
    if c.ext and c.n >= 7 and r.random() < 0.1:
        S["contentEncoding"] = "base64"
        S["contentMediaType"] = "application/json"


def k_arr(c, S, depth):
    r = c.rng
    sub = lambda: g_schema(c, depth - 1, True)
    form = r.randrange(4)
    if form == 0 and c.ok("items"):
        S["items"] = sub()
    elif form == 1:
        if c.n == 2020:
            if c.ok("prefixItems"):
                S["prefixItems"] = [sub() for _ in range(r.randrange(1, 3))]
                if r.random() < 0.6 and c.ok("items"):
                    S["items"] = sub() if r.random() < 0.6 else False
        else:
            if c.ok("items") and r.random() < 0.85:
                S["items"] = [sub() for _ in range(r.randrange(1, 3))]
            if c.ok("additionalItems") and r.random() < 0.6:         # also alone: ignored without tuple-form items
                S["additionalItems"] = (r.random() < 0.4) if (c.n == 4 or r.random() < 0.5) else sub()
                if S["additionalItems"] is True and r.random() < 0.5:
                    S["additionalItems"] = False
    n0 = r.randrange(0, 4)
    if r.random() < 0.35 and c.ok("minItems"):
        S["minItems"] = n0
    if r.random() < 0.35 and c.ok("maxItems"):
        S["maxItems"] = n0 + r.randrange(0, 3)
    if r.random() < 0.3 and c.ok("uniqueItems"):
        S["uniqueItems"] = r.random() < 0.85
    if c.n >= 6 and c.ok("contains") and c.arr_mode != "uneval" and r.random() < 0.3:
        S["contains"] = g_schema(c, depth - 1, True, "array") if (c.n == 2020 and r.random() < 0.4) else sub()   # arrays inside arrays: whose items are evaluated?
        if c.n >= 2019:
            if c.ok("minContains") and r.random() < 0.4:
                S["minContains"] = r.randrange(0, 3)
            if c.ok("maxContains") and r.random() < 0.4:
                S["maxContains"] = S.get("minContains", 1) + r.randrange(0, 2)
    if c.n >= 2019 and c.ok("unevaluatedItems") and c.arr_mode != "contains" and r.random() < 0.35:
        S["unevaluatedItems"] = False if r.random() < 0.6 else sub()


def k_obj(c, S, depth):
    r = c.rng
    sub = lambda: g_schema(c, depth - 1, True)
    nms = c.names()
    if r.random() < 0.7 and c.ok("properties"):
        S["properties"] = {nm: sub() for nm in r.sample(nms, r.randrange(1, 4))}
    if r.random() < 0.25 and c.ok("patternProperties"):
        S["patternProperties"] = {g_pattern(c): sub() for _ in range(r.randrange(1, 3))}
    if r.random() < 0.35 and c.ok("additionalProperties"):
        S["additionalProperties"] = (r.random() < 0.3) if (c.n == 4 or c.bool_ap or r.random() < 0.6) else sub()
    if r.random() < 0.4 and c.ok("required"):
        req = r.sample(nms, r.randrange(1, 3))
        if "properties" in S and r.random() < 0.7:
            req = r.sample(list(S["properties"]), r.randrange(1, len(S["properties"]) + 1))
        S["required"] = req
    n0 = r.randrange(0, 3)
    if r.random() < 0.2 and c.ok("minProperties"):
        S["minProperties"] = n0
    if r.random() < 0.2 and c.ok("maxProperties"):
        S["maxProperties"] = n0 + r.randrange(0, 3)
    if c.n >= 6 and r.random() < 0.15 and c.ok("propertyNames"):
        P = {}
        k = r.randrange(4)
        if k == 0 and c.ok("pattern"):
            P["pattern"] = g_pattern(c)
        elif k == 1 and c.ok("maxLength"):
            P["maxLength"] = r.randrange(0, 3)
        elif k == 2 and c.ok("enum"):
            P["enum"] = r.sample(nms, r.randrange(1, 4))
        else:
            P = sub()
        S["propertyNames"] = P
    if r.random() < 0.2:
        deps_s = {nm: g_schema(c, depth - 1, False, "object") for nm in r.sample(nms, r.randrange(1, 3))}
        deps_r = {nm: r.sample(nms, r.randrange(1, 3)) for nm in r.sample(nms, r.randrange(1, 3))}
        if c.n <= 7 or (c.ext and r.random() < 0.3):
            if c.ok("dependencies"):
                d = dict(deps_r) if r.random() < 0.5 else dict(deps_s)
                if r.random() < 0.3:
                    d.update(deps_s)
                S["dependencies"] = d
        else:
            if r.random() < 0.5 and c.ok("dependentRequired"):
                S["dependentRequired"] = deps_r
            elif c.ok("dependentSchemas"):
                S["dependentSchemas"] = deps_s
    if c.n >= 2019 and c.ok("unevaluatedProperties") and c.uneval_props and r.random() < 0.35:
        S["unevaluatedProperties"] = False if r.random() < 0.65 else (True if c.bool_ap else sub())


def k_comb(c, S, depth, hint):
    r = c.rng
    h = hint if r.random() < 0.8 else None
    sub = lambda: g_schema(c, depth - 1, False, h)
    k = r.randrange(6)
    if set(S) & set(UNEVAL) and r.random() < 0.35:
        k = 3                                             # 'not' beside unevaluated*: its annotations must not be seen
    if k == 0 and c.ok("allOf"):
        S["allOf"] = [sub() for _ in range(r.randrange(1, 4))]
    elif k == 1 and c.ok("anyOf"):
        S["anyOf"] = [sub() for _ in range(r.randrange(1, 4))]
    elif k == 2 and c.ok("oneOf"):
        S["oneOf"] = [sub() for _ in range(r.randrange(1, 4))]
    elif k == 3 and c.ok("not"):
        S["not"] = sub()
    elif c.n >= 7 and c.ok("if"):
        parts = r.choice([("if", "then", "else"), ("if", "then"), ("if", "else"), ("if",), ("then", "else"), ("if", "then", "else")])
        for p in parts:
            S[p] = sub()
    elif c.ok("anyOf"):
        S["anyOf"] = [sub() for _ in range(r.randrange(1, 3))]


def k_ref(c, S, guarded):
    """reference to a definition / anchor / the root; in-place positions may only point to definitions of lower rank."""
    r = c.rng
    if not c.ok("$ref"):
        return False
    cands = list(range(len(c.defs))) if guarded else list(range(min(c.cur, len(c.defs))))
    opts = [("def", i) for i in cands]
    if guarded:
        opts.append(("root", None))
    if not opts:
        return False
    kind, i = r.choice(opts)
    if kind == "root":
        if c.ext and c.n == 2019 and r.random() < 0.3:
            S["$recursiveRef"] = "#"
        elif c.ext and c.n == 2020 and r.random() < 0.3:
            S["$dynamicRef"] = "#"
        else:
            S["$ref"] = "#"
        return True
    nm = c.defs[i]
    if nm in c.anchors and r.random() < 0.5:
        S["$ref"] = "#" + c.anchors[nm]
    else:
        S["$ref"] = "#/%s/%s" % ("definitions" if c.n <= 7 else "$defs", ptr_escape(nm))
    return True


def g_leaf(c, S, hint):
    r = c.rng
    k = hint if (hint in ("number", "string") and r.random() < 0.6) else r.choice(["type", "type", "enum", "number", "string", "misc"])
    if k == "type":
        k_type(c, S, hint)
    elif k == "enum":
        k_enum(c, S)
    elif k == "number":
        k_num(c, S)
        if r.random() < 0.4:
            k_type(c, S, "number")
    elif k == "string":
        k_str(c, S)
        if r.random() < 0.3:
            k_type(c, S, "string")
    else:
        if r.random() < 0.5 and c.ok("required"):
            S["required"] = r.sample(c.names(), r.randrange(1, 3))
        elif c.ok("minItems"):
            S[r.choice(["minItems", "maxItems"])] = r.randrange(0, 3)


def g_schema(c, depth, guarded, hint=None):
    r = c.rng
    if c.n >= 6 and c.ok("boolean") and r.random() < (0.2 if depth <= 0 else 0.05):
        return r.random() < 0.65
    if c.n >= 2019 and r.random() < 0.05:
        # a subschema that consists of nothing but an unevaluated* keyword (it still constrains: everything is unevaluated there)
        if r.random() < 0.5 and c.ok("unevaluatedProperties") and c.uneval_props:
            B = {"unevaluatedProperties": False if (r.random() < 0.7 or depth <= 0) else (True if c.bool_ap else g_schema(c, depth - 1, True))}
        elif c.ok("unevaluatedItems") and c.arr_mode != "contains":
            B = {"unevaluatedItems": False if (r.random() < 0.7 or depth <= 0) else g_schema(c, depth - 1, True)}
        else:
            B = None
        if B is not None:
            if r.random() < 0.2:
                B["title"] = "t"
            return B
    S = {}
    if r.random() < 0.06:
        ak = r.choice(["title", "description", "default", "x-unknown"] + (["$comment"] if c.n >= 7 else []))
        S[ak] = r.choice(["t", 1, None, [], {"a": 1}]) if ak in ("default", "x-unknown") else r.choice(["t", "x"])
    if depth <= 0:
        if r.random() < 0.25 and k_ref(c, S, guarded):
            if c.n >= 2019 and r.random() < 0.3:
                g_leaf(c, S, hint)
            return S
        g_leaf(c, S, hint)
        return S
    focus = hint if (hint and r.random() < 0.65) else r.choice(["object", "object", "array", "array", "number", "string", "comb", "comb", "ref", "leaf"])
    if focus == "object":
        k_obj(c, S, depth)
        if r.random() < 0.3:
            k_type(c, S, "object")
    elif focus == "array":
        k_arr(c, S, depth)
        if r.random() < 0.3:
            k_type(c, S, "array")
    elif focus in ("number", "string", "leaf"):
        g_leaf(c, S, focus)
        if r.random() < 0.3:
            g_leaf(c, S, focus)
    elif focus == "ref":
        if not k_ref(c, S, guarded):
            g_leaf(c, S, hint)
        elif r.random() < 0.5:                            # siblings: ignored before 2019-09, applied from 2019-09
            g_leaf(c, S, hint)
            if r.random() < 0.4:
                k_obj(c, S, depth - 1)
    if focus == "comb" or r.random() < (0.7 if (set(S) & set(UNEVAL)) else 0.3):      # applicators next to unevaluated*: annotation traffic
        k_comb(c, S, depth, focus if focus in ("object", "array", "number", "string") else hint)
        if r.random() < 0.3:
            k_comb(c, S, depth, hint)
    if c.n >= 2019 and focus in ("comb", "ref") and r.random() < 0.4:
        if r.random() < 0.6 and c.ok("unevaluatedProperties") and c.uneval_props:
            S.setdefault("unevaluatedProperties", False if r.random() < 0.7 else (True if c.bool_ap else g_schema(c, depth - 1, True)))
        elif c.ok("unevaluatedItems") and c.arr_mode != "contains":
            S.setdefault("unevaluatedItems", False if r.random() < 0.7 else g_schema(c, depth - 1, True))
    if c.ext and r.random() < 0.04 and c.n >= 2019:
        S["$recursiveAnchor" if c.n == 2019 else "$dynamicAnchor"] = True if c.n == 2019 else "dyn"
    return S


def g_motif(c, depth):
    """annotation traffic on purpose: in-place applicators whose subschemas evaluate members/items, next to unevaluated*"""
    r = c.rng
    obj = (r.random() < 0.6 or c.arr_mode == "contains") and c.uneval_props and c.ok("unevaluatedProperties")
    if not obj and (c.arr_mode == "contains" or not c.ok("unevaluatedItems")):
        return None
    hint, u = ("object", "unevaluatedProperties") if obj else ("array", "unevaluatedItems")
    S = {u: False if r.random() < 0.75 else (True if (obj and c.bool_ap) else g_schema(c, depth - 1, True))}
    for _ in range(r.randrange(1, 3)):
        k_comb(c, S, depth, hint)
    if r.random() < 0.4:
        (k_obj if obj else k_arr)(c, S, depth - 1)
    if r.random() < 0.2:
        k_type(c, S, hint)
    return S


def gen_document(rng, dialect, admitted, ext):
    """(root schema document, ctx)"""
    c = Ctx(rng, dialect, admitted, ext)
    ndefs = rng.choice([0, 0, 1, 1, 2, 3]) if c.ok("$ref") else 0
    c.defs = rng.sample(DEF_NAMES, ndefs)
    for i, nm in enumerate(c.defs):
        if c.ok("anchor") and rng.random() < 0.3:
            c.anchors[nm] = "anch" + str(i)
    hint = rng.choice(["object", "object", "array", "number", "string", None, None])
    defs = {}
    for i, nm in enumerate(c.defs):
        c.cur = i
        body = g_schema(c, rng.choice([0, 1, 1, 2]), False, hint if rng.random() < 0.6 else None)
        if nm in c.anchors:
            if isinstance(body, dict) and not (c.n <= 7 and "$ref" in body):
                body[{4: "id", 6: "$id", 7: "$id"}.get(c.n, "$anchor")] = c.anchors[nm] if c.n >= 2019 else "#" + c.anchors[nm]
            else:
                del c.anchors[nm]                        # (references generated so far use the pointer form or are dropped as dangling)
        defs[nm] = body
    c.cur = len(c.defs)
    root = g_motif(c, rng.choice([1, 2, 2])) if (c.n >= 2019 and rng.random() < 0.25) else None
    if root is None:
        root = g_schema(c, rng.choice([1, 2, 2, 3]), False, hint)
    while not isinstance(root, dict) or not root:
        root = g_schema(c, 2, False, hint)
    doc = {"$schema": DIALECTS[dialect]["uri"]}
    doc.update(root)
    if defs:
        doc["definitions" if c.n <= 7 else "$defs"] = defs
    if c.ext and c.n >= 2019 and rng.random() < 0.15 and defs:
        doc["definitions"] = {"Z": {"type": "integer"}}     # compatibility_mode territory
    return doc, c


# ------------------------------------------------------------------------------------------------ instance generator
class Sampler:
    """Schema-directed instances: follows the schema (references, combinators, conditionals) and picks, for every constraint
    it meets, a value just inside or just outside (length n-1/n/n+1, bound-1/bound/bound+1, missing/extra member, duplicate item,
    wrong type). Best effort: the verdict is never taken from here."""

    def __init__(self, c, root):
        self.c, self.r, self.root = c, c.rng, root
        self.budget = 0

    def view(self, S, hops=0):
        """schema object with references followed and one branch of each combinator merged in (shallow)."""
        r = self.r
        if not isinstance(S, dict):
            return S
        V = dict(S)
        for rk in REF_KEYS:
            if rk in V and hops < 4:
                t = self.root if V[rk] == "#" else resolve_ref(self.root, V[rk])
                rest = {} if (rk == "$ref" and self.c.n <= 7) else {k: v for k, v in V.items() if k != rk}
                if isinstance(t, dict):
                    tv = self.view(t, hops + 1)
                    if isinstance(tv, dict):
                        m = dict(tv)
                        m.update(rest)
                        V = m
                    else:
                        V = rest
                else:
                    V = rest
                break
        extra = []
        if isinstance(V.get("allOf"), list) and V["allOf"]:
            extra.extend(V["allOf"] if r.random() < 0.6 else [r.choice(V["allOf"])])
        for k in ("anyOf", "oneOf"):
            if isinstance(V.get(k), list) and V[k] and r.random() < 0.75:
                extra.append(r.choice(V[k]))
        if "if" in V or "then" in V or "else" in V:
            k = r.choice(["then", "else", "if"])
            if k in V:
                extra.append(V[k])
                if k == "then" and "if" in V and r.random() < 0.7:
                    extra.append(V["if"])
        for dk in ("dependentSchemas", "dependencies"):
            if isinstance(V.get(dk), dict) and r.random() < 0.5:
                for nm, e in V[dk].items():
                    if isinstance(e, dict):
                        extra.append(e)
                        V.setdefault("required", [])
                        V["required"] = list(V["required"]) + [nm]
        for e in extra:
            if hops < 4:
                e = self.view(e, hops + 1)
            if isinstance(e, dict):
                for k, v in e.items():
                    if k == "properties" and isinstance(V.get(k), dict) and isinstance(v, dict):
                        m = dict(v)
                        m.update(V[k])
                        V[k] = m
                    elif k == "required" and isinstance(V.get(k), list) and isinstance(v, list):
                        V[k] = list(V[k]) + [x for x in v if x not in V[k]]
                    elif k not in V:
                        V[k] = v
        return V

    def free(self, depth):
        return g_value(self.c, min(depth, 2))

    def number(self, V):
        r = self.r
        cands = []
        for k in ("minimum", "maximum", "exclusiveMinimum", "exclusiveMaximum"):
            b = V.get(k)
            if isinstance(b, int) and not isinstance(b, bool) and abs(b) > 2 ** 52:
                cands += [x for x in (b - 1, b, b, b + 1) if -2 ** 63 <= x <= 2 ** 64 - 1]     # integers only: a float neighbour is not exact there
            elif isinstance(b, (int, float)) and not isinstance(b, bool):
                cands += [b - 1, b, b + 1, b - 0.5, b + 0.5]
        m = V.get("multipleOf")
        if isinstance(m, int) and not isinstance(m, bool) and m > 0:
            cands += [m * r.randrange(-2, 4), m * r.randrange(0, 4) + 1, m * 2 + 0.5, 0]
        if not cands or r.random() < 0.2:
            return g_number(self.c)
        x = r.choice(cands)
        if isinstance(x, float) and x.is_integer():
            x = int(x) if not (self.c.intfloat and r.random() < 0.25) else x
        return x

    def string(self, V):
        r = self.r
        pool = self.c.strings()
        pat = V.get("pattern")
        if isinstance(pat, str) and r.random() < 0.85:
            try:
                rx = re.compile(pat)
                want = r.random() < 0.6
                sel = [s for s in pool if bool(rx.search(s)) == want]
                if sel:
                    pool = sel
            except re.error:
                pass
        lens = []
        for k in ("minLength", "maxLength"):
            b = V.get(k)
            if isinstance(b, int) and not isinstance(b, bool):
                lens += [b - 1, b, b + 1]
        lens = [n for n in lens if n >= 0]
        if lens and r.random() < 0.85:
            n = r.choice(lens)
            sel = [s for s in pool if len(s) == n]
            if sel:
                return r.choice(sel)
            alphabet = ["a", "b", "z"] + (["é", "\U0001F600"] if self.c.wide else [])
            return "".join(r.choice(alphabet) for _ in range(n))
        return r.choice(pool)

    def name_for_pattern(self, pat, want=True):
        try:
            rx = re.compile(pat)
        except re.error:
            return "a"
        sel = [s for s in self.c.names() + STR_POOL if bool(rx.search(s)) == want]
        return self.r.choice(sel) if sel else "a"

    def sub_for_name(self, V, nm):
        props = V.get("properties") if isinstance(V.get("properties"), dict) else {}
        if nm in props:
            return props[nm]
        pp = V.get("patternProperties") if isinstance(V.get("patternProperties"), dict) else {}
        for pat, e in pp.items():
            try:
                if re.search(pat, nm):
                    return e
            except re.error:
                pass
        for k in ("additionalProperties", "unevaluatedProperties"):
            if k in V:
                return V[k]
        return True

    def obj(self, V, depth):
        r = self.r
        props = V.get("properties") if isinstance(V.get("properties"), dict) else {}
        names = []
        req = [x for x in V.get("required", []) if isinstance(x, str)] if isinstance(V.get("required"), list) else []
        for nm in req:
            if nm not in names:
                names.append(nm)
        for nm in props:
            if nm not in names and r.random() < 0.6:
                names.append(nm)
        pp = V.get("patternProperties") if isinstance(V.get("patternProperties"), dict) else {}
        for pat in pp:
            if r.random() < 0.6:
                nm = self.name_for_pattern(pat)
                if nm not in names:
                    names.append(nm)
        pn = V.get("propertyNames")
        for dk in ("dependentRequired", "dependencies"):
            d = V.get(dk)
            if isinstance(d, dict):
                for nm, need in d.items():
                    if r.random() < 0.5 and nm not in names:
                        names.append(nm)
                    if nm in names and isinstance(need, list) and r.random() < 0.7:
                        names += [x for x in need if isinstance(x, str) and x not in names]
        if r.random() < 0.3:                               # one extra member
            nm = r.choice(self.c.names())
            if nm not in names:
                names.append(nm)
        if names and req and r.random() < 0.2:             # one required member removed
            names.remove(r.choice(req))
        if isinstance(pn, dict) and isinstance(pn.get("pattern"), str) and r.random() < 0.5:
            names.append(self.name_for_pattern(pn["pattern"], r.random() < 0.7))
        tgt = []
        for k in ("minProperties", "maxProperties"):
            b = V.get(k)
            if isinstance(b, int) and not isinstance(b, bool):
                tgt += [b - 1, b, b + 1]
        tgt = [n for n in tgt if n >= 0]
        if tgt and r.random() < 0.7:
            n = r.choice(tgt)
            pool = [x for x in self.c.names() if x not in names]
            r.shuffle(pool)
            while len(names) < n and pool:
                names.append(pool.pop())
            while len(names) > n:
                names.pop(r.randrange(len(names)))
        out = {}
        for nm in names:
            if nm not in out:
                out[nm] = self.sample(self.sub_for_name(V, nm), depth - 1)
        return out

    def arr(self, V, depth):
        r = self.r
        prefix = V.get("prefixItems") if isinstance(V.get("prefixItems"), list) else (V.get("items") if isinstance(V.get("items"), list) else [])
        if isinstance(V.get("items"), list):
            rest = V.get("additionalItems", V.get("unevaluatedItems", True))
        else:
            rest = V.get("items", V.get("unevaluatedItems", True)) if ("items" in V or "unevaluatedItems" in V) else True
        lens = [len(prefix) - 1, len(prefix), len(prefix) + 1] if prefix else []
        for k in ("minItems", "maxItems"):
            b = V.get(k)
            if isinstance(b, int) and not isinstance(b, bool):
                lens += [b - 1, b, b + 1]
        lens = [n for n in lens if 0 <= n <= 6]
        n = r.choice(lens) if (lens and r.random() < 0.8) else r.randrange(0, 4)
        out = []
        for i in range(n):
            e = prefix[i] if i < len(prefix) else rest
            out.append(self.sample(e, depth - 1))
        if "contains" in V:
            k = r.choice([0, 1, 1, 2])
            for b in (V.get("minContains"), V.get("maxContains")):
                if isinstance(b, int) and not isinstance(b, bool) and r.random() < 0.6:
                    k = max(0, b + r.choice([-1, 0, 1]))
            for _ in range(min(k, 4)):
                v = self.sample(V["contains"], depth - 1)
                if out and r.random() < 0.5:
                    out[r.randrange(len(out))] = v
                else:
                    out.insert(r.randrange(len(out) + 1), v)
        if V.get("uniqueItems") is True and out and r.random() < 0.4:      # one duplicate (sometimes a 1 / true / 1.0 look-alike)
            v = copy.deepcopy(r.choice(out))
            if r.random() < 0.3:
                v = look_alike(self.c, v)
            out.insert(r.randrange(len(out) + 1), v)
        return out

    def sample(self, S, depth):
        r = self.r
        self.budget += 1
        if self.budget > 400 or depth < -1:
            return r.choice([None, 0, "a", [], {}])
        if isinstance(S, bool) or not isinstance(S, dict) or not S:
            return self.free(depth)
        V = self.view(S)
        if not isinstance(V, dict):
            return self.free(depth)
        if "const" in V and r.random() < 0.7:
            v = copy.deepcopy(V["const"])
            return v if r.random() < 0.75 else look_alike(self.c, v)
        if isinstance(V.get("enum"), list) and V["enum"] and r.random() < 0.7:
            v = copy.deepcopy(r.choice(V["enum"]))
            return v if r.random() < 0.75 else look_alike(self.c, v)
        t = V.get("type")
        ts = [t] if isinstance(t, str) else [x for x in t if isinstance(x, str)] if isinstance(t, list) else []
        inferred = []
        ks = set(V.keys())
        if ks & {"properties", "patternProperties", "additionalProperties", "required", "minProperties", "maxProperties", "propertyNames",
                 "dependencies", "dependentRequired", "dependentSchemas", "unevaluatedProperties"}:
            inferred.append("object")
        if ks & {"items", "prefixItems", "additionalItems", "minItems", "maxItems", "uniqueItems", "contains", "unevaluatedItems"}:
            inferred.append("array")
        if ks & {"minimum", "maximum", "exclusiveMinimum", "exclusiveMaximum", "multipleOf"}:
            inferred.append("number")
        if ks & {"minLength", "maxLength", "pattern", "format"}:
            inferred.append("string")
        both = [x for x in inferred if not ts or x in ts or (x == "number" and "integer" in ts)]
        if r.random() < 0.12:
            ty = r.choice(TYPES)                            # wrong / arbitrary type
        elif both:
            ty = r.choice(both)
        elif ts:
            ty = r.choice(ts)
        elif inferred:
            ty = r.choice(inferred)
        else:
            return self.free(depth)
        if ty == "object":
            return self.obj(V, depth) if depth > -1 else {}
        if ty == "array":
            return self.arr(V, depth) if depth > -1 else []
        if ty == "number":
            x = self.number(V)
            return x
        if ty == "integer":
            x = self.number(V)
            if isinstance(x, float) and not x.is_integer() and r.random() < 0.7:
                x = int(x)
            return x
        if ty == "string":
            return self.string(V)
        if ty == "boolean":
            return r.random() < 0.5
        return None


def look_alike(c, v):
    """a value that is easily confused with v: 1 / true / "1" / 1.0 / [1] ... (booleans never equal numbers; 1 equals 1.0)"""
    r = c.rng
    if isinstance(v, bool):
        return int(v) if r.random() < 0.7 else str(v).lower()
    if isinstance(v, int):
        if abs(v) > 2 ** 52:
            return r.choice([x for x in (v + 1, v - 1, v + 1, v - 1, str(v), [v]) if not isinstance(x, int) or -2 ** 63 <= x <= 2 ** 64 - 1])   # integers only (no float neighbour up there)
        opts = [bool(v) if v in (0, 1) else v + 1, str(v), [v], v + 1, v - 1, v + 0.5]
        if c.intfloat:
            opts.append(float(v))
        return r.choice(opts)
    if isinstance(v, float):
        return r.choice([int(v) if (v.is_integer()) else v + 0.5, str(v), v + 1])
    if isinstance(v, str):
        return r.choice([v + "a", v[:-1], v.upper(), [v], None])
    if isinstance(v, list):
        if v and r.random() < 0.6:
            w = copy.deepcopy(v)
            i = r.randrange(len(w))
            w[i] = look_alike(c, w[i])
            return w
        return r.choice([v + [None], v[:-1], {}])
    if isinstance(v, dict):
        if v and r.random() < 0.6:
            w = copy.deepcopy(v)
            k = r.choice(list(w))
            w[k] = look_alike(c, w[k])
            return w
        w = dict(v)
        w[r.choice(c.names())] = None
        return w
    return r.choice([False, 0, "", [], {}])


def mutate_instance(c, v):
    """one small edit somewhere in the instance."""
    r = c.rng
    v = copy.deepcopy(v)
    path = []
    cur = v
    while isinstance(cur, (dict, list)) and cur and r.random() < 0.6:      # descend
        k = r.choice(list(cur)) if isinstance(cur, dict) else r.randrange(len(cur))
        path.append((cur, k))
        cur = cur[k]

    def put(x):
        if not path:
            return x
        path[-1][0][path[-1][1]] = x
        return v
    if isinstance(cur, dict):
        k = r.randrange(4)
        if k == 0 and cur:
            del cur[r.choice(list(cur))]
        elif k == 1:
            cur[r.choice(c.names())] = g_value(c, 1)
        elif k == 2 and cur:
            kk = r.choice(list(cur))
            cur[kk] = look_alike(c, cur[kk])
        else:
            return put(r.choice([[], None, "a", 0]))
        return v
    if isinstance(cur, list):
        k = r.randrange(5)
        if k == 0 and cur:
            cur.insert(r.randrange(len(cur) + 1), copy.deepcopy(r.choice(cur)))
        elif k == 1 and cur:
            cur.pop(r.randrange(len(cur)))
        elif k == 2:
            cur.append(g_value(c, 1))
        elif k == 3 and cur:
            i = r.randrange(len(cur))
            cur[i] = look_alike(c, cur[i])
        else:
            return put(r.choice([{}, None, "a", 0]))
        return v
    return put(look_alike(c, cur))


def no_intfloat(v):
    """integer-valued floats -> integers (draft 4: whether 1.0 is an 'integer' is an optional test of the suite, not prescribed)"""
    if isinstance(v, float) and v.is_integer():
        return int(v)
    if isinstance(v, list):
        return [no_intfloat(e) for e in v]
    if isinstance(v, dict):
        return {k: no_intfloat(e) for k, e in v.items()}
    return v


def gen_instances(c, doc, k):
    out, seen = [], set()
    s = Sampler(c, doc)

    def add(x):
        if not c.intfloat:
            x = no_intfloat(x)
        t = dumps(x)
        if t not in seen and len(t) < 700:               # recursive schemas cost time exponential in the depth of the instance
            seen.add(t)
            out.append(x)
    tries = 0
    while len(out) < k and tries < 4 * k:
        tries += 1
        s.budget = 0
        m = c.rng.random()
        if m < 0.55 or not out:
            add(s.sample(doc, 3))
        elif m < 0.9:
            add(mutate_instance(c, c.rng.choice(out)))
        else:
            add(g_value(c, 2))
    return out


# ------------------------------------------------------------------------------------------------ cases (built in worker processes)
_W = {}                                                   # set before the pool forks: {"admitted":..., "seed":..., "per_schema":...}
UNEVAL = ("unevaluatedProperties", "unevaluatedItems")
DYNAMIC = ("$recursiveRef", "$recursiveAnchor", "$dynamicRef", "$dynamicAnchor")


def defs_key(n):
    return "definitions" if n <= 7 else "$defs"


def wrap(doc, kind, n):
    """allOf:[S], not:{not:S}, anyOf:[S,false] around the body of the document; definitions stay at the root so that pointers keep working
    ('#' then names the wrapper, which is equivalent to S by the law itself)."""
    keep = ("$schema", defs_key(n), "definitions", "$defs")
    body = {k: v for k, v in doc.items() if k not in keep}
    w = {"$schema": doc["$schema"]}
    if kind == "allOf":
        w["allOf"] = [body]
    elif kind == "notnot":
        w["not"] = {"not": body}
    else:
        w["anyOf"] = [body, False]
    for k in keep[1:]:
        if k in doc:
            w[k] = doc[k]
    return w


def rand_opts(rng, ext):
    return {"default_version": rng.choice([None] + [d["uri"] for d in DIALECTS.values()]), "compat": rng.random() < 0.3, "format": rng.random() < 0.3}


def make_request(rid, schema, instances, policy, opts, ascii_=True):
    rq = {"id": rid, "schema": dumps(schema, ascii_), "instances": [dumps(x, ascii_) for x in instances], "policy": policy}
    rq.update(opts)
    return rq


def variant_of(kind, doc, instances, n, pseed):
    """(schema, instances, policy) of a law variant"""
    if kind == "perm":
        return permute(doc, pseed, "S"), [permute(x, pseed, "I") for x in instances], "ojson"
    return wrap(doc, kind, n), instances, "json"


def build_case(idx):
    W = _W
    rng = random.Random(W["seed"] * 1000003 + idx * 7919 + 11)
    dialect = DKEYS[idx % len(DKEYS)]
    n = DIALECTS[dialect]["n"]
    ext = rng.random() < W.get("ext_share", 0.15)
    doc, c = gen_document(rng, dialect, W["admitted"][dialect], ext)
    case = {"idx": idx, "dialect": dialect, "ext": ext, "schema": doc}
    st = ref_check_schema(dialect, doc)
    if not st:
        st = ref_problem(doc, n)
    if st:
        case["status"] = st
        return case
    insts = gen_instances(c, doc, W["per_schema"])
    kws = keywords_of(doc)
    if not ext:
        rv = ref_verdicts(dialect, doc, insts)
        if all(v is None for v in rv):
            case["status"] = "reference_error"
            return case
        case["ref"] = rv
    case["status"] = "ok"
    case["instances"] = insts
    opts = rand_opts(rng, ext)
    case["opts"] = opts
    ascii_ = rng.random() < 0.5
    case["ascii"] = ascii_
    variants = []
    if rng.random() < 0.55:
        variants.append(("perm", rng.randrange(1 << 30)))
    if not (kws & set(UNEVAL)) and not (kws & set(DYNAMIC)) and rng.random() < 0.45:
        variants.append((rng.choice(["allOf", "notnot"] + (["anyOfFalse"] if n >= 6 else [])), 0))
    if not ext and rng.random() < 0.15:
        variants.append(("options", 0))                   # same schema, other values of options that must not matter
    case["variants"] = []
    for vk, ps in variants:
        if vk == "options":
            vs, vi, pol = doc, insts, "json"
        else:
            vs, vi, pol = variant_of(vk, doc, insts, n, ps)
        vopts = opts if ext else rand_opts(rng, ext)
        case["variants"].append({"kind": vk, "pseed": ps, "opts": vopts, "policy": pol, "schema_text": dumps(vs, ascii_), "inst_texts": [dumps(x, ascii_) for x in vi]})
    return case


# ------------------------------------------------------------------------------------------------ shrinking
def _subschema_paths(S, path=()):
    """paths (tuples of keys) of all subschemas below S"""
    for k, sub, e in children(S):
        p = path + ((k,) if sub is None else (k, sub))
        yield p, e
        for q in _subschema_paths(e, p):
            yield q


def _get(doc, path):
    cur = doc
    for k in path:
        cur = cur[k]
    return cur


def _set(doc, path, val):
    if not path:
        return val
    cur = doc
    for k in path[:-1]:
        cur = cur[k]
    cur[path[-1]] = val
    return doc


def schema_candidates(doc, n):
    """smaller variants of the document, shallow edits first"""
    out = []
    nodes = [((), doc)] + list(_subschema_paths(doc))
    nodes.sort(key=lambda pe: len(pe[0]))
    yes = True if n >= 6 else {}
    no = False if n >= 6 else {"not": {}}
    keep_root = ("$schema", "definitions", "$defs")
    for path, S in nodes:
        if path and S not in (True, False, {}):
            for repl in (yes, no):
                d = copy.deepcopy(doc)
                _set(d, path, copy.deepcopy(repl))
                out.append(d)
        if not isinstance(S, dict):
            continue
        ks = [k for k in S.keys() if path or k not in keep_root]
        if len(ks) > 3:                                   # big strides first: half of the keywords at once
            for part in (ks[:len(ks) // 2], ks[len(ks) // 2:]):
                d = copy.deepcopy(doc)
                T = _get(d, path)
                for k in part:
                    del T[k]
                out.append(d)
        for k in list(S.keys()):
            if not path and k == "$schema":
                continue
            d = copy.deepcopy(doc)
            del _get(d, path)[k]
            out.append(d)
        for k, sub, e in children(S):                     # hoist a child over its parent
            if not isinstance(e, dict) or (not path and k in ("definitions", "$defs")):
                continue
            d = copy.deepcopy(doc)
            e2 = copy.deepcopy(e)
            if not path:
                nd = {"$schema": doc["$schema"]}
                nd.update({kk: vv for kk, vv in e2.items() if kk not in keep_root})
                for kk in keep_root[1:]:
                    if kk in doc:
                        nd[kk] = d[kk]
                out.append(nd)
            else:
                out.append(_set(d, path, e2))
        for k, v in S.items():
            if isinstance(v, list) and k in ("allOf", "anyOf", "oneOf", "prefixItems", "items", "enum", "required", "type"):
                for i in range(len(v)):
                    if len(v) > 1:
                        d = copy.deepcopy(doc)
                        del _get(d, path)[k][i]
                        out.append(d)
            if isinstance(v, dict) and k in SCHEMA_MAPS + ("dependentRequired",):
                for kk in v:
                    d = copy.deepcopy(doc)
                    del _get(d, path)[k][kk]
                    out.append(d)
        if isinstance(S.get("$ref"), str):                # a reference replaced by (a copy of) its target
            t = resolve_ref(doc, S["$ref"])
            if isinstance(t, dict) and t is not doc and "$ref" not in t:
                t2 = {k: v for k, v in copy.deepcopy(t).items() if k not in ("$id", "id", "$anchor")}
                d = copy.deepcopy(doc)
                T = _get(d, path)
                done = False
                if n <= 7:
                    for k in [k for k in T if k not in keep_root or path]:
                        del T[k]
                    T.update(t2)
                    done = True
                elif not (set(t2) & (set(T) - {"$ref"})):
                    del T["$ref"]
                    T.update(t2)
                    done = True
                if done:
                    for dk in ("definitions", "$defs"):      # drop definitions nobody refers to any more
                        if isinstance(d.get(dk), dict):
                            txt = dumps({k: v for k, v in d.items() if k != dk})
                            for nm in list(d[dk]):
                                others = txt + dumps({k: v for k, v in d[dk].items() if k != nm})
                                body = d[dk][nm]
                                names = ["#/%s/%s" % (dk, ptr_escape(nm))]
                                if isinstance(body, dict):
                                    names += ["#" + str(body[a]).lstrip("#") for a in ("$anchor", "$id", "id") if isinstance(body.get(a), str)]
                                if not any(('"%s' % x) in others for x in names):
                                    del d[dk][nm]
                            if not d[dk]:
                                del d[dk]
                    out.append(d)
        for k in ("allOf", "anyOf", "oneOf"):             # single branch: merge into the parent
            v = S.get(k)
            if isinstance(v, list) and len(v) == 1 and isinstance(v[0], dict) and not (set(v[0]) & (set(S) - {k})):
                d = copy.deepcopy(doc)
                T = _get(d, path)
                b = T.pop(k)[0]
                T.update(b)
                out.append(d)
        for k, v in S.items():                            # smaller numbers
            if k in ("minItems", "maxItems", "minLength", "maxLength", "minProperties", "maxProperties", "minContains", "maxContains", "minimum", "maximum") \
                    and isinstance(v, (int, float)) and not isinstance(v, bool) and v not in (0, 1):
                for nv in (0, 1):
                    d = copy.deepcopy(doc)
                    _get(d, path)[k] = nv
                    out.append(d)
    return out


def instance_candidates(inst):
    out = []

    def paths(v, p=()):
        yield p, v
        if isinstance(v, dict):
            for k, e in v.items():
                for q in paths(e, p + (k,)):
                    yield q
        elif isinstance(v, list):
            for i, e in enumerate(v):
                for q in paths(e, p + (i,)):
                    yield q
    for p, v in sorted(paths(inst), key=lambda pv: len(pv[0])):
        if isinstance(v, (dict, list)) and len(v) > 3:    # big strides first: half of the members / items at once
            ks = list(v.keys()) if isinstance(v, dict) else list(range(len(v)))
            for part in (ks[:len(ks) // 2], ks[len(ks) // 2:]):
                d = copy.deepcopy(inst)
                T = _get(d, p)
                for k in sorted(part, key=lambda x: -x if isinstance(x, int) else 0):
                    del T[k]
                out.append(d)
        if p:
            out.append(copy.deepcopy(v))                  # a part instead of the whole
            d = copy.deepcopy(inst)
            parent = _get(d, p[:-1])
            del parent[p[-1]]
            out.append(d)
        for simple in (None, 0, "", [], {}):
            if isinstance(v, (dict, list, str)) and v and not (type(simple) == type(v) and simple == v) or (isinstance(v, (int, float)) and not isinstance(v, bool) and simple == 0 and v != 0):
                out.append(_set(copy.deepcopy(inst), p, simple) if p else simple)
    return out


def joint_candidates(doc, inst, n):
    """the subschema applied to a child of the instance, together with that child: (schema, instance) pairs"""
    out = []
    keep_root = ("definitions", "$defs")
    kids = list(inst.items()) if isinstance(inst, dict) else list(enumerate(inst)) if isinstance(inst, list) else []
    if not kids:
        return out
    for k, sub, e in children(doc):
        if k in keep_root or not isinstance(e, dict) or k in INPLACE_VALUED + INPLACE_LISTS + INPLACE_MAPS:
            continue
        nd = {"$schema": doc["$schema"]}
        nd.update({kk: copy.deepcopy(vv) for kk, vv in e.items() if kk not in keep_root})
        for kk in keep_root:
            if kk in doc:
                nd[kk] = copy.deepcopy(doc[kk])
        for _, child in kids[:6]:
            out.append((nd, copy.deepcopy(child)))
    return out


def _shrink_ref_job(job):
    dialect, schema, inst, want_ref = job
    if ref_check_schema(dialect, schema) or ref_problem(schema, DIALECTS[dialect]["n"]):
        return "bad"
    if not want_ref:
        return "ok"
    return ref_verdicts(dialect, schema, [inst])[0]


def fail_requests(f, schema, inst, rid):
    """requests that re-observe failure f on (schema, inst)"""
    n = DIALECTS[f["dialect"]]["n"]
    reqs = [make_request(rid, schema, [inst], "json", f["opts"])]
    if f["kind"] in ("perm", "allOf", "notnot", "anyOfFalse", "options"):
        if f["kind"] == "options":
            vs, vi, pol = schema, [inst], "json"
        else:
            vs, vi, pol = variant_of(f["kind"], schema, [inst], n, f["pseed"])
        reqs.append(make_request(rid + 1, vs, vi, pol, f["vopts"]))
    return reqs


def observe(rep):
    """'T' / 'F' / 'C' (compile error) / 'X' (anything else) from a one-instance reply"""
    if rep is None or "abnormal" in rep or "exception" in rep or "parse_error" in rep:
        return "X"
    if "compile_error" in rep:
        return "C"
    r0 = rep["results"][0]
    if "error" in r0:
        return "X"
    return "T" if r0["v"] else "F"


def bad_location(rep, inst, field):
    """first [keyword, location] of results[0][field] whose location does not resolve in the instance (RFC 6901), or None"""
    if not rep or "results" not in rep:
        return None
    for kw, loc in rep["results"][0].get(field, []):
        loc = latin1_to_text(loc)
        if not resolve_pointer(inst, loc)[0]:
            return kw, loc
    return None


def still_fails(f, obs, refv, reps=None, inst=None, schema=None):
    if f["kind"] in ("walkloc", "msgloc"):
        if any(rc["law"] == f["kind"] and rc["predicate"](schema, inst) for rc in OPEN_ROOT_CAUSES.values()):
            return False                                  # must not drift into a known-bad class while shrinking
        return bad_location(reps[0], inst, "walk" if f["kind"] == "walkloc" else "msgs") is not None
    if f["kind"] == "diff":
        return refv is f["ref"] and obs[0] == ("T" if f["jc"] else "F")
    if f["kind"] == "compile":
        return obs[0] == "C"
    allowed = "TFC" if "C" in f["obs"] else "TF"      # any two different verdicts keep a law broken; a refusal only if it was one
    return obs[0] in allowed and obs[1] in allowed and obs[0] != obs[1]


def shrink_all(fails, exe, pool, max_rounds=60, cand_cap=160, budget_s=90):
    """Minimises schema and instance of every failure while the same disagreement is still observed. A failure that is still getting smaller
    when the time budget ends is marked 'unconverged' (its signature would not be stable)."""
    active = list(range(len(fails)))
    t_end = time.time() + budget_s
    for _ in range(max_rounds):
        if not active:
            break
        if time.time() > t_end:
            for fi in active:
                fails[fi]["unconverged"] = True
            break
        jobs, owner = [], []
        for fi in active:
            f = fails[fi]
            n = DIALECTS[f["dialect"]]["n"]
            cands = joint_candidates(f["schema"], f["instance"], n) + [(s, f["instance"]) for s in schema_candidates(f["schema"], n)] + [(f["schema"], i) for i in instance_candidates(f["instance"])]
            seen = set()
            k = 0
            for s, i in cands:
                key = dumps(s) + "\0" + dumps(i)
                if key in seen:
                    continue
                seen.add(key)
                jobs.append((f["dialect"], s, i, f["kind"] == "diff"))
                owner.append(fi)
                k += 1
                if k >= cand_cap:
                    break
        refs = pool.map(_shrink_ref_job, jobs, chunksize=16) if jobs else []
        reqs, slot = [], {}
        for j, (job, fi) in enumerate(zip(jobs, owner)):
            f = fails[fi]
            if refs[j] == "bad" or (f["kind"] == "diff" and refs[j] is not f["ref"]):
                continue
            rq = fail_requests(f, job[1], job[2], j * 2)
            slot[j] = len(rq)
            reqs.extend(rq)
        reps = execdrv.run_requests(exe, "asan", reqs) if reqs else {}
        best = {}
        for j, cnt in slot.items():
            fi = owner[j]
            f = fails[fi]
            obs = [observe(reps.get(j * 2 + t)) for t in range(cnt)]
            if still_fails(f, obs, refs[j], [reps.get(j * 2 + t) for t in range(cnt)], jobs[j][2], jobs[j][1]):
                size = len(dumps(jobs[j][1])) + len(dumps(jobs[j][2]))
                if size >= len(dumps(f["schema"])) + len(dumps(f["instance"])):
                    continue                              # strictly smaller only: termination, no oscillation between equivalent forms
                if fi not in best or size < best[fi][0]:
                    best[fi] = (size, j)
        nxt = []
        for fi in active:
            if fi in best:
                j = best[fi][1]
                fails[fi]["schema"], fails[fi]["instance"] = jobs[j][1], jobs[j][2]
                fails[fi]["rounds"] = fails[fi].get("rounds", 0) + 1
                nxt.append(fi)
        active = nxt
    else:
        for fi in active:                                 # still shrinking after max_rounds
            fails[fi]["unconverged"] = True
    return fails


# ------------------------------------------------------------------------------------------------ open root causes
def _dependent_schema_names(doc):
    names = set()
    for x in all_schemas(doc):
        if isinstance(x, dict) and isinstance(x.get("dependentSchemas"), dict):
            names.update(k for k, v in x["dependentSchemas"].items() if isinstance(v, dict) and v)
    return names


def _has_member_named(v, names):
    if isinstance(v, dict):
        return any(k in names for k in v) or any(_has_member_named(e, names) for e in v.values())
    if isinstance(v, list):
        return any(_has_member_named(e, names) for e in v)
    return False


def in_class_W1(doc, inst):
    """walk() can descend into a dependent schema: some dependentSchemas entry with a non-trivial schema is triggered by a member of
    some object of the instance"""
    names = _dependent_schema_names(doc)
    return bool(names) and _has_member_named(inst, names)


# Root causes that are known and NOT repaired. A case inside 'predicate' is not judged by the law named in 'law' (counted as
# not_judged.known.<id>); the witnesses are executed on every run and reported under the single signature schema/witness/<id>
# while the library still misbehaves on at least one of them (verdict differs from 'valid', or the 'check' fails).
U19, U20 = DIALECTS["2019-09"]["uri"], DIALECTS["2020-12"]["uri"]
OPEN_ROOT_CAUSES = {}   # none at present (the walk-location convention under dependentSchemas is pinned by an upstream test and outside C11: observed only)


def run_witnesses(run, stage, exe, rep_):
    sn = stage["name"]
    reqs, meta = [], []
    for wid, rc in sorted(OPEN_ROOT_CAUSES.items()):
        for w in rc["witnesses"]:
            reqs.append(make_request(len(reqs), w["schema"], [w["instance"]], "json", {"default_version": None}))
            meta.append((wid, w))
    reps = execdrv.run_requests(exe, "asan", reqs) if reqs else {}
    failing = {}
    for i, (wid, w) in enumerate(meta):
        rep = reps.get(i, {"abnormal": "no-reply"})
        run.evaluations += 1
        why = None
        o = observe(rep)
        if o not in "TF":
            why = "no verdict: %s" % {k: str(v)[:200] for k, v in rep.items() if k != "id"}
        elif (o == "T") is not w["valid"]:
            why = "verdict %s, the specification prescribes %s" % (o == "T", w["valid"])
        elif w.get("check") == "walk-locations":
            bl = bad_location(rep, w["instance"], "walk")
            if bl:
                why = "walk reports %s at %r, which does not exist in the instance" % (bl[0], bl[1])
        run.count("%s.witness.%s.%s" % (sn, wid, "misbehaves" if why else "behaves"))
        if why:
            failing.setdefault(wid, []).append({"dialect": w["dialect"], "schema": w["schema"], "instance": w["instance"], "expected_valid": w["valid"], "observed": why,
                                                "req": reqs[i]})
    for wid, lst in sorted(failing.items()):
        rc = OPEN_ROOT_CAUSES[wid]
        rep_.add("schema/witness/%s" % wid, {"what": rc["what"], "why_open": rc["why_open"], "witnesses": [{k: v for k, v in x.items() if k != "req"} for x in lst]},
                 None, {"kind": "witness", "id": wid, "req": lst[0]["req"], "instance": lst[0]["instance"]})


def _numbers(v, out):
    if isinstance(v, bool):
        return
    if isinstance(v, (int, float)):
        out.append(v)
    elif isinstance(v, dict):
        for x in v.values():
            _numbers(x, out)
    elif isinstance(v, list):
        for x in v:
            _numbers(x, out)


def mixes_bool_with_zero_one(inst):
    leaves = []

    def walk(v):
        if isinstance(v, dict):
            for x in v.values():
                walk(x)
        elif isinstance(v, list):
            for x in v:
                walk(x)
        else:
            leaves.append(v)
    walk(inst)
    has_bool = any(isinstance(x, bool) for x in leaves)
    has01 = any((not isinstance(x, bool)) and isinstance(x, (int, float)) and x in (0, 1) for x in leaves)
    return has_bool and has01


def mixes_float_with_wide_integer(schema, inst):
    ns = []
    _numbers(schema, ns)
    _numbers(inst, ns)
    wide = any(abs(x) > 2 ** 53 for x in ns)
    return wide and (any(isinstance(x, float) for x in ns) or '"multipleOf"' in json.dumps(schema))   # multipleOf is computed in floating point


# ------------------------------------------------------------------------------------------------ judging
def latin1_to_text(s):
    """the driver escapes reply strings bytewise (\\u00XX per byte): undo"""
    try:
        return s.encode("latin-1").decode("utf-8")
    except (UnicodeEncodeError, UnicodeDecodeError):
        return s


ASSERTION_KWS = {"type", "enum", "const", "minimum", "maximum", "exclusiveMinimum", "exclusiveMaximum", "multipleOf", "minLength", "maxLength", "pattern", "minItems",
                 "maxItems", "uniqueItems", "minContains", "maxContains", "required", "minProperties", "maxProperties", "dependentRequired", "format"}


def kwsig(doc, limit=7, coarse=False):
    ks = sorted(k for k in keywords_of(doc) if k not in ("definitions", "$defs", "title", "description", "default", "$comment", "x-unknown", "$id", "id", "$anchor"))
    if coarse and set(ks) - ASSERTION_KWS:
        ks = [k for k in ks if k not in ASSERTION_KWS]   # which assertion makes the inner subschema fail or hold is incidental
    if len(ks) > limit:
        ks = ks[:limit] + ["etc"]
    return "+".join(ks) if ks else "empty"


def classify_diff(f, exe):
    """signature of a shrunk reference disagreement"""
    d, S, inst = f["dialect"], f["schema"], f["instance"]
    for u in UNEVAL:
        if "not" in S and u in S and f["jc"] is True and f["ref"] is False:
            # Known defect: annotations collected inside a subschema that FAILED under 'not' must be dropped, the library keeps them, so that
            # unevaluated* sees members/items as evaluated. Recognised semantically: the reference confirms that everything but unevaluated*
            # holds (hence 'not' holds, i.e. its subschema failed and contributes nothing), and removing that 'not' alone makes jsoncons
            # reject like the reference does.
            rest = {k: v for k, v in S.items() if k != u}
            no_not = {k: v for k, v in S.items() if k != "not"}
            if ref_verdicts(d, rest, [inst])[0] is True and ref_verdicts(d, no_not, [inst])[0] is False and not ref_check_schema(d, no_not) and not ref_problem(no_not, DIALECTS[d]["n"]):
                rr = execdrv.run_requests(exe, "asan", [make_request(0, no_not, [inst], "json", f["opts"])]).get(0)
                if observe(rr) == "F":
                    f["note"] = "removing the (holding) 'not' makes jsoncons reject: annotations from the failed subschema of 'not' reach %s" % u
                    return "schema/verdict-differs/annotations-from-failed-not"
    top = set(S) - {"$schema", "definitions", "$defs"}
    if {"contains", "unevaluatedItems"} <= top <= ({"contains", "unevaluatedItems"} | ASSERTION_KWS) and f["jc"] is True and f["ref"] is False and isinstance(inst, list):
        # Second defect: items evaluated INSIDE an inner array while 'contains' is tried on it are counted as evaluated items of the outer array.
        # Confirmed with the reference: some item does not match 'contains' (so it is unevaluated) and some item is a non-empty array.
        m = ref_sub_verdicts(d, S, S["contains"], inst)
        if False in m and any(isinstance(x, list) and x for x in inst):
            f["note"] = "an item that does not match 'contains' is treated as evaluated: item annotations collected inside an inner array leak to the outer array"
            return "schema/verdict-differs/annotations-of-contained-array-leak"
    return "schema/verdict-differs/%s/%s/%s" % (d, kwsig(S, coarse=True), "jsoncons-accepts" if f["jc"] else "jsoncons-rejects")


PRECLASS = {"not", "if", "anyOf", "oneOf", "allOf", "$ref", "unevaluatedProperties", "unevaluatedItems", "contains", "dependentSchemas", "dependencies",
            "propertyNames", "patternProperties", "additionalProperties", "prefixItems", "additionalItems", "const", "enum", "uniqueItems"}
LAW_NAMES = {"perm": "member-order-dependent", "allOf": "allOf-of-S-differs-from-S", "notnot": "not-not-S-differs-from-S", "anyOfFalse": "anyOf-S-false-differs-from-S",
             "options": "irrelevant-option-changes-verdict"}


def classify(f, exe):
    if f["kind"] == "diff":
        return classify_diff(f, exe)
    if f["kind"] == "compile":
        return "schema/compile-refused/%s/%s" % (f["dialect"], kwsig(f["schema"]))
    if f["kind"] in ("walkloc", "msgloc"):
        # the applicator that hands a wrong location down is at the top of the minimal schema; one signature per culprit, whatever the dialect
        top = sorted(k for k in f["schema"] if k not in ("$schema", "definitions", "$defs"))
        appl = [k for k in top if k in SCHEMA_VALUED + SCHEMA_LISTS + SCHEMA_MAPS + ("items",)]
        top = sorted(set("schema-dependency" if k in ("dependencies", "dependentSchemas") else k for k in (appl or top)))
        return "schema/%s-location-unresolvable/%s" % ("walk" if f["kind"] == "walkloc" else "message", "+".join(top[:4]) or "empty")
    if f["kind"] == "perm" and keywords_of(f["schema"]) and keywords_of(f["schema"]) <= {"const", "enum", "uniqueItems"}:
        return "schema/member-order-dependent/object-equality-in-const-enum-uniqueItems"
    return "schema/%s/%s" % (LAW_NAMES[f["kind"]], kwsig(f["schema"], coarse=True))


class Reporter:
    def __init__(self, run, stage, per_sig=4):
        self.run, self.stage, self.per_sig, self.seen = run, stage, per_sig, {}

    def add(self, sig, detail, case, replay):
        k = self.seen.get(sig, 0)
        self.seen[sig] = k + 1
        self.run.count("violations_by_signature.%s" % sig)
        if k < self.per_sig:
            self.run.add_violation(sig, detail, stage=self.stage["name"], case=case, replay=replay)


def run_with_hang_retry(run, stage, exe, reqs):
    """A request whose evaluation made the driver's 60 s no-progress watchdog fire is re-executed one instance at a time (recursive schemas are
    legitimately exponential in the instance depth): only an instance that alone exceeds the watchdog remains an abnormal outcome."""
    reps = execdrv.run_requests(exe, "asan", reqs)
    slow = [rq for rq in reqs if reps.get(rq["id"], {}).get("abnormal") == "hang" and len(rq["instances"]) > 1]
    if not slow:
        return reps
    singles, back = [], {}
    for rq in slow:
        for ii, t in enumerate(rq["instances"]):
            sid = -(len(singles) + 1)
            singles.append(dict(rq, id=sid, instances=[t]))
            back[sid] = (rq["id"], ii)
    sreps = execdrv.run_requests(exe, "asan", singles)
    for rq in slow:
        parts = [sreps.get(sid) for sid, (rid, ii) in sorted(back.items(), key=lambda kv: kv[1][1]) if rid == rq["id"]]
        if all(p is not None and "results" in p for p in parts):
            reps[rq["id"]] = {"id": rq["id"], "results": [p["results"][0] for p in parts]}
            run.count("%s.slow_requests_completed_per_instance" % stage["name"])
        else:
            badp = [p for p in parts if p is None or "results" not in p]
            reps[rq["id"]] = dict(badp[0] or {"abnormal": "no-reply"}, id=rq["id"])
    return reps


def judge_batch(run, stage, exe, cases, rep_, fails, state):
    sn = stage["name"]
    reqs = []
    for cs in cases:
        run.count("%s.schemas.generated" % sn)
        run.count("%s.schemas.%s" % (sn, cs["status"]))
        if cs["status"] != "ok":
            continue
        rid = cs["idx"] * 8
        rq = {"id": rid, "schema": dumps(cs["schema"], cs["ascii"]), "instances": [dumps(x, cs["ascii"]) for x in cs["instances"]], "policy": "json"}
        rq.update(cs["opts"])
        cs["req"] = rq
        reqs.append(rq)
        for vi, v in enumerate(cs["variants"]):
            vq = {"id": rid + 1 + vi, "schema": v["schema_text"], "instances": v["inst_texts"], "policy": v["policy"]}
            vq.update(v["opts"])
            v["req"] = vq
            reqs.append(vq)
    reps = run_with_hang_retry(run, stage, exe, reqs)
    for cs in cases:
        if cs["status"] != "ok":
            continue
        d, doc, insts, ext = cs["dialect"], cs["schema"], cs["instances"], cs["ext"]
        rid = cs["idx"] * 8
        rep = reps.get(rid, {"abnormal": "no-reply"})
        cls = "extended" if ext else "judged"
        run.count("%s.schemas.executed.%s.%s" % (sn, cls, d))
        base = {"dialect": d, "schema": doc}
        if "abnormal" in rep:
            rep_.add("schema/abnormal/%s" % rep["abnormal"], dict(base, instances=insts[:6], stderr=rep.get("stderr", "")[-1500:]), rid, {"kind": "raw", "req": cs["req"]})
            continue
        if "exception" in rep:
            rep_.add("schema/foreign-exception/%s" % rep.get("type"), dict(base, what=rep["exception"]), rid, {"kind": "raw", "req": cs["req"]})
            continue
        if "parse_error" in rep:
            raise core.Inconclusive("x_schema could not parse a generated text: %s" % rep["parse_error"])
        if "compile_error" in rep:
            if ext:
                run.count("%s.extended.compile_refused" % sn)
            else:
                fails.append({"kind": "compile", "dialect": d, "schema": doc, "instance": insts[0], "opts": cs["opts"], "case": rid, "what": rep["compile_error"]})
            continue
        res = rep["results"]
        verdicts = []
        locfail = {}
        for ii, (inst, r) in enumerate(zip(insts, res)):
            run.evaluations += 1
            key = hashlib.blake2b((cs["req"]["schema"] + "\0" + cs["req"]["instances"][ii]).encode(), digest_size=8).digest()
            if key not in state["pairs"] and len(doc) > 1:
                state["pairs"].add(key)
                run.distinct += 1
            det = dict(base, instance=inst, result=r)
            rp = {"kind": "raw", "req": dict(cs["req"], instances=[cs["req"]["instances"][ii]])}
            if "error" in r:
                rep_.add("schema/validate-raised/%s" % r["error"].get("type"), det, rid, rp)
                verdicts.append(None)
                continue
            verdicts.append(r["v"])
            run.count("%s.verdicts.jsoncons_%s" % (sn, "valid" if r["v"] else "invalid"))
            if r["v"] != (r["n"] == 0):
                rep_.add("schema/api-disagree/is_valid-vs-validate-with-reporter", det, rid, rp)
            if r["v"] != (not r["threw"]):
                rep_.add("schema/api-disagree/is_valid-vs-throwing-validate", det, rid, rp)
            if r["v"] != r["v2"]:
                rep_.add("schema/api-disagree/second-is_valid-on-same-compiled-schema", det, rid, rp)
            run.count("%s.laws.api_agreement_checked" % sn)
            run.count("%s.laws.walk_locations_checked" % sn, len(r["walk"]))
            run.count("%s.laws.message_locations_checked" % sn, len(r["msgs"]))
            for fk, field in (("walkloc", "walk"), ("msgloc", "msgs")):
                if fk not in locfail and bad_location({"results": [r]}, inst, field):
                    known = [wid for wid, rc in OPEN_ROOT_CAUSES.items() if rc["law"] == fk and rc["predicate"](doc, inst)]
                    if known:
                        run.count("%s.not_judged.known.%s" % (sn, known[0]))
                        continue
                    # C11 speaks of verdicts and of the agreement of the entry points; where a message or a walk step is *located* is not
                    # part of it (and test/jsonschema/src/json_schema_walk_tests.cpp pins the /trigger/member form under dependentSchemas):
                    # an unresolvable location is observed and counted, not judged
                    run.count("%s.observed.unresolvable_%s_location" % (sn, "walk" if fk == "walkloc" else "message"))
                    continue
        fails.extend(locfail.values())
        # (a) reference differential
        if not ext:
            first = True
            for ii, (inst, jv) in enumerate(zip(insts, verdicts)):
                rv = cs["ref"][ii]
                if rv is None:
                    run.count("%s.diff.reference_error_instances" % sn)
                    continue
                if jv is None:
                    continue
                if '"uniqueItems"' in json.dumps(doc) and mixes_bool_with_zero_one(inst):
                    # the reference's uniqueItems (sort-based, with an "unbool" rewrite of top-level items only) misjudges arrays whose
                    # items hold false/0 or true/1 at deeper levels (observed: [[0],[false],[0]] reported unique); not judged by the differential
                    run.count("%s.not_judged.uniqueItems_with_nested_bool_and_0_1" % sn)
                    continue
                if mixes_float_with_wide_integer(doc, inst):
                    # a floating-point number next to integers beyond 2^53: comparison precision is implementation-defined (module docstring)
                    run.count("%s.not_judged.float_next_to_integer_beyond_2^53" % sn)
                    continue
                run.count("%s.diff.verdicts_compared" % sn)
                run.count("%s.diff.reference_%s" % (sn, "valid" if rv else "invalid"))
                if jv is not rv:
                    run.count("%s.diff.verdicts_differing" % sn)
                    if first:
                        first = False
                        fails.append({"kind": "diff", "dialect": d, "schema": doc, "instance": inst, "jc": jv, "ref": rv, "opts": cs["opts"], "case": rid,
                                      "orig": {"schema": doc, "instance": inst}})
        # (b) variants
        for vi, v in enumerate(cs["variants"]):
            vrep = reps.get(rid + 1 + vi, {"abnormal": "no-reply"})
            run.count("%s.laws.%s_checked" % (sn, v["kind"]))
            if "abnormal" in vrep:
                rep_.add("schema/abnormal/%s" % vrep["abnormal"], dict(base, variant=v["kind"], stderr=vrep.get("stderr", "")[-1500:]), rid, {"kind": "raw", "req": v["req"]})
                continue
            if "exception" in vrep:
                rep_.add("schema/foreign-exception/%s" % vrep.get("type"), dict(base, variant=v["kind"], what=vrep["exception"]), rid, {"kind": "raw", "req": v["req"]})
                continue
            if "parse_error" in vrep:
                raise core.Inconclusive("x_schema could not parse a generated text: %s" % vrep["parse_error"])
            if "compile_error" in vrep:
                fails.append({"kind": v["kind"], "dialect": d, "schema": doc, "instance": insts[0], "opts": cs["opts"], "vopts": v["opts"], "pseed": v["pseed"], "case": rid,
                              "obs": ("T" if verdicts[0] else "F", "C"), "what": vrep["compile_error"], "ext": ext})
                continue
            for ii, (inst, jv, r2) in enumerate(zip(insts, verdicts, vrep["results"])):
                if jv is None or "error" in r2:
                    continue
                if r2["v"] is not jv:
                    fails.append({"kind": v["kind"], "dialect": d, "schema": doc, "instance": inst, "opts": cs["opts"], "vopts": v["opts"], "pseed": v["pseed"], "case": rid,
                                  "obs": ("T" if jv else "F", "T" if r2["v"] else "F"), "ext": ext})
                    break
        if len(run.samples) < 4 and not ext and len(doc) > 2 and cs["idx"] % 7 == 0:
            run.samples.append({"stage": sn, "case": {"dialect": d, "schema": doc, "instances": insts[:3], "reference": cs["ref"][:3], "jsoncons": verdicts[:3]}})


def report_fails(run, stage, exe, pool, fails, rep_, cap, budget_s, per_class_diff=40, per_class_law=4):
    sn = stage["name"]
    run.count("%s.disagreements.total" % sn, len(fails))
    # choose what is shrunk: round-robin over coarse pre-classes so that a frequent defect cannot crowd out a rare one
    groups = {}
    for f in fails:
        groups.setdefault((f["kind"], f["dialect"], f.get("jc"), tuple(sorted(keywords_of(f["schema"]) & PRECLASS))), []).append(f)
    chosen = []
    keys = sorted(groups, key=str)
    quota = {}                                            # per (kind, dialect): reference disagreements get most of the budget
    while len(chosen) < cap and any(groups[k] for k in keys):
        progressed = False
        for k in keys:
            q = quota.get(k[:2], 0)
            if groups[k] and len(chosen) < cap and q < (per_class_diff if k[0] in ("diff", "compile") else per_class_law):
                chosen.append(groups[k].pop(0))
                quota[k[:2]] = q + 1
                progressed = True
        if not progressed:
            break
    run.count("%s.disagreements.not_shrunk_beyond_cap" % sn, len(fails) - len(chosen))
    for f in fails:
        run.count("%s.disagreements.by_kind.%s.%s" % (sn, f["kind"], f["dialect"]))
    shrink_all(chosen, exe, pool, budget_s=budget_s)
    for f in chosen:
        if f.get("unconverged"):
            run.count("%s.disagreements.shrink_budget_exhausted_not_reported" % sn)
            continue
        sig = classify(f, exe)
        n = DIALECTS[f["dialect"]]["n"]
        detail = {"dialect": f["dialect"], "schema": f["schema"], "instance": f["instance"], "shrink_rounds": f.get("rounds", 0)}
        rq = make_request(0, f["schema"], [f["instance"]], "json", f["opts"])
        replay = {"kind": f["kind"], "dialect": f["dialect"], "schema": f["schema"], "instance": f["instance"], "req": rq}
        if f["kind"] == "diff":
            detail.update({"jsoncons_is_valid": f["jc"], "reference_is_valid": f["ref"], "as_generated": f["orig"]})
            if f.get("note"):
                detail["note"] = f["note"]
        elif f["kind"] == "compile":
            detail.update({"compile_error": f.get("what")})
        elif f["kind"] in ("walkloc", "msgloc"):
            rr = execdrv.run_requests(exe, "asan", [rq]).get(0)
            field = "walk" if f["kind"] == "walkloc" else "msgs"
            bl = bad_location(rr, f["instance"], field)
            detail.update({"reported": (rr or {}).get("results", [{}])[0].get(field), "unresolvable": list(bl) if bl else None})
        else:
            vs, vi, pol = (f["schema"], [f["instance"]], "json") if f["kind"] == "options" else variant_of(f["kind"], f["schema"], [f["instance"]], n, f["pseed"])
            vq = make_request(1, vs, vi, pol, f["vopts"])
            detail.update({"verdict_original": f["obs"][0], "verdict_variant": f["obs"][1], "variant_schema": vs, "variant_instance": vi[0], "variant_policy": pol,
                           "options_original": f["opts"], "options_variant": f["vopts"], "note": "T valid, F invalid, C schema refused"})
            replay["variant_req"] = vq
            replay["obs"] = list(f["obs"])
        rep_.add(sig, detail, f["case"], replay)


def run(run, tier, seed, stage, bins):
    if _js is None:
        raise core.Inconclusive("python package 'jsonschema' (reference validator) is not importable: run under python3-vt")
    exe = bins[("x_schema", "asan")]
    sn = stage["name"]
    mp = multiprocessing.get_context("fork")
    t0 = time.time()
    with mp.Pool(core.NCPU) as pool:
        admitted = run_suite(run, stage, exe, pool)
    run.count("%s.wall_s.suite" % sn, round(time.time() - t0, 1))
    n_schemas = int(stage.get("schemas_" + tier, 4000))
    _W.clear()
    _W.update(admitted=admitted, seed=seed, per_schema=int(stage.get("instances_per_schema", 10)), ext_share=float(stage.get("extended_share", 0.15)))
    rep_ = Reporter(run, stage)
    run_witnesses(run, stage, exe, rep_)
    fails, state = [], {"pairs": set()}
    batch = 8000
    with mp.Pool(core.NCPU) as pool:
        for start in range(0, n_schemas, batch):
            cases = pool.map(build_case, range(start, min(n_schemas, start + batch)), chunksize=20)
            judge_batch(run, stage, exe, cases, rep_, fails, state)
        run.count("%s.wall_s.generate_execute_judge" % sn, round(time.time() - t0, 1))
        t1 = time.time()
        report_fails(run, stage, exe, pool, fails, rep_, int(stage.get("shrink_cap_" + tier, 150)), float(stage.get("shrink_budget_s_" + tier, 90)))
        run.count("%s.wall_s.shrink" % sn, round(time.time() - t1, 1))


def replay(rp, stage):
    exe = core.build("x_schema", "asan")
    r = rp.get("replay") or {}
    kind = r.get("kind")
    reqs = [dict(r["req"], id=0)]
    if r.get("variant_req"):
        reqs.append(dict(r["variant_req"], id=1))
    reps = execdrv.run_requests(exe, "asan", reqs)
    for k in sorted(reps):
        print(json.dumps(reps[k])[:2000])
    if kind == "diff":
        rv = ref_verdicts(r["dialect"], r["schema"], [r["instance"]])[0]
        print("reference is_valid: %s" % rv)
        return 1 if observe(reps.get(0)) in "TF" and (observe(reps.get(0)) == "T") is not rv else 0
    if kind == "suite":
        res = reps.get(0, {}).get("results")
        got = [x["v"] for x in res] if res else None
        print("expected: %s" % r.get("expected"))
        return 1 if got != r.get("expected") else 0
    if kind == "compile":
        return 1 if observe(reps.get(0)) == "C" else 0
    if kind in ("walkloc", "msgloc", "witness"):
        return 1 if bad_location(reps.get(0), r["instance"], "msgs" if kind == "msgloc" else "walk") else 0
    if kind in LAW_NAMES:
        return 1 if observe(reps.get(0)) != observe(reps.get(1)) else 0
    rep0 = reps.get(0) or {"abnormal": "no-reply"}
    if "results" not in rep0:
        return 1                                          # abnormal end, foreign exception, refusal
    for x in rep0["results"]:
        if "error" in x or x["v"] != (x["n"] == 0) or x["v"] != (not x["threw"]) or x["v"] != x["v2"]:
            return 1
    return 0
