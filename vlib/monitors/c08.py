"""C08: encoders emit only well-formed output; transcoding stays valid.
(1) Grammatical event sequences (balanced containers, alternating keys/values, container lengths declared rightly,
    wrongly or not at all, every scalar kind/tag, typed arrays, invalid UTF-8 now and then) are pushed into every
    encoder through the visitor interface (exec driver x_bin, op 'events'). An encoder may report an error; if it
    produces output, the output must be read back by an independent decoder (reference codecs / strict Python json)
    in full and denote exactly the pushed data.
(2) Values decoded from arbitrary accepted inputs of one format are re-encoded as JSON text (compact and pretty) and in
    every binary format (op 'transcode'): each result must be well-formed and equivalent to the decoded value."""
import json, random, binascii, base64, math, struct
from decimal import Decimal
from .. import core, execdrv
from ..ref import cbor_ref, msgpack_ref, ubjson_ref, bson_ref, rv as RV
from . import c07

REF = c07.REF
H = lambda b: binascii.hexlify(b).decode()


# ---------------------------------------------------------------- pushed data model
def gen_tree(rng, depth, fmt_neutral=True):
    k = rng.randrange(14)
    if depth <= 0 or k < 7:
        c = rng.randrange(12)
        if c == 0:
            return ("null",)
        if c == 1:
            return ("bool", rng.random() < 0.5)
        if c == 2:
            return ("int", rng.choice([0, -1, 23, 24, 255, 256, 65535, 65536, -(2 ** 31) - 1, 2 ** 32, 2 ** 63 - 1, -(2 ** 63), rng.randrange(-(2 ** 63), 2 ** 63)]))
        if c == 3:
            return ("uint", rng.choice([0, 2 ** 63, 2 ** 64 - 1, rng.randrange(2 ** 64)]))
        if c == 4:
            x = rng.choice([0.0, -0.0, 1.5, 1e300, 5e-324, 65504.0, 3.4028234663852886e38, float("nan"), float("inf"), float("-inf"), rng.uniform(-1e6, 1e6), struct.unpack(">d", struct.pack(">Q", rng.getrandbits(64)))[0]])
            return ("dbl", x)
        if c == 5:
            return ("half", rng.choice([0x3c00, 0x0001, 0x7c00, 0x7e00, 0xfbff, rng.randrange(65536)]))
        if c in (6, 7):
            return ("str", RV.gen_text_bytes(rng, allow_nul=True))
        if c == 8:
            return ("bytes", RV.gen_bytes(rng), rng.choice(["none", "none", "base16", "base64", "base64url"]))
        if c == 9:
            n = rng.choice([2 ** 64, -(2 ** 63) - 1, 10 ** 30, -(10 ** 40) + 7, rng.randrange(2 ** 64, 2 ** 200)])
            return ("bigint", n)
        if c == 10 and rng.random() < 0.3:
            return ("badstr", rng.choice([b"\xff", b"a\xc3", b"\xed\xa0\x80", b"\xc0\xaf", b"ok\xf5\x80\x80\x80"]))
        return ("str", rng.choice([b"", b"a", "é".encode(), "😀".encode(), b"x" * rng.choice([23, 24, 31, 32, 255, 256])]))
    mode = rng.choice(["ok", "ok", "ok", "none", "none", "small", "large"])
    n = rng.choice([0, 1, 2, 3, 5, 23, 24]) if rng.random() < 0.8 else rng.choice([255, 256])
    if depth > 1 and n > 5:
        n = rng.randrange(4)
    if k < 10:
        return ("arr", [gen_tree(rng, depth - 1) for _ in range(n)], mode)
    if k == 13 and rng.random() < 0.5:
        ty = rng.choice(["u8", "i32", "u64", "f64"])
        m = rng.randrange(0, 6)
        if ty == "u8":
            vals = [rng.randrange(256) for _ in range(m)]
        elif ty == "i32":
            vals = [rng.randrange(-(2 ** 31), 2 ** 31) for _ in range(m)]
        elif ty == "u64":
            vals = [rng.randrange(2 ** 64) for _ in range(m)]
        else:
            vals = [rng.uniform(-1e9, 1e9) for _ in range(m)]
        return ("typed", ty, vals)
    keys = set()
    members = []
    for _ in range(n):
        kb = RV.gen_key_text(rng, allow_nul=False)[1]
        if kb in keys:
            continue
        keys.add(kb)
        members.append((kb, gen_tree(rng, depth - 1)))
    return ("obj", members, mode)


def has(t, kinds):
    if t[0] in kinds:
        return True
    if t[0] == "arr":
        return any(has(e, kinds) for e in t[1])
    if t[0] == "obj":
        return any(has(v, kinds) for _, v in t[1])
    return False


def wrong_len(t):
    if t[0] == "arr":
        return t[2] in ("small", "large") or any(wrong_len(e) for e in t[1])
    if t[0] == "obj":
        return t[2] in ("small", "large") or any(wrong_len(v) for _, v in t[1])
    return False


def dbits(x):
    return "%016x" % struct.unpack(">Q", struct.pack(">d", x))[0]


def events(t, out):
    k = t[0]
    if k == "null":
        out.append(["N"])
    elif k == "bool":
        out.append(["T"] if t[1] else ["F"])
    elif k == "int":
        out.append(["I", str(t[1])])
    elif k == "uint":
        out.append(["U", str(t[1])])
    elif k == "dbl":
        out.append(["D", dbits(t[1])])
    elif k == "half":
        out.append(["H", t[1]])
    elif k in ("str", "badstr"):
        out.append(["S", H(t[1])])
    elif k == "bytes":
        out.append(["B", H(t[1]), t[2]])
    elif k == "bigint":
        out.append(["S", H(str(t[1]).encode()), "bigint"])
    elif k == "typed":
        vals = t[2] if t[1] in ("u8", "i32") else ([str(v) for v in t[2]] if t[1] == "u64" else [dbits(v) for v in t[2]])
        out.append(["TA", t[1], vals])
    elif k in ("arr", "obj"):
        n = len(t[1])
        decl = {"ok": n, "none": None, "small": max(0, n - 1) if n else 1, "large": n + 1}[t[2]]
        out.append(["BA" if k == "arr" else "BO", decl])
        if k == "arr":
            for e in t[1]:
                events(e, out)
            out.append(["EA"])
        else:
            for kb, v in t[1]:
                out.append(["K", H(kb)])
                events(v, out)
            out.append(["EO"])


# ---------------------------------------------------------------- equality: pushed tree vs reference-decoded RV
def strip_tags(r):
    while r[0] == "tag" and r[1] not in (2, 3):
        r = r[2]
    return r


def tree_eq_rv(fmt, t, r, path="$"):
    r = strip_tags(r)
    k = t[0]
    if k == "null":
        return "" if r[0] == "null" else "%s: null written as %s" % (path, r[0])
    if k == "bool":
        return "" if r == ("bool", t[1]) else "%s: bool written as %r" % (path, r[:2])
    if k in ("int", "uint"):
        if r[0] == "int" and r[1] == t[1]:
            return ""
        if r[0] == "hpn" and int(r[1]) == t[1]:
            return ""       # UBJSON has no uint64
        return "%s: integer %d written as %r" % (path, t[1], r[:2])
    if k in ("dbl", "half"):
        x = t[1] if k == "dbl" else RV.float_value(t[1], 16)
        if r[0] != "float":
            return "%s: float %r written as %r" % (path, x, r[:2])
        y = RV.float_value(r[1], r[2])
        if x != x:
            return "" if y != y else "%s: NaN written as %r" % (path, y)
        return "" if dbits(x) == dbits(y) else "%s: float %r written as %r" % (path, x, y)
    if k == "str":
        if r[0] == "text" and r[1] == t[1]:
            return ""
        return "%s: string written as %s" % (path, r[0])
    if k == "badstr":
        return "%s: invalid UTF-8 written as %s (should have been refused)" % (path, r[0])
    if k == "bytes":
        if r[0] == "bytes" and r[1] == t[1]:
            return ""
        if fmt == "bson" and r[0] == "bson" and r[1] == "binary" and r[2][1] == t[1]:
            return ""
        if fmt == "ubjson" and r[0] == "array" and [e[1] for e in r[1] if e[0] == "int"] == list(t[1]) and len(r[1]) == len(t[1]):
            return ""
        return "%s: byte string written as %s" % (path, r[0])
    if k == "bigint":
        n = t[1]
        if r[0] == "tag" and r[1] in (2, 3) and r[2][0] == "bytes":
            mag = int.from_bytes(r[2][1], "big")
            return "" if (mag if r[1] == 2 else -1 - mag) == n else "%s: bignum value changed" % path
        if r[0] == "text" and r[1] == str(n).encode() and fmt in ("msgpack", "bson"):
            return ""
        if r[0] == "hpn" and int(r[1]) == n:
            return ""
        if r[0] == "int" and r[1] == n:
            return ""
        return "%s: bignum written as %r" % (path, r[:2])
    if k == "typed":
        if r[0] == "bytes" and t[1] == "u8" and r[1] == bytes(t[2]):
            return ""
        if r[0] == "tag":
            return ""       # CBOR typed-array tag: not modelled here
        if r[0] != "array" or len(r[1]) != len(t[2]):
            return "%s: typed array of %d written as %s" % (path, len(t[2]), r[0])
        for i, (v, e) in enumerate(zip(t[2], r[1])):
            e = strip_tags(e)
            if t[1] == "f64":
                if e[0] != "float" or RV.float_value(e[1], e[2]) != v:
                    return "%s[%d]: typed element changed" % (path, i)
            elif e[0] != "int" or e[1] != v:
                if not (e[0] == "hpn" and int(e[1]) == v):
                    return "%s[%d]: typed element changed" % (path, i)
        return ""
    if k == "arr":
        if r[0] != "array" or len(r[1]) != len(t[1]):
            return "%s: array of %d written as %s of %d" % (path, len(t[1]), r[0], len(r[1]) if r[0] in ("array", "map") else -1)
        for i, (e, f) in enumerate(zip(t[1], r[1])):
            w = tree_eq_rv(fmt, e, f, "%s[%d]" % (path, i))
            if w:
                return w
        return ""
    if k == "obj":
        if r[0] != "map" or len(r[1]) != len(t[1]):
            return "%s: object of %d written as %s of %d" % (path, len(t[1]), r[0], len(r[1]) if r[0] in ("array", "map") else -1)
        for (kb, v), (rk, rv_) in zip(t[1], r[1]):
            if rk != ("text", kb):
                return "%s: key changed" % path
            w = tree_eq_rv(fmt, v, rv_, "%s.%s" % (path, kb[:8]))
            if w:
                return w
        return ""
    return "%s: ?" % path


def strict_json(text):
    def bad(c):
        raise ValueError("constant " + c)
    return json.loads(text, parse_constant=bad, parse_float=Decimal)


def tree_eq_json(t, j, path="$"):
    k = t[0]
    if k == "null":
        return "" if j is None else "%s: null" % path
    if k == "bool":
        return "" if j is t[1] else "%s: bool" % path
    if k in ("int", "uint", "bigint"):
        return "" if (isinstance(j, int) and not isinstance(j, bool) and j == t[1]) else "%s: integer %d written as %r" % (path, t[1], j)
    if k in ("dbl", "half"):
        x = t[1] if k == "dbl" else RV.float_value(t[1], 16)
        if x != x or x in (float("inf"), float("-inf")):
            return "" if j is None else "%s: non-finite written as %r" % (path, j)
        if isinstance(j, bool) or not isinstance(j, (int, Decimal)):
            return "%s: float written as %r" % (path, j)
        return "" if float(j) == x else "%s: float %r written as %r" % (path, x, j)
    if k == "str":
        return "" if isinstance(j, str) and j.encode("utf-8", "surrogatepass") == t[1] else "%s: string changed" % path
    if k == "badstr":
        return "%s: invalid UTF-8 accepted" % path
    if k == "bytes":
        if not isinstance(j, str):
            return "%s: bytes written as %r" % (path, type(j))
        try:
            if t[2] == "base16":
                dec = bytes.fromhex(j)
            elif t[2] == "base64":
                dec = base64.b64decode(j + "=" * (-len(j) % 4))
            else:
                dec = base64.urlsafe_b64decode(j + "=" * (-len(j) % 4))
        except Exception:
            return "%s: byte string text not decodable" % path
        return "" if dec == t[1] else "%s: byte string changed" % path
    if k == "typed":
        if not isinstance(j, list) or len(j) != len(t[2]):
            return "%s: typed array" % path
        for v, e in zip(t[2], j):
            if float(e) != float(v) if t[1] == "f64" else e != v:
                return "%s: typed element" % path
        return ""
    if k == "arr":
        if not isinstance(j, list) or len(j) != len(t[1]):
            return "%s: array length" % path
        for i, (e, f) in enumerate(zip(t[1], j)):
            w = tree_eq_json(e, f, "%s[%d]" % (path, i))
            if w:
                return w
        return ""
    if k == "obj":
        if not isinstance(j, dict) or len(j) != len(t[1]):
            return "%s: object size" % path
        for kb, v in t[1]:
            ks = kb.decode("utf-8", "surrogatepass")
            if ks not in j:
                return "%s: key lost" % path
            w = tree_eq_json(v, j[ks], "%s.%s" % (path, ks[:8]))
            if w:
                return w
        return ""
    return "?"


def desc_to_py(d):
    """jsoncons typed description -> the Python value its JSON text must denote (None for 'not judged')."""
    if d is None or isinstance(d, bool):
        return d
    if "i" in d:
        return int(d["i"])
    if "u" in d:
        return int(d["u"])
    if "d" in d:
        x = struct.unpack(">d", bytes.fromhex(d["d"]))[0]
        return None if (x != x or math.isinf(x)) else x
    if "h" in d:
        x = RV.float_value(d["h"], 16)
        return None if (x != x or math.isinf(x)) else x
    if "s" in d:
        s = bytes.fromhex(d["s"]).decode("utf-8", "surrogatepass")
        if d.get("t") in ("bigint", "bigdec"):
            return ("num", s)
        return s
    if "b" in d:
        return ("b64", bytes.fromhex(d["b"]), d.get("t"))
    if "n" in d:
        return None
    if "a" in d:
        return [desc_to_py(e) for e in d["a"]]
    if "o" in d:
        out = {}
        for k, v in d["o"]:
            ks = bytes.fromhex(k).decode("utf-8", "surrogatepass")
            if ks not in out:
                out[ks] = desc_to_py(v)
        return out
    return None


def py_eq(exp, got, path="$"):
    if isinstance(exp, tuple) and exp[0] == "num":
        try:
            ok = isinstance(got, (int, Decimal)) and not isinstance(got, bool) and Decimal(got) == Decimal(exp[1])
        except Exception:
            ok = False
        return "" if ok else "%s: big number %s written as %r" % (path, exp[1][:40], str(got)[:40])
    if isinstance(exp, tuple) and exp[0] == "b64":
        return "" if isinstance(got, str) else "%s: byte string written as %r" % (path, type(got))
    if exp is None:
        return "" if got is None else "%s: null/non-finite written as %r" % (path, str(got)[:40])
    if isinstance(exp, bool):
        return "" if got is exp else "%s: bool" % path
    if isinstance(exp, int):
        return "" if (isinstance(got, int) and not isinstance(got, bool) and got == exp) else "%s: integer %d written as %r" % (path, exp, str(got)[:40])
    if isinstance(exp, float):
        return "" if (isinstance(got, (int, Decimal)) and not isinstance(got, bool) and float(got) == exp) else "%s: float %r written as %r" % (path, exp, str(got)[:40])
    if isinstance(exp, str):
        return "" if got == exp else "%s: string changed" % path
    if isinstance(exp, list):
        if not isinstance(got, list) or len(got) != len(exp):
            return "%s: array length" % path
        for i, (e, g) in enumerate(zip(exp, got)):
            w = py_eq(e, g, "%s[%d]" % (path, i))
            if w:
                return w
        return ""
    if isinstance(exp, dict):
        if not isinstance(got, dict) or set(got) != set(exp):
            return "%s: object members differ" % path
        for k in exp:
            w = py_eq(exp[k], got[k], "%s.%s" % (path, k[:8]))
            if w:
                return w
        return ""
    return ""


def _min_len(idx):
    return 3 if idx < 24 else 4 if idx < 256 else 5 if idx < 65536 else 7 if idx < 2 ** 32 else 11


def resolve_stringrefs(r, tables=None):
    """Independent implementation of the stringref extension (tags 256 / 25) over a reference-decoded value:
    strings are numbered in order of appearance inside a namespace when at least the minimum length for their index."""
    if tables is None:
        tables = []
    k = r[0]
    if k == "tag":
        if r[1] == 256:
            tables.append([])
            out = resolve_stringrefs(r[2], tables)
            tables.pop()
            return out
        if r[1] == 25 and r[2][0] == "int" and tables:
            idx = r[2][1]
            if 0 <= idx < len(tables[-1]):
                return tables[-1][idx]
            return ("bad-stringref", idx)
        return ("tag", r[1], resolve_stringrefs(r[2], tables))
    if k in ("text", "bytes"):
        if tables and len(r[1]) >= _min_len(len(tables[-1])):
            tables[-1].append(r)
        return r
    if k == "array":
        return ("array", [resolve_stringrefs(e, tables) for e in r[1]])
    if k == "map":
        out = []
        for kk, vv in r[1]:
            kk2 = resolve_stringrefs(kk, tables)
            out.append((kk2, resolve_stringrefs(vv, tables)))
        return ("map", out)
    return r


ENCODERS = ["json", "json_pretty", "cbor", "msgpack", "ubjson", "bson"]


def run(run, tier, seed, stage, bins):
    exe = bins[("x_bin", "asan")]
    rng = random.Random(seed * 104729 + 5)
    n_seq = stage.get("sequences_" + tier, 3000)
    trees = []
    for i in range(n_seq):
        t = gen_tree(rng, rng.choice([0, 1, 2, 2, 3, 3, 4]))
        trees.append(t)
    reqs = []
    meta = {}
    rid = 0
    for ti, t in enumerate(trees):
        ev = []
        events(t, ev)
        for enc in ENCODERS:
            if enc == "bson" and t[0] != "obj":
                continue
            req = {"id": rid, "op": "events", "enc": enc, "ev": ev}
            if enc == "cbor":
                req["pack"] = rng.random() < 0.3
            reqs.append(req)
            meta[rid] = (ti, enc)
            rid += 1
    replies = execdrv.run_requests(exe, "asan", reqs)
    seen = set()
    for rid_, (ti, enc) in meta.items():
        t = trees[ti]
        rep = replies.get(rid_, {"abnormal": "no-reply"})
        run.count("%s.events.%s.sequences" % (stage["name"], enc))
        seen.add(ti)
        sig = None
        detail = {}
        if "abnormal" in rep:
            sig, detail = "encode/%s/abnormal/%s" % (enc, rep["abnormal"]), {"stderr": rep.get("stderr", "")[-1500:]}
        elif "exception" in rep:
            sig, detail = "encode/%s/foreign-exception/%s" % (enc, rep.get("type")), {"what": rep["exception"]}
        elif rep.get("ok") is not True:
            run.count("%s.events.%s.refused" % (stage["name"], enc))
            if not wrong_len(t) and not has(t, ("badstr",)):
                run.count("%s.events.%s.refused_valid_sequence" % (stage["name"], enc))
        else:
            out = bytes.fromhex(rep["hex"])
            why = ""
            if enc.startswith("json"):
                try:
                    j = strict_json(out.decode("utf-8"))
                    why = tree_eq_json(t, j)
                except Exception as e:
                    why = "output is not strict RFC 8259 JSON: %s" % str(e)[:80]
            else:
                res = REF[enc].decode(out)
                if not res.ok:
                    why = "output is ill-formed (%s)" % res.reason
                elif res.consumed != len(out):
                    why = "output has %d bytes after the encoded item" % (len(out) - res.consumed)
                else:
                    val = resolve_stringrefs(res.value) if enc == "cbor" and reqs[rid_].get("pack") else res.value
                    why = tree_eq_rv(enc, t, val)
            if why:
                cls = "invalid-utf8-accepted" if has(t, ("badstr",)) else ("wrong-declared-length" if wrong_len(t) else why.split(": ", 1)[-1].split(" ")[0])
                sig = "encode/%s/malformed-or-different-output/%s" % (enc, cls)
                detail = {"why": why[:300], "output": rep["hex"][:400]}
            else:
                run.count("%s.events.%s.judged_ok" % (stage["name"], enc))
        if sig:
            detail.update({"encoder": enc, "events": json.dumps(reqs[rid_]["ev"])[:900]})
            run.add_violation(sig, detail, stage=stage["name"], case=rid_, replay={"req": reqs[rid_]})
    run.evaluations += len(meta)
    run.distinct += len(seen)
    run.samples.append({"stage": stage["name"], "case": {"events": json.dumps(reqs[0]["ev"])[:300], "encoder": reqs[0]["enc"]}})

    # ---- transcoding ----
    n_tr = stage.get("transcodes_" + tier, 2500)
    treqs = []
    tmeta = {}
    for i in range(n_tr):
        fmt = rng.choice(["cbor", "msgpack", "ubjson", "bson"])
        ref = REF[fmt]
        v = ref.gen_value(rng, depth=rng.choice([1, 2, 3]), jsonlike=True)
        try:
            enc = ref.encode(v, rng, variety=rng.choice([0.0, 0.6]))
        except ValueError:
            continue
        if rng.random() < 0.3:
            enc = c07.mutate(enc, rng)
        treqs.append({"id": i, "op": "transcode", "fmt": fmt, "hex": H(enc)})
        tmeta[i] = fmt
    treplies = execdrv.run_requests(exe, "asan", treqs)
    tseen = 0
    for rq in treqs:
        rep = treplies.get(rq["id"], {"abnormal": "no-reply"})
        fmt = tmeta[rq["id"]]
        if "abnormal" in rep:
            run.add_violation("transcode/%s/abnormal/%s" % (fmt, rep["abnormal"]), {"input": rq["hex"][:400], "stderr": rep.get("stderr", "")[-1500:]}, stage=stage["name"], replay={"req": rq})
            continue
        if "exception" in rep:
            run.add_violation("transcode/%s/foreign-exception/%s" % (fmt, rep.get("type")), {"input": rq["hex"][:400], "what": rep["exception"]}, stage=stage["name"], replay={"req": rq})
            continue
        if rep.get("ok") is not True:
            run.count("%s.transcode.%s.input_rejected" % (stage["name"], fmt))
            continue
        tseen += 1
        run.count("%s.transcode.%s.values" % (stage["name"], fmt))
        exp = desc_to_py(rep["v"])
        for key in ("json", "pretty"):
            if key in rep:
                txt = bytes.fromhex(rep[key])
                try:
                    j = strict_json(txt.decode("utf-8"))
                    why = py_eq(exp, j)
                except Exception as e:
                    why = "not strict RFC 8259 JSON: %s" % str(e)[:80]
                if why:
                    run.add_violation("transcode/%s-to-json/%s" % (fmt, why.split(": ", 1)[-1].split(" ")[0]), {"why": why[:300], "input": rq["hex"][:400], "value": json.dumps(rep["v"])[:400], "text": txt[:300].decode("utf-8", "replace")}, stage=stage["name"], replay={"req": rq})
        for tgt in ("cbor", "msgpack", "ubjson", "bson"):
            if tgt in rep:
                out = bytes.fromhex(rep[tgt])
                res = REF[tgt].decode(out)
                if not res.ok or res.consumed != len(out):
                    run.add_violation("transcode/%s-to-%s/ill-formed-output" % (fmt, tgt), {"why": res.reason if not res.ok else "trailing bytes", "input": rq["hex"][:400], "value": json.dumps(rep["v"])[:400], "output": rep[tgt][:400]}, stage=stage["name"], replay={"req": rq})
                else:
                    run.count("%s.transcode.to_%s.well_formed" % (stage["name"], tgt))
    run.evaluations += len(treqs)
    run.distinct += tseen


def replay(rp, stage):
    exe = core.build("x_bin", "asan")
    req = (rp.get("replay") or {}).get("req")
    req["id"] = 0
    print(json.dumps(execdrv.run_requests(exe, "asan", [req]).get(0))[:2000])
    return 1
