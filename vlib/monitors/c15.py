"""C15: JSON Patch is RFC 6902-conformant and atomic.
Recorded-log monitor. Valid patches of 1-12 operations are generated against the EVOLVING document (simulated with the
reference interpreter vlib/ref/pointer_patch_ref.py); each is applied by the real library (exec driver x_ptr, json and ojson,
error_code and throwing overloads) as is and with one failing operation injected at EVERY position, so that every prefix
length of successful operations is followed by a rollback. Oracle = the reference interpreter applied to the same
(document, patch) text: success => equal document; error => an error is reported and the document is unchanged.
Diff law: from_diff(a, b) applied to a (by the library AND by the reference interpreter) must give b."""
import json, random
from .. import core, execdrv
from ..ref import pointer_patch_ref as R
from . import c14

FIX = c14.FIX
KEYS = ["a", "b", "c", "d", "e", "", "0", "1", "01", "-", "a/b", "m~n", "~1", "é", "\U0001F600", "k\"q", " ", "long_member_name_beyond_small_string_optimisation_xxxxxxxx"]


def gen_doc(rng, depth=None):
    depth = rng.choice([1, 2, 2, 3, 3]) if depth is None else depth
    v = c14.gen_value(rng, depth, KEYS, 4)
    if not isinstance(v, (dict, list)) and rng.random() < 0.9:
        v = c14.gen_value(rng, max(depth, 1), KEYS, 5)
    return v


def locs(doc):
    return [list(t) for t in R.locations(doc)]


def permuted(rng, v):
    """an equal JSON value with object members in another order"""
    if isinstance(v, dict):
        ks = list(v.keys())
        rng.shuffle(ks)
        return {k: permuted(rng, v[k]) for k in ks}
    if isinstance(v, list):
        return [permuted(rng, x) for x in v]
    return v


def floated(rng, v):
    """an equal JSON value in which some integers are spelled as floating-point numbers (RFC 6902 sec. 4.6: numbers are
    equal if numerically equal); only integers a double represents exactly. Used for 'test' values only: documents stay float-free."""
    if isinstance(v, dict):
        return {k: floated(rng, x) for k, x in v.items()}
    if isinstance(v, list):
        return [floated(rng, x) for x in v]
    if isinstance(v, int) and not isinstance(v, bool) and abs(v) <= 2 ** 53 and rng.random() < 0.6:
        return float(v)
    return v


def gen_add_path(rng, doc):
    if rng.random() < 0.06:
        return []
    cands = [t for t in locs(doc) if isinstance(R.get(doc, t), (dict, list))]
    if not cands:
        return []
    base = rng.choice(cands)
    parent = R.get(doc, base)
    if isinstance(parent, dict):
        if parent and rng.random() < 0.35:
            return base + [rng.choice(list(parent.keys()))]
        return base + [rng.choice(KEYS)]
    r = rng.random()
    if r < 0.25:
        return base + ["-"]
    return base + [str(rng.randrange(len(parent) + 1))]


def decorate(rng, op):
    """member order of the operation object is irrelevant; members not defined for the operation are ignored (RFC 6902 sec. 4)"""
    if rng.random() < 0.15:
        extra = rng.choice([("xyz", 123), ("comment", "ignored"), ("from", "/nonexistent/location"), ("value", {"ignored": True}), ("Op", "remove"), ("paths", "/a")])
        if extra[0] not in op:
            op[extra[0]] = extra[1]
    if rng.random() < 0.3:
        ks = list(op.keys())
        rng.shuffle(ks)
        op = {k: op[k] for k in ks}
    return op


def gen_valid_op(rng, doc):
    """-> (op, document after), the op succeeds on doc per the reference"""
    for _ in range(12):
        kind = rng.choice(["add"] * 5 + ["remove"] * 3 + ["replace"] * 3 + ["move"] * 4 + ["copy"] * 3 + ["test"] * 3)
        all_locs = locs(doc)
        nonroot = [t for t in all_locs if t]
        F = R.format_pointer
        if kind == "add":
            op = {"op": "add", "path": F(gen_add_path(rng, doc)), "value": c14.gen_value(rng, rng.choice([0, 0, 1, 2]), KEYS)}
        elif kind == "remove":
            if not nonroot:
                continue
            op = {"op": "remove", "path": F(rng.choice(nonroot))}
        elif kind == "replace":
            t = [] if rng.random() < 0.06 else rng.choice(all_locs)
            op = {"op": "replace", "path": F(t), "value": c14.gen_value(rng, rng.choice([0, 0, 1, 2]), KEYS)}
        elif kind == "move":
            if not nonroot:
                continue
            frm = rng.choice(nonroot)
            r = rng.random()
            if r < 0.12:
                path = list(frm)                               # onto itself
            elif r < 0.45 and isinstance(R.get(doc, frm[:-1]), list):
                n = len(R.get(doc, frm[:-1]))                  # inside the same array: index shifting
                path = frm[:-1] + [rng.choice([str(rng.randrange(n)), "-", str(n - 1)])]
            elif r < 0.6 and isinstance(R.get(doc, frm[:-1]), dict):
                path = frm[:-1] + [rng.choice(list(R.get(doc, frm[:-1]).keys()) + KEYS)]   # sibling member (possibly overwriting)
            else:
                try:
                    path = gen_add_path(rng, R.remove(doc, frm))
                except R.PointerError:
                    continue
            op = {"op": "move", "from": F(frm), "path": F(path)}
        elif kind == "copy":
            frm = [] if rng.random() < 0.05 else rng.choice(all_locs)
            op = {"op": "copy", "from": F(frm), "path": F(gen_add_path(rng, doc))}
        else:
            t = rng.choice(all_locs)
            v = R.get(doc, t)
            val = permuted(rng, v) if rng.random() < 0.4 else v
            if rng.random() < 0.25:
                val = floated(rng, val)
            op = {"op": "test", "path": F(t), "value": val}
        op = decorate(rng, op)
        try:
            return op, R.apply_operation(doc, op)
        except (R.PatchError, R.Unspecified):
            continue
    op = {"op": "test", "path": "", "value": doc}
    return op, doc


def different_value(rng, v):
    for _ in range(8):
        w = c14.gen_value(rng, 1, KEYS)
        if not R.json_equal(v, w):
            return w
    return [v]


def missing_path(rng, doc):
    """a location that does not exist in doc"""
    all_locs = locs(doc)
    for _ in range(10):
        base = rng.choice(all_locs)
        parent = R.get(doc, base)
        if isinstance(parent, list):
            n = len(parent)
            t = base + [rng.choice([str(n), str(n + 1), "-", "0" + str(rng.randrange(n)) if n else "00", "-1", "+0", "", "1e0", str(2 ** 64 + (rng.randrange(n) if n else 0))])]
        elif isinstance(parent, dict):
            t = base + [rng.choice(["nope", "zz", "~", "/", "00"])]
        else:
            t = base + [rng.choice(["0", "-", "a", ""])]
        if not R.contains(doc, t):
            return t
    return ["no", "such", "path"]


def gen_bad_op(rng, doc):
    """-> an element that must make the patch fail when reached with the document `doc`"""
    F = R.format_pointer
    all_locs = locs(doc)
    nonroot = [t for t in all_locs if t]
    for _ in range(20):
        k = rng.randrange(24)
        if k == 0:
            t = rng.choice(all_locs)
            op = {"op": "test", "path": F(t), "value": different_value(rng, R.get(doc, t))}
        elif k == 1:
            op = {"op": "test", "path": F(missing_path(rng, doc)), "value": None}
        elif k == 2:
            op = {"op": "remove", "path": F(missing_path(rng, doc))}
        elif k == 3:
            op = {"op": "replace", "path": F(missing_path(rng, doc)), "value": 1}
        elif k == 4:
            arrs = [t for t in all_locs if isinstance(R.get(doc, t), list)]
            if not arrs:
                continue
            t = rng.choice(arrs)
            n = len(R.get(doc, t))
            op = {"op": "add", "path": F(t + [rng.choice([str(n + 1), str(n + 7), "0" + str(n), "00", "-1", "+" + str(n), "", " 0", "0.0", str(2 ** 64 + n), str(2 ** 64)])]), "value": "x"}
        elif k == 5:
            op = {"op": "add", "path": F(missing_path(rng, doc) + [rng.choice(["x", "0", "-"])]), "value": "x"}
        elif k == 6:
            op = {"op": "move", "from": F(missing_path(rng, doc)), "path": F(gen_add_path(rng, doc))}
        elif k in (7, 8):
            # a location cannot be moved into one of its children
            conts = [t for t in nonroot if isinstance(R.get(doc, t), (dict, list))]
            if k == 8:
                # array element whose right neighbour is a container: after the removal that neighbour takes the index
                conts = [t for t in nonroot if isinstance(R.get(doc, t[:-1]), list) and int(t[-1]) + 1 < len(R.get(doc, t[:-1])) and isinstance(R.get(doc, t[:-1])[int(t[-1]) + 1], (dict, list))] or conts
            if not conts:
                continue
            frm = rng.choice(conts)
            v = R.get(doc, frm)
            if isinstance(v, dict):
                tail = [rng.choice(list(v.keys()) + ["new"])] if v else ["new"]
            elif isinstance(v, list):
                tail = [rng.choice(["0", "-"])]
            else:
                tail = [rng.choice(["x", "0", "-"])]
            op = {"op": "move", "from": F(frm), "path": F(frm + tail)}
        elif k == 9:
            op = {"op": "copy", "from": F(missing_path(rng, doc)), "path": F(gen_add_path(rng, doc))}
        elif k == 10:
            op = {"path": F(rng.choice(all_locs)), "value": 1}
        elif k == 11:
            op = {"op": rng.choice(["add", "remove", "replace", "test"]), "value": 1}
        elif k == 12:
            op = {"op": rng.choice(["add", "replace", "test"]), "path": F(rng.choice(all_locs))}
        elif k == 13:
            op = {"op": rng.choice(["move", "copy"]), "path": F(gen_add_path(rng, doc))}
        elif k == 14:
            op = {"op": rng.choice(["bogus", "ADD", "Add", "", "add ", "tests", "delete", "re", "mov"]), "path": F(rng.choice(all_locs)), "value": 1, "from": ""}
        elif k == 15:
            return rng.choice([5, "add", None, True, [], [{"op": "test", "path": "", "value": 0}]])
        elif k == 16:
            op = {"op": "add", "path": rng.choice([5, None, ["a"], {"a": 1}, True]), "value": 1}
        elif k == 17:
            op = {"op": rng.choice(["move", "copy"]), "from": rng.choice([5, None, ["a"], True]), "path": F(gen_add_path(rng, doc))}
        elif k == 18:
            op = {"op": rng.choice([5, None, ["add"], True]), "path": F(rng.choice(all_locs)), "value": 1}
        elif k == 19:
            op = {"op": rng.choice(["add", "remove", "replace", "test"]), "path": rng.choice(["a", "/~2", "/a~", "x/", "~0", "/a/~x"]), "value": 1}
        elif k == 20:
            op = {"op": rng.choice(["move", "copy"]), "from": rng.choice(["a", "/~2", "/a~"]), "path": F(gen_add_path(rng, doc))}
        elif k == 21:
            arrs = [t for t in all_locs if isinstance(R.get(doc, t), list)]
            if not arrs:
                continue
            t = rng.choice(arrs)
            which = rng.choice(["remove", "replace", "test", "copy", "move"])
            if which in ("copy", "move"):
                op = {"op": which, "from": F(t + ["-"]), "path": F(gen_add_path(rng, doc))}
            else:
                op = {"op": which, "path": F(t + ["-"]), "value": 1}
        elif k == 22:
            scal = [t for t in all_locs if not isinstance(R.get(doc, t), (dict, list))]
            if not scal:
                continue
            op = {"op": rng.choice(["add", "replace", "remove", "test"]), "path": F(rng.choice(scal) + [rng.choice(["0", "-", "a", ""])]), "value": 1}
        else:
            t = rng.choice(all_locs)
            v = R.get(doc, t)
            if isinstance(v, bool):
                w = int(v)
            elif isinstance(v, int):
                w = str(v)
            elif v is None:
                w = rng.choice([0, False, ""])
            elif isinstance(v, str):
                w = [v]
            elif isinstance(v, list):
                w = v + [None] if rng.random() < 0.5 else {str(i): x for i, x in enumerate(v)}
            else:
                w = dict(v)
                w["extra-member"] = None
            op = {"op": "test", "path": F(t), "value": w}
        try:
            R.apply_operation(doc, op)
        except R.PatchError:
            return decorate(rng, op) if rng.random() < 0.3 and "op" in op and "path" in op and k not in (11, 12, 13) else op
        except R.Unspecified:
            continue
    return {"op": "test", "path": "", "value": different_value(rng, doc)}


def reference_outcome(doc, patch):
    try:
        return ("ok", R.apply_patch(doc, patch))
    except R.PatchError as e:
        return ("err", e.kind, e.index)
    except R.Unspecified as e:
        return ("open", e.kind, e.index)


def lib_failed(rep):
    return rep.get("ec") is not None or "threw" in rep


def judge_application(policy, doc, patch, mode, rep, counts):
    """-> list of (signature, detail, kind) ; kind in (None, 'localise', 'shrink')"""
    out = []
    base = {"policy": policy, "overload": "throwing" if mode == "throw" else "error_code", "document": json.dumps(doc)[:700], "patch": json.dumps(patch)[:1200]}

    def viol(sig, kind=None, **d):
        d.update(base)
        out.append(("patch/" + sig, d, kind))
    try:
        after = c14.loads_strict(FIX(rep["doc"]))
    except c14.Dup as e:
        viol("duplicate-member-in-document/%s" % policy, member=str(e))
        return out
    except Exception as e:
        viol("document-text-not-json", why=str(e)[:100])
        return out
    failed = lib_failed(rep)
    if mode == "ec" and "threw" in rep:
        counts["error_code_overload_threw.%s" % rep.get("type")] = counts.get("error_code_overload_threw.%s" % rep.get("type"), 0) + 1
    exp = reference_outcome(doc, patch)
    counts["expected.%s" % exp[0]] = counts.get("expected.%s" % exp[0], 0) + 1
    if failed:
        counts["rollbacks_checked"] = counts.get("rollbacks_checked", 0) + 1
        if exp[0] != "ok" and isinstance(patch, list):
            counts["rollback_after_%02d_operations" % exp[2]] = counts.get("rollback_after_%02d_operations" % exp[2], 0) + 1
        if not R.json_equal(after, doc):
            viol("atomicity/%s/document-changed-after-error" % policy, "shrink", ec=rep.get("ec") or rep.get("threw"), document_after=json.dumps(after)[:700],
                 reference=("error %s at operation %d" % (exp[1], exp[2])) if exp[0] != "ok" else "success expected")
        elif policy == "ojson" and not R.ordered_equal(after, doc):
            # the property demands equality "as a JSON value"; a changed member order is observed, not judged
            counts["observed.ojson_member_order_changed_after_rollback"] = counts.get("observed.ojson_member_order_changed_after_rollback", 0) + 1
    if exp[0] == "open":
        counts["not_judged.%s" % exp[1]] = counts.get("not_judged.%s" % exp[1], 0) + 1
        return out
    if exp[0] == "err":
        counts["error_expected.%s" % exp[1]] = counts.get("error_expected.%s" % exp[1], 0) + 1
        if not failed:
            viol("error-not-reported/%s" % exp[1], "reproduce", failing_operation=json.dumps(patch[exp[2]])[:300] if isinstance(patch, list) else None,
                 operation_index=exp[2], document_after=json.dumps(after)[:700])
        return out
    if failed:
        viol("valid-patch-refused", "localise", ec=rep.get("ec") or rep.get("threw"), expected_document=json.dumps(exp[1])[:700])
    elif not R.json_equal(after, exp[1]):
        viol("result-differs", "localise", expected_document=json.dumps(exp[1])[:700], document_after=json.dumps(after)[:700])
    else:
        counts["success_equal"] = counts.get("success_equal", 0) + 1
    return out


# ---------------------------------------------------------------------------------------- follow-up runs for good reports
def lib_apply_groups(exe, groups):
    """groups: list of (policy, doc, [(patch, mode), ...]) -> list of lists of reply dicts (one driver run for all)"""
    reqs = [{"id": i, "op": "patch", "policy": pol, "doc": json.dumps(d), "patches": [{"patch": json.dumps(p), "mode": m} for p, m in pm]} for i, (pol, d, pm) in enumerate(groups)]
    reps = execdrv.run_requests(exe, "asan", reqs) if reqs else {}
    out = []
    for i, (pol, d, pm) in enumerate(groups):
        r = reps.get(i, {})
        out.append(r["res"] if "res" in r and len(r["res"]) == len(pm) else [{"bad": r}] * len(pm))
    return out


def lib_apply(exe, policy, cases):
    """cases: list of (doc, patch, mode) -> list of reply dicts"""
    return [g[0] for g in lib_apply_groups(exe, [(policy, d, [(p, m)]) for d, p, m in cases])]


def lib_doc(rep):
    try:
        return c14.loads_strict(FIX(rep["doc"]))
    except Exception:
        return Ellipsis


def localise_many(exe, cases):
    """cases: list of (policy, doc, patch, mode) whose whole patch is valid per the reference but was refused / gave another
    document. -> list of (operation name, index) of the first operation at which library and reference part."""
    groups = [(pol, d, [(p[:j], m) for j in range(1, len(p) + 1)]) for pol, d, p, m in cases]
    res = []
    for (pol, d, p, m), reps in zip(cases, lib_apply_groups(exe, groups)):
        hit = ("?", -1)
        for j in range(1, len(p) + 1):
            exp = reference_outcome(d, p[:j])
            r = reps[j - 1]
            if "bad" in r or lib_failed(r) or not R.json_equal(lib_doc(r), exp[1]):
                hit = (p[j - 1].get("op") if isinstance(p[j - 1], dict) else "?", j - 1)
                break
        res.append(hit)
    return res


def shrink(exe, policy, doc, patch, mode, still_bad, rounds=10):
    """greedy: drop operations while the misbehaviour (still_bad(doc, patch, reply)) persists"""
    if not isinstance(patch, list):
        return patch
    for _ in range(rounds):
        cands = [patch[:i] + patch[i + 1:] for i in range(len(patch))]
        if not cands:
            break
        reps = lib_apply(exe, policy, [(doc, c, mode) for c in cands])
        for c, r in zip(cands, reps):
            if "bad" not in r and still_bad(doc, c, r):
                patch = c
                break
        else:
            break
    return patch


def single_op_reproducer(exe, policy, doc, patch, idx, mode, expected_text=None):
    """the operation patch[idx] alone on the document the reference computes for patch[:idx]; None if that does not misbehave"""
    before = R.apply_patch(doc, patch[:idx])
    op = patch[idx]
    single = lib_apply(exe, policy, [(before, [op], mode)])[0]
    exp = reference_outcome(before, [op])
    if exp[0] == "ok":
        bad = lib_failed(single) or not R.json_equal(lib_doc(single), exp[1])
        want = json.dumps(exp[1])
    else:
        bad = not lib_failed(single)
        want = "error (%s), document unchanged" % exp[1]
    if not bad:
        return None
    return {"policy": policy, "document": json.dumps(before), "patch": json.dumps([op]), "expected": want, "observed_document": FIX(single.get("doc", "")), "observed_error": single.get("ec") or single.get("threw")}


def refine(exe, sig, detail, kind, policy, doc, patch, mode, located=None):
    """-> (signature, detail) with the operation named / a small reproducer added. located: (op, idx) from localise_many"""
    try:
        if kind == "localise" and isinstance(patch, list) and patch:
            op, idx = located if located is not None else localise_many(exe, [(policy, doc, patch, mode)])[0]
            if idx < 0:
                return sig + "/(operation not identified)", detail
            suffix = op
            if op == "test" and sig.endswith("valid-patch-refused") and policy == "ojson":
                o = patch[idx]
                before = R.apply_patch(doc, patch[:idx])
                if not R.ordered_equal(R.get(before, R.parse_pointer(o["path"])), o["value"]):
                    suffix = "test/ojson-equality-depends-on-member-order"
            detail = dict(detail, first_diverging_operation=json.dumps(patch[idx])[:300], operation_index=idx)
            return sig + "/" + suffix, detail
        if kind == "shrink":
            ordered = sig.endswith("member-order-changed-after-error")

            def still_bad(d, p, r):
                if not lib_failed(r):
                    return False
                a = lib_doc(r)
                return (R.json_equal(a, d) and not R.ordered_equal(a, d)) if ordered else not R.json_equal(a, d)
            small = shrink(exe, policy, doc, patch, mode, still_bad)
            r = lib_apply(exe, policy, [(doc, small, mode)])[0]
            detail = dict(detail, minimal_reproducer={"policy": policy, "document": json.dumps(doc), "patch": json.dumps(small), "expected": "error reported, document unchanged",
                                                       "observed_document": FIX(r.get("doc", "")), "observed_error": r.get("ec") or r.get("threw")})
            return sig, detail
    except Exception as e:     # a follow-up run must never hide the original observation
        detail = dict(detail, follow_up_failed=repr(e)[:200])
    return sig, detail


def add_reproducer(exe, detail, policy, doc, patch, mode):
    try:
        if isinstance(patch, list) and "operation_index" in detail and "minimal_reproducer" not in detail:
            rep = single_op_reproducer(exe, policy, doc, patch, detail["operation_index"], mode)
            if rep:
                return dict(detail, minimal_reproducer=rep)
    except Exception as e:
        return dict(detail, follow_up_failed=repr(e)[:200])
    return detail


# ---------------------------------------------------------------------------------------- diff law
def edit(rng, doc):
    """b = a with one edit"""
    all_locs = locs(doc)
    k = rng.randrange(6)
    try:
        if k == 0:
            return R.add(doc, gen_add_path(rng, doc), c14.gen_value(rng, 1, KEYS))
        if k == 1 and len(all_locs) > 1:
            return R.remove(doc, rng.choice([t for t in all_locs if t]))
        if k == 2:
            return R.replace(doc, rng.choice(all_locs), c14.gen_value(rng, rng.choice([0, 1, 2]), KEYS))
        if k == 3:
            t = rng.choice(all_locs)
            v = R.get(doc, t)
            w = [v] if rng.random() < 0.5 else {"a": v}      # type change that keeps the old value nested
            return R.replace(doc, t, w)
        if k == 4:
            return permuted(rng, doc)
        arrs = [t for t in all_locs if isinstance(R.get(doc, t), list) and R.get(doc, t)]
        if arrs:
            t = rng.choice(arrs)
            a = list(R.get(doc, t))
            if rng.random() < 0.5:
                a.insert(0, c14.gen_value(rng, 1, KEYS))      # shift everything
            else:
                rng.shuffle(a)
            return R.replace(doc, t, a)
    except R.PointerError:
        pass
    return doc


def gen_pair(rng):
    a = gen_doc(rng)
    r = rng.random()
    if r < 0.25:
        return a, gen_doc(rng), "random"
    if r < 0.30:
        return a, a, "identical"
    b = a
    for _ in range(rng.choice([1, 1, 2, 3])):
        b = edit(rng, b)
    return a, b, "near"


def judge_diff(policy, a, b, rep, counts):
    out = []
    base = {"policy": policy, "a": json.dumps(a)[:700], "b": json.dumps(b)[:700]}

    def viol(sig, **d):
        d.update(base)
        out.append(("patch/" + sig, d, None))
    if "threw" in rep:
        viol("diff/%s/exception" % policy, what=rep["threw"])
        return out
    try:
        patch = c14.loads_strict(FIX(rep["patch"]))
        after = c14.loads_strict(FIX(rep["doc"]))
    except Exception as e:
        viol("diff/%s/reply-not-json" % policy, why=str(e)[:100])
        return out
    base["from_diff"] = json.dumps(patch)[:900]
    if not isinstance(patch, list):
        viol("diff/%s/patch-is-not-an-array" % policy)
        return out
    counts["diff.%s.operations" % policy] = counts.get("diff.%s.operations" % policy, 0) + len(patch)
    if R.json_equal(a, b) and patch:
        counts["diff.non_empty_patch_for_equal_documents"] = counts.get("diff.non_empty_patch_for_equal_documents", 0) + 1
    ref = reference_outcome(a, patch)
    if ref[0] != "ok":
        viol("diff-law/%s/patch-not-applicable-per-rfc" % policy, reference="%s at operation %d" % (ref[1], ref[2]))
    elif not R.json_equal(ref[1], b):
        viol("diff-law/%s/reference-application-differs" % policy, reference_result=json.dumps(ref[1])[:700])
    if rep.get("ec") is not None:
        viol("diff-law/%s/apply-failed" % policy, ec=rep["ec"])
    elif not R.json_equal(after, b):
        viol("diff-law/%s" % policy, observed=json.dumps(after)[:700])
    elif rep.get("lib_equal") is not True:
        counts["diff.%s.library_operator_eq_says_different" % policy] = counts.get("diff.%s.library_operator_eq_says_different" % policy, 0) + 1
    return out


# ---------------------------------------------------------------------------------------- driver of the stage
def build_patch_requests(rng, n_apps):
    reqs = []
    total = 0
    stats = {}
    while total < n_apps:
        policy = rng.choice(["json", "ojson"])
        doc = gen_doc(rng)
        n = rng.choice([1, 1, 2, 3, 4, 5, 6, 8, 10, 12])
        ops, docs = [], [doc]
        for _ in range(n):
            op, nxt = gen_valid_op(rng, docs[-1])
            ops.append(op)
            docs.append(nxt)
            if c14.size_of(nxt) > 150:
                break
        for o in ops:
            stats["valid_op." + o["op"]] = stats.get("valid_op." + o["op"], 0) + 1
        patches = [ops]
        for k in range(len(ops) + 1):
            bad = gen_bad_op(rng, docs[k])
            patches.append(ops[:k] + [bad] + ops[k:])
        if rng.random() < 0.03:
            patches.append(rng.choice([{}, {"op": "add", "path": "/a", "value": 1}, "x", None, 5, True, ops[0]]))   # the patch itself is not an array
        if rng.random() < 0.03:
            patches.append([])
        plist = [{"patch": json.dumps(p), "mode": rng.choice(["ec", "ec", "throw"])} for p in patches]
        reqs.append({"id": len(reqs), "op": "patch", "policy": policy, "doc": json.dumps(doc), "patches": plist})
        total += len(plist)
    return reqs, stats


def judge_patch_request(rq, rep, counts):
    """-> list of (sig, detail, kind, patch, mode)"""
    if "abnormal" in rep:
        return [("patch/abnormal/%s" % rep["abnormal"], {"stderr": rep.get("stderr", "")[-1500:], "request": json.dumps(rq)[:1500]}, None, None, None)]
    if "exception" in rep:
        return [("patch/%s-exception/%s" % ("foreign" if rep["exception"].startswith("foreign") else "escaped-json", rep.get("type")), {"what": rep["exception"], "request": json.dumps(rq)[:1500]}, None, None, None)]
    if "res" not in rep or len(rep["res"]) != len(rq["patches"]):
        return [("patch/harness/short-reply", {"reply": json.dumps(rep)[:600]}, None, None, None)]
    doc = json.loads(rq["doc"])
    out = []
    for pj, r in zip(rq["patches"], rep["res"]):
        patch = json.loads(pj["patch"])
        for sig, detail, kind in judge_application(rq["policy"], doc, patch, pj["mode"], r, counts):
            out.append((sig, detail, kind, patch, pj["mode"]))
    return out


CHUNK_APPS = 300000     # patch applications / diff pairs generated, executed and judged at a time (bounds memory in the thorough tier)
CHUNK_PAIRS = 100000


def _patch_chunk(run, exe, rng, stage, n_apps, counts, per_sig, seen, stats, id0):
    name = stage["name"]
    reqs, st = build_patch_requests(rng, n_apps)
    for k, v in st.items():
        stats[k] = stats.get(k, 0) + v
    replies = execdrv.run_requests(exe, "asan", reqs)
    napps = 0
    pending = []
    for rq in reqs:
        rep = replies.get(rq["id"], {"abnormal": "no-reply"})
        for sig, detail, kind, patch, mode in judge_patch_request(rq, rep, counts):
            pending.append((sig, detail, kind, rq, patch, mode))
        napps += len(rq["patches"])
        for pj in rq["patches"]:
            seen.add(hash((rq["policy"], rq["doc"], pj["patch"])))
    # name the first diverging operation of every refused / differently applied valid patch (one batched driver run),
    # shrink rollback failures and attach single-operation reproducers for the first few observations of each signature
    loc_idx = [i for i, x in enumerate(pending) if x[2] == "localise" and isinstance(x[4], list) and x[4]][:stage.get("localise_max", 20000)]
    located = dict(zip(loc_idx, localise_many(exe, [(pending[i][3]["policy"], json.loads(pending[i][3]["doc"]), pending[i][4], pending[i][5]) for i in loc_idx]))) if loc_idx else {}
    for i, (sig, detail, kind, rq, patch, mode) in enumerate(pending):
        doc = json.loads(rq["doc"])
        if kind == "localise":
            if i in located:
                sig, detail = refine(exe, sig, detail, kind, rq["policy"], doc, patch, mode, located[i])
            elif isinstance(patch, list) and patch:
                sig = sig + "/(not localised)"
        elif kind == "shrink" and per_sig.get(sig, 0) < 3:
            sig, detail = refine(exe, sig, detail, kind, rq["policy"], doc, patch, mode)
        per_sig[sig] = per_sig.get(sig, 0) + 1
        if per_sig[sig] <= 3:
            detail = add_reproducer(exe, detail, rq["policy"], doc, patch, mode)
            one = dict(rq, patches=[{"patch": json.dumps(patch), "mode": mode}]) if patch is not None or mode is not None else rq
            run.add_violation(sig, detail, stage=name, case=id0 + rq["id"], replay={"req": one, "kind": "patch"})
    for rq in reqs[:300]:
        if len(run.samples) >= 3:
            break
        if 3 <= len(rq["patches"]) <= 5:
            rep = replies.get(rq["id"], {})
            run.samples.append({"stage": name, "case": {"policy": rq["policy"], "document": rq["doc"][:300], "patches": [p["patch"][:400] for p in rq["patches"][:3]],
                                                         "replies": [{"ec": r.get("ec"), "threw": r.get("threw"), "doc": FIX(r.get("doc", ""))[:200]} for r in rep.get("res", [])[:3]]}})
    return napps, len(reqs)


def _diff_chunk(run, exe, rng, stage, n_pairs, counts, per_sig, dseen, kinds, id0):
    name = stage["name"]
    dreqs = []
    cur = None
    for i in range(n_pairs):
        if cur is None or len(cur["pairs"]) >= 20:
            cur = {"id": len(dreqs), "op": "diff", "policy": rng.choice(["json", "ojson"]), "pairs": []}
            dreqs.append(cur)
        a, b, kind = gen_pair(rng)
        kinds[kind] = kinds.get(kind, 0) + 1
        cur["pairs"].append({"a": json.dumps(a), "b": json.dumps(b)})
    dreplies = execdrv.run_requests(exe, "asan", dreqs)
    for rq in dreqs:
        rep = dreplies.get(rq["id"], {"abnormal": "no-reply"})
        found = []
        if "abnormal" in rep:
            found.append(("patch/diff/abnormal/%s" % rep["abnormal"], {"stderr": rep.get("stderr", "")[-1500:], "request": json.dumps(rq)[:1500]}, rq))
        elif "exception" in rep:
            found.append(("patch/diff/%s-exception/%s" % ("foreign" if rep["exception"].startswith("foreign") else "escaped-json", rep.get("type")), {"what": rep["exception"]}, rq))
        elif "res" not in rep or len(rep["res"]) != len(rq["pairs"]):
            found.append(("patch/harness/short-reply", {"reply": json.dumps(rep)[:600]}, rq))
        else:
            for pr, r in zip(rq["pairs"], rep["res"]):
                a, b = json.loads(pr["a"]), json.loads(pr["b"])
                dseen.add(hash((rq["policy"], pr["a"], pr["b"])))
                for sig, detail, _ in judge_diff(rq["policy"], a, b, r, counts):
                    found.append((sig, detail, dict(rq, pairs=[pr])))
        for sig, detail, one in found:
            per_sig[sig] = per_sig.get(sig, 0) + 1
            if per_sig[sig] <= 3:
                run.add_violation(sig, detail, stage=name, case=id0 + rq["id"], replay={"req": one, "kind": "diff"})
    if dreqs and id0 == 0:
        rq = dreqs[0]
        rep = dreplies.get(0, {})
        run.samples.append({"stage": name, "case": {"policy": rq["policy"], "a": rq["pairs"][0]["a"][:300], "b": rq["pairs"][0]["b"][:300],
                                                     "from_diff": FIX((rep.get("res") or [{}])[0].get("patch", ""))[:400]}})
    return len(dreqs)


def run(run, tier, seed, stage, bins):
    exe = bins[("x_ptr", "asan")]
    rng = random.Random(seed * 15485863 + 15)
    name = stage["name"]
    counts, per_sig, stats, kinds = {}, {}, {}, {}
    seen, dseen = set(), set()
    n_apps = stage.get("ops_" + tier, 300000)
    napps = nreq = 0
    while napps < n_apps:
        a, r = _patch_chunk(run, exe, rng, stage, min(CHUNK_APPS, n_apps - napps), counts, per_sig, seen, stats, nreq)
        napps += a
        nreq += r
    run.evaluations += napps
    run.distinct += len(seen)
    run.count("%s.patch_requests" % name, nreq)
    run.count("%s.patch_applications" % name, napps)
    n_pairs = stage.get("pairs_" + tier, 40000)
    done = dreq = 0
    while done < n_pairs:
        n = min(CHUNK_PAIRS, n_pairs - done)
        dreq += _diff_chunk(run, exe, rng, stage, n, counts, per_sig, dseen, kinds, dreq)
        done += n
    run.evaluations += n_pairs
    run.distinct += len(dseen)
    for k, v in sorted(counts.items()):
        run.count("%s.%s" % (name, k), v)
    for k, v in sorted(stats.items()):
        run.count("%s.generated.%s" % (name, k), v)
    for k, v in sorted(kinds.items()):
        run.count("%s.diff_pairs.%s" % (name, k), v)
    for k, v in sorted(per_sig.items()):
        run.count("violations_by_signature.%s" % k, v)


def replay(rp, stage):
    exe = core.build("x_ptr", "asan")
    info = rp.get("replay") or {}
    req = info.get("req")
    req["id"] = 0
    rep = execdrv.run_requests(exe, "asan", [req]).get(0, {"abnormal": "no-reply"})
    found = []
    if req["op"] == "diff":
        if "res" in rep:
            for pr, r in zip(req["pairs"], rep["res"]):
                found += [(s, d) for s, d, _ in judge_diff(req["policy"], json.loads(pr["a"]), json.loads(pr["b"]), r, {})]
        else:
            found.append(("patch/diff/abnormal/%s" % rep.get("abnormal"), rep))
    else:
        for sig, detail, kind, patch, mode in judge_patch_request(req, rep, {}):
            if kind:
                sig, detail = refine(exe, sig, detail, kind, req["policy"], json.loads(req["doc"]), patch, mode)
            found.append((sig, detail))
    for sig, detail in found:
        print("replayed: %s %s" % (sig, json.dumps(detail, default=str)[:1500]))
    if any(sig == rp["signature"] for sig, _ in found):
        print("VIOLATION property=%s replay reproduces %s" % (rp.get("property"), rp["signature"]))
        return 1
    print("replay: signature %s did not reproduce" % rp["signature"])
    return 0
