"""C13: JMESPath evaluation follows the specification.
Recorded-log monitor (exec driver x_query, op 'jmespath').  For every (document, expression) pair the driver records
jmespath::search (error_code interface), make_expression + evaluate (twice) and the document text after evaluation.
Offline oracles:
 (1) the independent reference interpreter vlib/ref/jmespath_ref.py: equal result (numbers compared numerically, object
     member order irrelevant) or an error of the corresponding class (invalid-type, invalid-arity, unknown-function,
     invalid-value for a zero slice step); generator expressions are valid by construction, so a syntax error is a
     violation.  Cases that depend on one of the ambiguities the reference had to resolve are not judged: static checks
     (precedence_sensitive(), multiselect_tail_continuation(), zero-argument variadics, to_string of computed numbers) and
     dynamic ones - the reference evaluator is observed through wrappers with identical results (_hooked, _contains,
     _to_number) that note when an ambiguous rule was actually exercised.
     Every disagreement is reduced before it is reported: sub-expressions with the value that was current when the
     reference evaluated them, and operands replaced by the literal of their value, are executed as test cases of their
     own (up to REDUCTION_ROUNDS rounds); the smallest one that still disagrees and is judged names the signature.
 (2) model-free identities on every case: e | @ == e; reverse(reverse(x)) == x; length(keys(o)) == length(values(o));
     sort(sort(x)) == sort(x); compiled == one-shot; evaluating twice gives the same result; document unchanged.
Signatures: jmespath/<kind of mismatch>/<construct>; the construct is what the reference saw happening (tags such as
filter-on-non-array), else a structural feature of the AST the library is known to mishandle (pipe-after-operator, ...),
else the top-level node kind of the reduced expression.
jsoncons::json keeps object members sorted by key: documents are sent with sorted keys and the reference is made to
create objects (multi-select hashes, literals, merge()) with sorted keys as well, so keys()/values()/'*'/to_string see
the same member order on both sides."""
import json, random, re, math
from concurrent.futures import ProcessPoolExecutor
from .. import core, execdrv
from ..ref import jmespath_ref as J
from ..ref.jsonpath_ref import sort_keys

_MISSING = object()


def U(s):
    return s.encode("latin-1").decode("utf-8")


# ---------------------------------------------------------------- reference instrumentation (no change to the reference file)
class _Obs:
    notes = None
    tags = None
    sub_heads = frozenset()
    proj_heads = frozenset()
    inputs = None       # id(node) -> [current values the node was evaluated with] (only while collecting sub-cases)


class _SpanParser(J._Parser):
    """The reference parser, additionally remembering the source text of every (sub-)expression it builds.  The text of a
    sub-expression, evaluated against the value that was current when the reference evaluated it, is a test case of its
    own: mismatches are reported on the smallest sub-case that shows them."""

    def __init__(self, expr):
        super().__init__(expr)
        self.text = expr
        self.spans = {}

    def _rec(self, node, start):
        end = start + len(self.text[start:self.toks[self.i][2]].rstrip())
        self.spans.setdefault(id(node), (start, end))

    def expression(self, rbp):
        self.depth += 1
        if self.depth > J._MAX_NESTING:
            raise J._syntax("expression nested too deeply")
        try:
            start = self.toks[self.i][2]
            left = self.nud()
            self._rec(left, start)
            while rbp < J._BP[self.cur()]:
                left = self.led(left)
                self._rec(left, start)
            return left
        finally:
            self.depth -= 1


def compile_with_spans(expr):
    p = _SpanParser(expr)
    ast = p.parse()
    return ast, p.spans


def _has_call(node):
    return any(n.kind == "function" or (n.kind == "slice" and n.value[2] == 0) for n in node.walk())


_FIRST_CHILD_SAME_CURRENT = ("subexpression", "pipe", "index_expression", "projection", "value_projection", "filter_projection", "flatten", "comparator", "or", "and", "not")


def _head(node):
    """the node of an expression that is evaluated first, with the expression's own current value"""
    while node.kind in _FIRST_CHILD_SAME_CURRENT and node.children:
        node = node.children[0]
    return node


_orig_eval = J._eval


def _hooked(node, value):
    """Same semantics as the reference; additionally records
       - notes: spec ambiguities (listed in the reference's docstring) that were actually exercised:
           null-subexpression-call : `lhs.f(...)` evaluated with lhs == null (the pseudo-code evaluates f with @ = null,
                                     implementations commonly short-circuit to null)
           lazy-skip               : right operand of || / && skipped although it contains a function call or a zero-step
                                     slice (an eagerly evaluating implementation reports that operand's error)
           contains-string-nonstring (see _contains)
       - tags (name the construct in signatures):
           projection-rhs-call-on-null-element : the right-hand side of a projection starts with a function call and was
                                     evaluated for a null element (the specification evaluates it, with @ = null)
           filter-on-non-array / filter-on-null : a filter expression was applied to a value that is not an array
       - inputs: the current value and the result of (the first two evaluations of) every node, for sub-case extraction."""
    rec = _Obs.inputs
    if rec is not None:
        seen = rec.setdefault(id(node), [])
        if len(seen) < 6:
            slot = [value, _MISSING]
            seen.append(slot)
            slot[1] = _evaluate(node, value)
            return slot[1]
    return _evaluate(node, value)


def _evaluate(node, value):
    notes = _Obs.notes
    if notes is not None:
        k = node.kind
        if k == "function":
            if value is None:
                if id(node) in _Obs.sub_heads:
                    notes.add("null-subexpression-call")
                if id(node) in _Obs.proj_heads:
                    _Obs.tags.add("projection-rhs-call-on-null-element")
        elif k == "filter_projection":
            base = _hooked(node.children[0], value)
            if not isinstance(base, list):
                _Obs.tags.add("filter-on-null" if base is None else "filter-on-non-array")
            if not isinstance(base, list):
                return None
            out = []
            for el in base:
                if J._truthy(_hooked(node.children[2], el)):
                    r = _hooked(node.children[1], el)
                    if r is not None:
                        out.append(r)
            return out
        elif k == "or":
            a = _hooked(node.children[0], value)
            if J._truthy(a):
                if _has_call(node.children[1]):
                    notes.add("lazy-skip")
                return a
            return _hooked(node.children[1], value)
        elif k == "and":
            a = _hooked(node.children[0], value)
            if not J._truthy(a):
                if _has_call(node.children[1]):
                    notes.add("lazy-skip")
                return a
            return _hooked(node.children[1], value)
    return _orig_eval(node, value)


def _sorted_merge(*objs):
    out = {}
    for o in objs:
        out.update(o)
    return sort_keys(out)


_orig_contains = J.FUNCTIONS["contains"].impl


def _contains(subject, item):
    if isinstance(subject, str) and not isinstance(item, str) and _Obs.notes is not None:
        _Obs.notes.add("contains-string-nonstring")     # specification: 'any' search value; reference: false; others: invalid-type
    return _orig_contains(subject, item)


_orig_to_number = J.FUNCTIONS["to_number"].impl


def _to_number(x):
    if isinstance(x, str) and _Obs.notes is not None and not J._JSON_NUMBER.match(x):
        # not a JSON number text; strings a lenient number parser accepts anyway (surrounding white space, '+', hex,
        # leading zeros, '1.', '.5', 'inf') are a resolved ambiguity of the reference: null there, a number elsewhere
        t = x.strip()
        for conv in (float, lambda z: int(z, 0)):
            try:
                conv(t)
                _Obs.notes.add("to_number-lenient-format")
                break
            except ValueError:
                pass
    return _orig_to_number(x)


def _install():
    if J._eval is not _hooked:
        J._eval = _hooked
        J.FUNCTIONS["merge"].impl = _sorted_merge
        J.FUNCTIONS["contains"].impl = _contains
        J.FUNCTIONS["to_number"].impl = _to_number


class Prepared:
    """reference AST with objects created in sorted key order (jsoncons::json is a sorted map), the source text of its
    sub-expressions and the statically known heads of sub-expression / projection right-hand sides"""

    def __init__(self, expr):
        ast, spans = compile_with_spans(expr)
        self.raw = ast
        self.text = expr
        self.spans = {}
        self.nodes = {}
        self.sub_heads = set()
        self.proj_heads = set()
        self.ast = self._copy(ast, spans)

    def _copy(self, node, spans):
        ch = [self._copy(c, spans) for c in node.children]
        if node.kind == "multi_select_hash":
            last = {}
            for i, k in enumerate(node.value):
                last[k] = i          # duplicate keys: last value wins
            keys = sorted(last, key=lambda x: x.encode("utf-8", "surrogatepass"))
            new = J.Node("multi_select_hash", keys, [ch[last[k]] for k in keys])
        elif node.kind == "literal":
            new = J.Node("literal", sort_keys(node.value), ())
        else:
            new = J.Node(node.kind, node.value, ch)
        if id(node) in spans:
            self.spans[id(new)] = spans[id(node)]
            self.nodes[id(new)] = new
        if new.kind == "subexpression":
            h = _head(new.children[1])
            if h.kind == "function":
                self.sub_heads.add(id(h))
        elif new.kind in ("projection", "value_projection", "filter_projection"):
            h = _head(new.children[1])
            if h.kind == "function":
                self.proj_heads.add(id(h))
        return new


def ref_search(prep, doc, collect_inputs=False):
    """-> (('value', v) | ('error', kind), notes, tags, inputs)"""
    _install()
    notes, tags = set(), set()
    _Obs.notes, _Obs.tags, _Obs.sub_heads, _Obs.proj_heads = notes, tags, prep.sub_heads, prep.proj_heads
    _Obs.inputs = {} if collect_inputs else None
    try:
        try:
            out = ("value", J.search(prep.ast, doc))
        except J.JMESPathError as e:
            out = ("error", e.kind)
        except RecursionError:
            out = ("error", "recursion")
        return out, notes, tags, _Obs.inputs
    finally:
        _Obs.notes = _Obs.inputs = None


# ---------------------------------------------------------------- comparison
def _num(x):
    return isinstance(x, (int, float)) and not isinstance(x, bool)


def jm_equal(a, b, lenient_strings=False):
    if _num(a) and _num(b):
        return a == b or (isinstance(a, float) and isinstance(b, float) and math.isnan(a) and math.isnan(b))
    if type(a) is not type(b):
        return False
    if isinstance(a, list):
        return len(a) == len(b) and all(jm_equal(x, y, lenient_strings) for x, y in zip(a, b))
    if isinstance(a, dict):
        return len(a) == len(b) and all(k in b and jm_equal(v, b[k], lenient_strings) for k, v in a.items())
    if isinstance(a, str) and a != b and lenient_strings:
        try:
            return jm_equal(json.loads(a), json.loads(b))
        except ValueError:
            return False
    return a == b


def err_class(text):
    """jsoncons error text '<category>:<value>:<message>' -> class of the specification"""
    msg = text.split(":", 2)[-1]
    if msg in ("Invalid type", "Invalid argument type"):
        return "invalid-type"
    if msg == "Function called with wrong number of arguments" or "arity" in msg.lower():
        return "invalid-arity"
    if msg == "Unknown function":
        return "unknown-function"
    if msg == "Slice step cannot be zero":
        return "invalid-value"
    return "syntax"


def construct_of(ast):
    """top-level node kind of the judged (sub-)expression; a function call is named, a pipe names what it follows"""
    if ast is None:
        return "unparsed"
    if ast.kind == "function":
        return "function:%s" % ast.value
    if ast.kind == "pipe":
        return "pipe(%s)" % ast.children[0].kind.replace("_", "-")
    return ast.kind.replace("_", "-")


_PROJECTIONS = ("projection", "value_projection", "filter_projection")


def _rhs_tail(node):
    while node.kind == "subexpression":
        node = node.children[1]
    return node


def multiselect_tail_continuation(ast):
    """`x[*].[a, b][0]`, `x[*].{k: v}.k`: the reference (like jmespath.py / jmespath.js) applies what follows a
    multi-select that ends the right-hand side of a projection to the projection RESULT; reading it as part of the
    projected expression is equally consistent with the grammar.  Not judged."""
    for n in ast.walk():
        if n.kind in ("subexpression", "index_expression", "projection", "filter_projection", "flatten", "value_projection") and n.children:
            left = n.children[0]
            if left.kind == "flatten" and left.children:
                continue
            if left.kind == "index_expression" and n.kind == "projection":
                left = left.children[0]      # slice projection: projection(index_expression(left, slice), rhs)
            if left.kind in _PROJECTIONS and _rhs_tail(left.children[1]).kind in ("multi_select_list", "multi_select_hash"):
                return True
    return False


def filter_after_filter_projection(ast):
    """`x[?a].b[?c]`: `[?` has the binding power of the filter projection it follows, so the reference (like jmespath.py /
    jmespath.js) applies `[?c]` to the RESULT of `x[?a].b`, whereas after `x[*].b` it is part of the projected
    expression.  Reading it as part of the projected expression in both cases is consistent with the grammar.  Not judged."""
    for n in ast.walk():
        if n.kind == "filter_projection" and n.children[0].kind == "filter_projection" and n.children[0].children[1].kind != "identity":
            return True
    return False


def pipe_after_operator(ast):
    """some `|` directly follows an or / and / comparator / not expression (the last stage of what precedes it)"""
    for n in ast.walk():
        if n.kind == "pipe":
            left = n.children[0]
            while left.kind == "pipe":
                left = left.children[1]
            if left.kind in ("or", "and", "comparator", "not"):
                return True
    return False


def multiselect_starting_with_star(ast):
    """a multi-select list whose first element begins with the wildcard `*`: `[*.a, b]`, `[*[0]]`"""
    for n in ast.walk():
        if n.kind == "multi_select_list" and n.children:
            h = n.children[0]
            while True:
                if h.kind == "value_projection" and h.children[0].kind == "identity":
                    return True
                if h.kind in _FIRST_CHILD_SAME_CURRENT and h.children:
                    h = h.children[0]
                else:
                    break
    return False


def parenthesized_pipe_operand(ast):
    """a pipe expression used as operand of || && ! or a comparator (only possible in parentheses)"""
    return any(n.kind in ("or", "and", "comparator", "not") and any(c.kind == "pipe" for c in n.children) for n in ast.walk())


def parenthesized_projection(ast):
    """an index / sub-expression / filter / wildcard applied to the RESULT of a projection (only possible in parentheses):
    (a[*])[0], (a.*).b"""
    for n in ast.walk():
        if n.kind in ("index_expression", "subexpression", "filter_projection", "projection", "value_projection") and n.children:
            left = n.children[0]
            if left.kind == "index_expression" and n.kind == "projection":
                left = left.children[0]
            if left.kind in _PROJECTIONS:
                return True
    return False


def abnormal_kind(text):
    """sanitizer classification without addresses / sizes"""
    parts = text.split("/")
    if parts[0] == "ubsan" and len(parts) >= 3:
        msg = re.sub(r"\s+\S*N.*$", "", "/".join(parts[2:]))
        return "ubsan/%s/%s" % (parts[1], re.sub(r"\s+(of type|for type).*$", "", msg).strip().replace(" ", "-"))
    return "/".join(parts[:3])


def last_stage(ast):
    while ast.kind == "pipe":
        ast = ast.children[1]
    return ast


def _short(v, n=300):
    s = v if isinstance(v, str) else json.dumps(v, ensure_ascii=False)
    return s if len(s) <= n else s[:n] + "..."


# ---------------------------------------------------------------- open root causes
# KNOWN_BAD: id -> predicate(ast, document) deciding membership in the class of cases a root cause that is still OPEN in
# the library is known to break.  Such cases are not judged by the random workload (counter not_judged.known.<id>), so
# that everything else can still raise a new signature; each open root cause is watched by its witnesses instead.
# Every root cause found so far has a repair (see WITNESSES), so the table is empty.
KNOWN_BAD = {}

# WITNESSES: (root cause id, document, expression, expectation) with expectation ("value", v) | ("error", class), fixed by
# the specification.  Executed on every run in every tier, one request each; a witness on which the library misbehaves is
# reported as jmespath/witness/<id>, a sanitizer abort / crash / hang as abnormal/witness/<id>/<kind>.  A witness that
# passes is not reported.  They cover every root cause found by this monitor, repaired or not.
_W = {"a": 1, "b": 2, "l": [None, 2], "n": None, "o": {"x": 1}, "s": "str", "r": [{"k": "b"}, {"k": "a"}, {"k": "c"}]}
WITNESSES = [
    ("filter-on-non-array", _W, "s[?@]", ("value", None)),
    ("filter-on-non-array", _W, "[?!(@)].ceil(`0`)", ("value", None)),
    ("projection-skips-null-elements", _W, "l[*].type(@)", ("value", ["null", "number"])),
    ("projection-skips-null-elements", {"a": None, "b": -0.5}, "*.ceil(@)", ("error", "invalid-type")),
    ("sort-one-element-unchecked", _W, "sort(`[{\"a\":1}]`)", ("error", "invalid-type")),
    ("sort-one-element-unchecked", _W, "sort_by(`[{\"k\":null}]`, &k)", ("error", "invalid-type")),
    ("copy-assign-from-json-reference", _W, "max_by(r[*].k, &@)", ("value", "c")),
    ("copy-assign-from-json-reference", _W, "min_by(r[*].k, &@)", ("value", "a")),
    ("by-function-key-error-dropped", _W, "max_by(`[{\"a\":7},{\"a\":8}]`, &a.max(@[1]) || `1`)", ("error", "invalid-type")),
    ("to_number-trailing-garbage", _W, "to_number(`\"7x\"`)", ("value", None)),
    ("argument-after-projection-argument", _W, "not_null(n[*], a)", ("value", 1)),
    ("argument-after-projection-argument", _W, "contains(r[*].k, r[1].k)", ("value", True)),
    ("multi-select-starting-with-star", _W, "o.[*, x]", ("value", [[1], 1])),
    ("multi-select-starting-with-star", _W, "o.[*]", ("value", [[1]])),
    ("null-equals-json-reference", _W, "`null` != {\"k\": `null`}.\"k\"", ("value", False)),
    ("null-equals-json-reference", _W, "[{z:`null`}][?`null`==z]", ("value", [{"z": None}])),
    ("pipe-after-operator", _W, "a == a | type(@)", ("value", "boolean")),
    ("pipe-after-operator", _W, "a || b | @", ("value", 1)),
    ("pipe-after-operator", _W, "!a | type(@)", ("value", "boolean")),
    ("parenthesized-pipe-or-projection", _W, "(a | @) && type(@)", ("value", "object")),
    ("parenthesized-pipe-or-projection", _W, "a && (l[*])[0]", ("value", 2)),
    ("parenthesized-pipe-or-projection", _W, "a == (o.*)[0]", ("value", True)),
    ("pipe-then-literal", _W, "a | `1`", ("value", 1)),
    ("merge-later-argument-wins", {"o": {"k1": 1, "k2": 2}}, "merge(o, {k1: `[9]`})", ("value", {"k1": [9], "k2": 2})),
]


def judge_witness(wid, doc, expr, expect, rep):
    """-> (signature, detail) when the library misbehaves on the witness, else None"""
    detail = {"witness": wid, "document": json.dumps(doc), "expression": expr, "expected": "%s %s" % (expect[0], json.dumps(expect[1]))}
    if "abnormal" in rep:
        detail["stderr"] = rep.get("stderr", "")[-1500:]
        return "abnormal/witness/%s/%s" % (wid, "/".join(rep["abnormal"].split("/")[:2])), detail
    if "exception" in rep:
        detail["library"] = rep["exception"][:300]
        return "jmespath/witness/%s" % wid, detail
    one = lib_outcome(rep, "search", "search_err")
    detail["library"] = _short(one[1])
    if expect[0] == "value" and one[0] == "value" and jm_equal(one[1], expect[1]):
        return None
    if expect[0] == "error" and one[0] == "error" and err_class(one[1]) == expect[1]:
        return None
    return "jmespath/witness/%s" % wid, detail


def run_witnesses(run, exe, stage):
    reqs = [request_for(i, sort_keys(d), e) for i, (_, d, e, _x) in enumerate(WITNESSES)]
    replies = execdrv.run_requests(exe, "asan", reqs, nworkers=1)
    for i, (wid, doc, expr, expect) in enumerate(WITNESSES):
        res = judge_witness(wid, doc, expr, expect, replies.get(i, {"abnormal": "no-reply"}))
        run.count("%s.witness.%s" % (stage["name"], "passed" if res is None else "failed"))
        if res is not None:
            run.add_violation(res[0], res[1], stage=stage["name"], case=-1 - i, replay={"req": reqs[i], "witness": i})
    run.evaluations += len(reqs)


# ---------------------------------------------------------------- generation
_MUT_DICT = [".", "[", "]", "*", "?", "|", "&", "&&", "||", "!", "(", ")", "{", "}", ",", ":", "`", "'", "\"", "@", "==", "!=", "<", "<=", ">", ">=", "[]", "[*]", "[?", "`1`", "`null`",
             "length(", "sort_by(", "map(", "::0", "-1", "a", "foo", " "]


def mutate_expr(rng, e):
    for _ in range(rng.choice([1, 1, 2])):
        k = rng.randrange(4)
        pos = rng.randrange(len(e) + 1)
        if k == 0 and e:
            pos = min(pos, len(e) - 1)
            e = e[:pos] + e[pos + 1:]
        elif k == 1:
            e = e[:pos] + rng.choice(_MUT_DICT) + e[pos:]
        elif k == 2 and e:
            pos = min(pos, len(e) - 1)
            e = e[:pos] + rng.choice(_MUT_DICT) + e[pos + 1:]
        elif len(e) > 2:
            a = rng.randrange(len(e) - 1)
            b = rng.randrange(a + 1, min(len(e), a + 8))
            e = e[:a] + e[b:]
    return e


def gen_error_expression(rng, doc):
    """expressions steered towards the error conditions of the property: invalid type, arity, unknown function, zero step"""
    base = J.gen_expression(rng, doc, rng.choice([1, 2]))
    r = rng.randrange(8)
    if r == 0:
        return "%s(%s)" % (rng.choice(["nosuch", "lenght", "Length", "to_str", "sortby"]), base)
    if r == 1:
        f = rng.choice(sorted(J.FUNCTIONS))
        n = len(J.FUNCTIONS[f].params)
        k = rng.choice([x for x in (0, n - 1, n + 1, n + 2) if x >= 0 and (x != n)])
        if J.FUNCTIONS[f].variadic and k > n:
            k = max(0, n - 1)
        return "%s(%s)" % (f, ", ".join([base] + ["@"] * (k - 1)) if k else "")
    if r == 2:
        return "(%s)[%s::0]" % (base, rng.choice(["", "1", "-1"]))
    if r == 3:
        return rng.choice(["abs(%s)", "length(%s)", "keys(%s)", "sort(%s)", "sum(%s)", "join(`\",\"`, %s)", "max(%s)", "avg(%s)", "reverse(%s)", "starts_with(%s, `\"a\"`)", "ceil(%s)",
                           "sort_by(%s, &@)", "max_by(%s, &a)", "map(&a, %s)", "merge(%s)", "values(%s)", "floor(%s)", "ends_with(`\"a\"`, %s)", "contains(%s, `1`)", "min_by(%s, &[0])"]) % base
    if r == 4:
        return "@[?%s].nosuch(@)" % base
    if r == 5:
        return "[%s, abs(`\"x\"`)]" % base
    if r == 6:
        return "%s | [::0]" % base
    return "{a: %s, b: length(`1`)}" % base


_D = {"a": 1, "b": 1, "l": [None, 2], "n": None, "o": {"x": 1, "y": [2]}, "s": "héllo", "r": [{"k": "b"}, {"k": "a"}, {"k": "c"}]}
FIXED = [(_D, e) for e in [
    # one small witness per law / per construct (the unchanged library fails several of them)
    "a | @", "a == b", "a && b", "!n", "a < l[1] | type(@)", "sort(l[1:])", "reverse(s)", "merge(o, {y: `[9]`, z: a})", "o.*", "l[?@ > `1`] | [0]",
    "l[::0]", "abs(s)", "nosuch(a)", "length(a, a)", "s[?@]", "o[?x]", "l[*].type(@)", "l[*].to_string(@)", "sort(`[{\"a\":1}]`)", "sort_by(`[{\"k\":null}]`, &k)",
    "max_by(r[*].k, &@)", "to_number(`\"7x\"`)", "@.[*]", "o.[*, x]", "a && (l[*])[0]", "(a | @) && type(@)", "contains(r[*].k, r[1].k)", "`null` != {\"k\": `null`}.\"k\"",
    "not_null(n[*], a)", "r[*].k | [0]", "keys(o)", "values(o)", "join(', ', r[*].k)", "map(&k, r)", "sort_by(r, &k)[*].k", "min_by(r, &k)", "{p: a, q: l[1]}", "[a, l[1], missing]",
    "r[?k == 'a'].k", "r[?k != 'a' && k < 'c'].k", "l[-1]", "l[::-1]", "type(o)", "to_array(a)", "not_null(n, missing, a)", "avg(l[1:])", "starts_with(s, 'h')", "ceil(`1.5`)",
]]


def build_cases(rng, n):
    cases = [(sort_keys(d), e, "fixed") for d, e in FIXED]
    while len(cases) < n:
        doc = sort_keys(J.gen_document(rng, rng.choice([1, 2, 3, 3, 4])))
        for _ in range(rng.choice([4, 6, 8])):
            r = rng.random()
            try:
                if r < 0.78:
                    cases.append((doc, J.gen_expression(rng, doc, rng.choice([1, 2, 3, 4, 4, 5])), "gen"))
                elif r < 0.90:
                    cases.append((doc, gen_error_expression(rng, doc), "err"))
                else:
                    cases.append((doc, mutate_expr(rng, J.gen_expression(rng, doc, rng.choice([1, 2, 3]))), "mut"))
            except RecursionError:
                continue
    return cases[:n]


def request_for(i, doc, expr):
    return {"id": i, "op": "jmespath", "doc": json.dumps(doc), "expr": expr}


# ---------------------------------------------------------------- judgement
def lib_outcome(rep, key, errkey):
    if key in rep:
        try:
            return ("value", json.loads(U(rep[key])))
        except ValueError:
            return ("unparseable", U(rep[key]))
    if errkey in rep:
        return ("error", U(rep[errkey]))
    return ("missing", None)


def same_text(rep, k1, k2):
    return k1 in rep and k2 in rep and U(rep[k1]) == U(rep[k2])


class Judgement:
    __slots__ = ("viol", "counts", "one", "verdict", "reason", "prep")

    def __init__(self):
        self.viol, self.counts, self.one = [], [], None
        self.verdict = None      # (signature, detail): disagreement with the reference interpreter
        self.reason = None       # why that disagreement is not judged (None: it is a violation)
        self.prep = None


def judge(doc, expr, source, rep):
    """model-free laws -> .viol; comparison with the reference -> .verdict (+ .reason when it must not be judged)"""
    jd = Judgement()

    def V(sig, **detail):
        jd.viol.append((sig, detail))

    prep = None
    try:
        prep = Prepared(expr)
    except (J.JMESPathError, RecursionError):
        pass
    jd.prep = prep
    construct = construct_of(prep.raw if prep else None)
    if "abnormal" in rep:
        # sanitizer report / crash / hang while evaluating: reduced to its smallest sub-case like any other disagreement
        jd.verdict = ("jmespath/abnormal/%s" % abnormal_kind(rep["abnormal"]), dict(stderr=rep.get("stderr", "")[-1500:], report=rep["abnormal"], construct=construct,
                                                                                  functions=sorted(J.function_names(prep.raw)) if prep else []))
        return jd
    if "exception" in rep:
        if "assertion" in rep["exception"]:
            jd.counts.append("internal_assertion(finding of C05, not judged here)")
            jd.counts.append("internal_assertion.%s" % re.sub(r"\d+", "N", rep["exception"].split("assertion", 1)[1].split(" failed")[0].strip())[:60])
        else:
            V("jmespath/foreign-exception/%s" % rep.get("type"), what=rep["exception"][:300])
        return jd
    one = lib_outcome(rep, "search", "search_err")
    if one[0] == "unparseable":
        V("jmespath/result-is-not-json/%s" % construct, text=_short(one[1]))
        return jd
    jd.one = one

    # ---- (2) compiled == one-shot, twice the same, document unchanged
    if "c_err" in rep:
        c1 = c2 = ("error", U(rep["c_err"]))
    else:
        c1, c2 = lib_outcome(rep, "c1", "c1_err"), lib_outcome(rep, "c2", "c2_err")
    for other, key, what in ((c1, "c1", "compiled-vs-oneshot"), (c2, "c2", "second-evaluation")):
        if other[0] != one[0] or (one[0] == "value" and not same_text(rep, "search", key)) or (one[0] == "error" and err_class(one[1]) != err_class(other[1])):
            V("jmespath/identity/%s/%s" % (what, construct), one_shot=_short(one[1]), other=_short(other[1]))
    if U(rep["doc_after"]) != U(rep["doc_parsed"]):
        V("jmespath/document-modified/%s" % construct, after=_short(U(rep["doc_after"])))

    # ---- (1) reference interpreter
    if prep is None:
        jd.counts.append("reference_syntax_error")
        if one[0] == "value":
            jd.counts.append("accept_mismatch.library_accepts_reference_rejects(not judged)")
        return jd
    ast = prep.raw
    static = {k for k, _ in J.static_function_errors(ast)}
    zero = J.contains_zero_step_slice(ast)
    ref, notes, tags, _ = ref_search(prep, doc)
    fnames = J.function_names(ast)
    lenient = "to_string" in fnames
    # the construct named in the signature: what the reference saw happening, else the top-level node kind
    if tags - {"filter-on-null"}:
        construct = "+".join(sorted(tags - {"filter-on-null"}))
    elif pipe_after_operator(ast):
        construct = "pipe-after-operator"
    elif multiselect_starting_with_star(ast):
        construct = "multi-select-starting-with-star"
    elif parenthesized_pipe_operand(ast):
        construct = "parenthesized-pipe-operand"
    elif parenthesized_projection(ast):
        construct = "parenthesized-projection"
    elif tags:
        construct = "+".join(sorted(tags))
    tag = ""

    if one[0] == "error":
        lc = err_class(one[1])
        if lc == "syntax":
            jd.counts.append("library_syntax_error")
            what = "multi-select-starting-with-star" if multiselect_starting_with_star(ast) else construct_of(ast)
            jd.verdict = ("jmespath/syntax/valid-expression-rejected/%s" % what, dict(library=one[1], reference=_short(ref[1])))
        elif ref[0] == "error":
            if ref[1] == lc or lc in static or (lc == "invalid-value" and zero):
                jd.counts.append("error_agrees.%s" % lc)
            else:
                jd.verdict = ("jmespath/error-class/%s-reported-as-%s/%s" % (ref[1], lc, construct), dict(library=one[1], reference=ref[1]))
        elif lc in static or (lc == "invalid-value" and zero):
            jd.counts.append("error_agrees.compile-time-%s(reference: branch not evaluated)" % lc)
        else:
            jd.verdict = ("jmespath/error-class/spurious-%s/%s%s" % (lc, construct, tag), dict(library=one[1], reference=_short(ref[1])))
    elif one[0] == "value":
        if ref[0] == "error":
            jd.verdict = ("jmespath/error-class/%s-not-reported/%s%s" % (ref[1], construct, tag), dict(library=_short(one[1]), reference="error " + ref[1]))
        elif jm_equal(one[1], ref[1], lenient):
            jd.counts.append("reference_agrees")
        else:
            jd.verdict = ("jmespath/reference-differs/%s%s" % (construct, tag), dict(library=_short(one[1]), reference=_short(ref[1])))
    if jd.verdict is not None:
        jd.verdict[1]["functions"] = sorted(fnames)
        prec = J.precedence_sensitive(expr)
        if source == "mut":
            jd.reason = "mutated-expression"
        elif prec:
            jd.reason = "precedence-sensitive." + "+".join(sorted(prec))
        elif notes:
            jd.reason = "+".join(sorted(notes))
        elif any(n.kind == "function" and n.value in ("merge", "not_null") and not n.children for n in ast.walk()):
            jd.reason = "zero-argument-variadic"
        elif multiselect_tail_continuation(ast):
            jd.reason = "multiselect-tail-continuation"
        elif filter_after_filter_projection(ast):
            jd.reason = "filter-after-filter-projection"
        elif "to_string" in fnames and fnames & {"sum", "abs", "ceil", "floor", "avg", "to_number"}:
            # 3 vs 3.0: the JSON text of a computed number is not specified (compared after re-parsing when it is the result itself)
            jd.reason = "to_string-of-computed-number"
        else:
            for kid, pred in KNOWN_BAD.items():
                if pred(ast, doc):
                    jd.reason = "known." + kid
                    break
    return jd


def _literal_text(v):
    return "`" + json.dumps(v, ensure_ascii=False).replace("`", "\\`") + "`"


def case_size(text, dtext):
    """reduction order: fewer non-literal AST nodes first, then shorter text"""
    try:
        n = sum(1 for x in J.compile(text).walk() if x.kind != "literal")
    except (J.JMESPathError, RecursionError):
        return None
    return (n, len(text) + len(dtext))


def sub_cases(prep, doc, limit=80):
    """(size, expression, document value, document text) derived from one evaluation by the reference, smallest first; each
    is a test case of its own:
      (a) every sub-expression, with the value that was current when it was evaluated;
      (b) the whole expression with one operand - a sub-expression evaluated exactly once, against the root - replaced by
          the literal of its value (with the same document, and with null when nothing else may refer to it)."""
    _, _, _, rec = ref_search(prep, doc, collect_inputs=True)
    rec = rec or {}
    out, seen = [], set()

    def add(text, value):
        try:
            dtext = json.dumps(value)
        except (TypeError, ValueError):
            return
        if text and (text, dtext) not in seen:
            seen.add((text, dtext))
            size = case_size(text, dtext)
            if size is not None:
                out.append((size, text, value, dtext))

    root_span = prep.spans.get(id(prep.ast))
    for nid, (start, end) in prep.spans.items():
        node = prep.nodes[nid]
        slots = rec.get(nid, ())
        for slot in slots:
            if not isinstance(slot[0], J._Expref):
                add(prep.text[start:end], slot[0])
        if len(slots) == 1 and slots[0][0] is doc and node is not prep.ast and node.kind not in ("literal", "expref") and (start, end) != root_span:
            res = slots[0][1]
            if res is _MISSING or isinstance(res, J._Expref):
                continue
            try:
                text = prep.text[:start] + _literal_text(res) + prep.text[end:]
            except (TypeError, ValueError):
                continue
            add(text, doc)
            add(text, None)
    out.sort(key=lambda t: (t[0], t[1], t[3]))
    return out[:limit]


# ---------------------------------------------------------------- identities (second round)
def identity_requests(expr, value):
    """(law, derived expression, expectation) for the library's own result `value` of `expr`"""
    out = [("pipe-current", "%s | @" % expr, ("same",))]
    if isinstance(value, (list, str)):
        out.append(("reverse-reverse", "reverse(reverse(%s))" % expr, ("same",)))
    if isinstance(value, dict):
        out.append(("keys-values-length", "length(keys(%s)) == length(values(%s))" % (expr, expr), ("const", True)))
    if isinstance(value, list) and value and (all(_num(x) for x in value) or all(isinstance(x, str) for x in value)):
        out.append(("sort-idempotent", "sort(sort(%s))" % expr, ("expr", "sort(%s)" % expr)))
    return out


def judge_identity(expr, law, expect, base_rep, rep, rep2):
    """-> (signature | None (holds) | '' (not judged), detail)"""
    if "abnormal" in rep:
        return "jmespath/abnormal/%s" % rep["abnormal"], {"stderr": rep.get("stderr", "")[-1500:]}
    if "exception" in rep:
        if "assertion" in rep["exception"]:
            return "", {}
        return "jmespath/foreign-exception/%s" % rep.get("type"), {"what": rep["exception"][:300]}
    got = lib_outcome(rep, "search", "search_err")
    base = lib_outcome(base_rep, "search", "search_err")
    if expect[0] == "same":
        want = base
    elif expect[0] == "const":
        want = ("value", expect[1])
    else:
        if rep2 is None or "exception" in rep2 or "abnormal" in rep2:
            return "", {}
        want = lib_outcome(rep2, "search", "search_err")
    if got[0] == "value" and want[0] == "value" and jm_equal(got[1], want[1]):
        return None, {}
    try:
        ast = J.compile(expr)
    except (J.JMESPathError, RecursionError):
        ast = None
    # wrapping e into f(e) / e | @ re-parses e in a new context: only meaningful when e is a complete, unambiguous expression
    if ast is None or J.precedence_sensitive(expr):
        return "", {}
    where = construct_of(last_stage(ast) if law == "pipe-current" else ast)
    if law == "pipe-current":
        try:
            if pipe_after_operator(J.compile("%s | @" % expr)):
                where = "pipe-after-operator"
        except (J.JMESPathError, RecursionError):
            pass
    return "jmespath/identity/%s/%s" % (law, where), {"expected": _short(want[1]), "got": _short(got[1])}


# ---------------------------------------------------------------- running
REDUCTION_ROUNDS = 10


def _shard(args):
    exe, seed, shard, n = args
    rng = random.Random(seed * 1000003 + shard * 7919 + 13)
    cases = build_cases(rng, n)
    reqs = [request_for(i, d, e) for i, (d, e, s) in enumerate(cases)]
    replies = execdrv.run_requests(exe, "asan", reqs, nworkers=1)
    counters, viols, distinct, per_sig = {}, [], set(), {}

    def count(k, v=1):
        counters[k] = counters.get(k, 0) + v

    def report(sig, detail, case, rp):
        count("violations_by_signature.%s" % sig)
        per_sig[sig] = per_sig.get(sig, 0) + 1
        if per_sig[sig] <= 3:
            viols.append((sig, detail, case, rp))

    round2, meta2 = [], {}
    pending = []        # disagreements with the reference, to be reduced to their smallest sub-case
    for i, (doc, expr, source) in enumerate(cases):
        rep = replies.get(i, {"abnormal": "no-reply"})
        try:
            jd = judge(doc, expr, source, rep)
        except RecursionError:
            count("judge_recursion_limit")
            continue
        distinct.add((reqs[i]["doc"], expr))
        for k in jd.counts:
            count(k)
        count("source.%s" % source)
        for sig, detail in jd.viol:
            detail = dict(detail)
            detail.update({"document": _short(reqs[i]["doc"], 600), "expression": expr, "source": source})
            report(sig, detail, shard * 10000000 + i, {"req": reqs[i], "source": source})
        if jd.verdict is not None:
            if source == "mut" and not jd.verdict[0].startswith("jmespath/abnormal/"):
                count("not_judged.mutated-expression")
            else:
                pending.append((i, jd))
        one = jd.one
        if one is not None and one[0] == "value" and len(expr) < 400:
            for law, dexpr, expect in identity_requests(expr, one[1]):
                rid = len(round2)
                round2.append({"id": rid, "op": "jmespath", "doc": reqs[i]["doc"], "expr": dexpr})
                meta2[rid] = (i, law, expect, None)
                if expect[0] == "expr":
                    rid2 = len(round2)
                    round2.append({"id": rid2, "op": "jmespath", "doc": reqs[i]["doc"], "expr": expect[1]})
                    meta2[rid] = (i, law, expect, rid2)
                    meta2[rid2] = None
    replies2 = execdrv.run_requests(exe, "asan", round2, nworkers=1) if round2 else {}
    for rid, m in meta2.items():
        if m is None:
            continue
        i, law, expect, rid2 = m
        doc, expr, source = cases[i]
        sig, detail = judge_identity(expr, law, expect, replies.get(i, {}), replies2.get(rid, {"abnormal": "no-reply"}), replies2.get(rid2) if rid2 is not None else None)
        count("identity.%s.%s" % (law, "ok" if sig is None else ("not_judged" if sig == "" else "violated")))
        if sig:
            detail.update({"document": _short(reqs[i]["doc"], 600), "expression": expr, "derived": round2[rid]["expr"], "source": source})
            report(sig, detail, shard * 10000000 + i, {"req": reqs[i], "source": source, "law": law})
    # ---- reduction: every disagreement is replaced by the smallest derived sub-case that still disagrees (and is judged)
    nreq_reduce = 0
    best = {}           # i -> (request, judgement, document value) of the smallest failing case found so far
    active = {}
    for i, jd in pending:
        best[i] = (reqs[i], jd, cases[i][0])
        active[i] = True
    for depth in range(REDUCTION_ROUNDS):
        rq3, owner = [], {}
        for i in [k for k in active if active[k]]:
            rq, jd, value = best[i]
            active[i] = False
            if jd.prep is None:
                continue
            try:
                subs = sub_cases(jd.prep, value, limit=80 if depth == 0 else 50)
            except RecursionError:
                continue
            size = case_size(rq["expr"], rq["doc"]) or (10 ** 9, 0)
            lst = []
            for sz, text, v, dtext in subs:
                if sz >= size and jd.reason is None:
                    break
                if text == rq["expr"].strip() and dtext == rq["doc"]:
                    continue
                rid = len(rq3)
                rq3.append({"id": rid, "op": "jmespath", "doc": dtext, "expr": text})
                lst.append((rid, text, v))
            owner[i] = lst
        if not rq3:
            break
        nreq_reduce += len(rq3)
        rep3 = execdrv.run_requests(exe, "asan", rq3, nworkers=1)
        for i, lst in owner.items():
            rq, jd, value = best[i]
            source = cases[i][2]
            want_abnormal = jd.verdict[0].startswith("jmespath/abnormal/")
            for rid, text, v in lst:
                rep = rep3.get(rid)
                if rep is None or "exception" in rep:
                    continue
                try:
                    sj = judge(v, text, source, rep)
                except RecursionError:
                    continue
                if sj.verdict is not None and sj.reason is None and (("abnormal" in rep) == want_abnormal):
                    best[i] = (rq3[rid], sj, v)
                    active[i] = True
                    break
    for i, jd0 in pending:
        doc, expr, source = cases[i]
        rq, jd, value = best[i]
        if jd.reason is not None:
            count("not_judged.%s" % jd.reason)
            continue
        sig, detail = jd.verdict
        detail = dict(detail)
        detail.update({"document": _short(rq["doc"], 600), "expression": rq["expr"], "source": source})
        if rq is not reqs[i]:
            detail["reduced_from"] = {"document": _short(reqs[i]["doc"], 300), "expression": _short(expr, 300)}
            count("reduced_to_sub_case")
        report(sig, detail, shard * 10000000 + i, {"req": {"id": 0, "op": "jmespath", "doc": rq["doc"], "expr": rq["expr"]}, "source": source})
    samples = [{"document": _short(reqs[i]["doc"], 200), "expression": cases[i][1], "source": cases[i][2]} for i in range(len(FIXED), min(len(cases), len(FIXED) + 2))]
    return counters, viols, len(cases) + len(round2) + nreq_reduce, len(distinct), samples


def run(run, tier, seed, stage, bins):
    exe = bins[("x_query", "asan")]
    run_witnesses(run, exe, stage)
    n = stage.get("pairs_" + tier, 40000)
    per = 2500
    nshards = max(1, (n + per - 1) // per)
    jobs = [(exe, seed, s, min(per, n - s * per)) for s in range(nshards)]
    name = stage["name"]
    with ProcessPoolExecutor(max_workers=min(core.NCPU, nshards)) as ex:
        for counters, viols, nevals, ndistinct, samples in ex.map(_shard, jobs):
            for k, v in counters.items():
                run.count(("%s.%s" % (name, k)) if not k.startswith("violations_by_signature.") else k, v)
            for sig, detail, case, rp in viols:
                run.add_violation(sig, detail, stage=name, case=case, replay=rp)
            run.evaluations += nevals
            run.distinct += ndistinct
            if len(run.samples) < 5:
                for s in samples[:1 if run.samples else 2]:
                    run.samples.append({"stage": name, "case": s})


def replay(rp, stage):
    exe = core.build("x_query", "asan")
    r = rp.get("replay") or {}
    req = dict(r["req"])
    req["id"] = 0
    rep = execdrv.run_requests(exe, "asan", [req]).get(0, {"abnormal": "no-reply"})
    doc = json.loads(req["doc"])
    expr = req["expr"]
    if "witness" in r:
        wid, wdoc, wexpr, expect = WITNESSES[r["witness"]]
        res = judge_witness(wid, wdoc, wexpr, expect, rep)
        print("witness %s: %s on %s, expected %s" % (wid, wexpr, json.dumps(wdoc), expect))
        print("library :", {k: U(v)[:400] for k, v in rep.items() if isinstance(v, str)})
        if res is not None and res[0] == rp.get("signature"):
            print("VIOLATION property=C13 replay=(same) signature=%s" % res[0])
            return 1
        print("replay: signature %s did not reproduce" % rp.get("signature"))
        return 0
    jd = judge(doc, expr, r.get("source", "gen"), rep)
    print("document  :", req["doc"][:1000])
    print("expression:", expr)
    print("library   :", {k: U(v)[:400] for k, v in rep.items() if isinstance(v, str)})
    if jd.prep is not None:
        print("reference :", ref_search(jd.prep, doc)[0])
    found = list(jd.viol)
    if jd.verdict is not None and jd.reason is None:
        found.append(jd.verdict)
    if r.get("law") and jd.one is not None and jd.one[0] == "value":
        for law, dexpr, expect in identity_requests(expr, jd.one[1]):
            if law != r["law"]:
                continue
            rq = [{"id": 0, "op": "jmespath", "doc": req["doc"], "expr": dexpr}]
            if expect[0] == "expr":
                rq.append({"id": 1, "op": "jmespath", "doc": req["doc"], "expr": expect[1]})
            rr = execdrv.run_requests(exe, "asan", rq)
            sig, detail = judge_identity(expr, law, expect, rep, rr.get(0, {}), rr.get(1))
            if sig:
                detail["derived"] = dexpr
                found.append((sig, detail))
    hit = False
    for sig, detail in found:
        print("replayed: %s %s" % (sig, json.dumps(detail, ensure_ascii=False)[:1200]))
        hit = hit or sig == rp.get("signature")
    if hit:
        print("VIOLATION property=C13 replay=(same) signature=%s" % rp.get("signature"))
        return 1
    print("replay: signature %s did not reproduce" % rp.get("signature"))
    return 0
