"""C20 stage: run the TSan-instrumented sharing driver repeatedly (race reports vary run to run), collect
ThreadSanitizer reports from its log files, de-duplicate them by stack pair with line numbers stripped."""
import os, re, glob, shutil, tempfile, subprocess, json
from .. import core


def parse_tsan(text):
    reports = []
    for blk in re.split(r"={18,}\n", text):
        if "WARNING: ThreadSanitizer" not in blk:
            continue
        kind = re.search(r"WARNING: ThreadSanitizer: ([^\(\n]+)", blk).group(1).strip()
        frames = re.findall(r"#\d+ (\S.*?) (\S+?):(\d+)", blk)
        # signature: kind + first library frame of each of the first two stacks, line numbers stripped
        stacks = re.split(r"\n\s*\n", blk)
        tops = []
        for st in stacks:
            fr = re.findall(r"#\d+ (.+?) (/\S+?)(?::\d+)*\s", st)
            lib = [f for f in fr if "/include/jsoncons" in f[1]]
            if lib:
                fn = re.sub(r"<.*", "", lib[0][0]).split("(")[0].strip()
                tops.append("%s@%s" % (fn[-60:], os.path.basename(lib[0][1])))
            if len(tops) == 2:
                break
        reports.append({"kind": kind, "sig": "tsan/%s/%s" % (kind.replace(" ", "-"), "|".join(tops) or "no-library-frame"), "text": blk[:6000]})
    return reports


def run(run, tier, seed, stage, bins):
    exe = bins[("c20_threads", "tsan")]
    repeats = stage.get("repeats_" + tier, 3)
    episodes = stage.get("episodes_" + tier, 12)
    ops = stage.get("ops_" + tier, 300)
    logdir = tempfile.mkdtemp(prefix="verif-c20-", dir=os.environ.get("VERIF_TMP", "/var/tmp"))
    total_reports = 0
    try:
        jobs = []
        for rep in range(repeats):
            env = {"TSAN_OPTIONS": "halt_on_error=0:exitcode=0:second_deadlock_stack=1:log_path=%s/tsan.%d" % (logdir, rep)}
            # sequential repeats: each episode already uses up to 16 threads
            try:
                res = core.run_worker(exe, ["--ops", str(ops), "--tier", tier, "--hang", "120"], "tsan", seed + 1000 * rep, 0, episodes, 0, 1,
                                      timeout=stage.get("timeout", 3000), extra_env=env)
                run.add_worker_results([res], stage["name"])
            except core.Inconclusive as e:
                # a worker that dies outside any episode (memory already corrupted by a race, say) makes the run inconclusive on its own;
                # the race reports ThreadSanitizer wrote before that are still evidence and are judged below
                run.inconclusive.append("repeat %d: %s" % (rep, str(e)[:400]))
                run.count("tsan.repeats_with_lost_worker")
        seen = {}
        for f in sorted(glob.glob(os.path.join(logdir, "tsan.*"))):
            with open(f, errors="replace") as fh:
                for r in parse_tsan(fh.read()):
                    if "vf_signal_handler" in r["text"]:
                        # the harness's own SIGALRM watchdog ran on a worker thread: not the library (its flight record is not meant to be thread safe)
                        run.count("tsan.reports_in_harness_watchdog_ignored")
                        continue
                    total_reports += 1
                    seen.setdefault(r["sig"], r)
        for sig, r in seen.items():
            run.add_violation(sig, {"kind": r["kind"], "report": r["text"]}, stage=stage["name"])
        run.count("tsan.reports_total", total_reports)
        run.count("tsan.reports_distinct", len(seen))
        run.count("tsan.repeats", repeats)
    finally:
        shutil.rmtree(logdir, ignore_errors=True)


def replay(rp, stage):
    print("replay for C20 re-runs the episode with the recorded seed; races are schedule dependent")
    exe = core.build("c20_threads", "tsan")
    cmd = rp.get("cmd")
    if not cmd:
        print(json.dumps(rp.get("detail"))[:3000])
        return 1
    res = core.run_worker(exe, ["--ops", "300"], "tsan", rp["seed"], rp.get("case") or 0, 1, 0, 1)
    for v in res.violations:
        print("replayed:", v["sig"])
    return 1 if res.violations else 0
