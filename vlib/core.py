"""Framework core: content-hash build cache, worker runner with crash/hang attribution,
known-findings matching, evidence and replay files, verdict/exit code discipline."""
import hashlib, json, os, subprocess, sys, time, shutil, glob, re, tempfile
from concurrent.futures import ThreadPoolExecutor

VERIF = os.path.dirname(os.path.dirname(os.path.abspath(__file__)))
REPO = os.environ.get("VERIF_REPO", "/repo")
BUILD = os.environ.get("VERIF_BUILD") or os.path.join(VERIF, "build")
# seeded-change runs redirect evidence/replay output so that the committed evidence is not overwritten
OUT = os.environ.get("VERIF_OUT") or VERIF
NCPU = os.cpu_count() or 4

GUARD = "JSONCONS_VERIF"

FLAGSETS = {
    "asan": dict(cxx="g++", flags="-std=c++17 -O1 -g -fno-omit-frame-pointer -fsanitize=address,undefined "
                 "-fno-sanitize-recover=all -fno-sanitize=nonnull-attribute",
                 env={"ASAN_OPTIONS": "abort_on_error=1:detect_leaks=1:allocator_may_return_null=0:detect_stack_use_after_return=0",
                      "UBSAN_OPTIONS": "print_stacktrace=1:halt_on_error=1:abort_on_error=1"}),
    "asan_noleak": dict(cxx="g++", flags="-std=c++17 -O1 -g -fno-omit-frame-pointer -fsanitize=address,undefined "
                 "-fno-sanitize-recover=all -fno-sanitize=nonnull-attribute",
                 env={"ASAN_OPTIONS": "abort_on_error=1:detect_leaks=0:allocator_may_return_null=0",
                      "UBSAN_OPTIONS": "print_stacktrace=1:halt_on_error=1:abort_on_error=1"}),
    "tsan": dict(cxx="g++", flags="-std=c++17 -O1 -g -fsanitize=thread", env={}),
    "plain": dict(cxx="g++", flags="-std=c++17 -O2 -g", env={}),
    "ubsan": dict(cxx="g++", flags="-std=c++17 -O1 -g -fsanitize=undefined -fno-sanitize-recover=all -fno-sanitize=nonnull-attribute",
                  env={"UBSAN_OPTIONS": "print_stacktrace=1:halt_on_error=1:abort_on_error=1"}),
    "fuzz": dict(cxx="clang++", flags="-std=gnu++17 -O1 -g -fsanitize=fuzzer,address,undefined -fno-sanitize-recover=all "
                 "-fno-sanitize=nonnull-attribute,object-size", env={}),
}


class Inconclusive(Exception):
    pass


def log(*a):
    print("[verif]", *a, file=sys.stderr, flush=True)


_include_hash = None


def include_hash():
    """Hash of every file under REPO/include (content, not mtime)."""
    global _include_hash
    if _include_hash is None:
        h = hashlib.sha256()
        root = os.path.join(REPO, "include")
        for dp, dn, fn in sorted(os.walk(root)):
            dn.sort()
            for f in sorted(fn):
                p = os.path.join(dp, f)
                h.update(os.path.relpath(p, root).encode())
                with open(p, "rb") as fh:
                    h.update(fh.read())
        _include_hash = h.hexdigest()
    return _include_hash


_cxx_ver = {}


def cxx_version(cxx):
    if cxx not in _cxx_ver:
        _cxx_ver[cxx] = subprocess.run([cxx, "--version"], capture_output=True, text=True).stdout.splitlines()[0]
    return _cxx_ver[cxx]


def build(driver, flagset, extra_flags="", libs=""):
    """Compile drivers/<driver>.cpp against REPO/include; returns path of the binary.
    Re-used only when (include tree, driver + common sources, flags, compiler) hash is unchanged."""
    fs = FLAGSETS[flagset]
    src = os.path.join(VERIF, "drivers", driver + ".cpp")
    h = hashlib.sha256()
    h.update(include_hash().encode())
    # a driver named <group>_<x>.cpp may share headers in drivers/<group>/: they are part of the key too
    group = os.path.join(VERIF, "drivers", os.path.basename(src).split("_")[0])
    for p in [src] + sorted(glob.glob(os.path.join(VERIF, "drivers", "common", "*"))) + (sorted(glob.glob(os.path.join(group, "*"))) if os.path.isdir(group) else []):
        with open(p, "rb") as fh:
            h.update(p.encode()); h.update(fh.read())
    h.update((fs["cxx"] + cxx_version(fs["cxx"]) + fs["flags"] + extra_flags + libs + GUARD).encode())
    key = h.hexdigest()[:20]
    outdir = os.path.join(BUILD, "%s-%s-%s" % (driver.replace("/", "_"), flagset, key))
    exe = os.path.join(outdir, "drv")
    if os.path.exists(exe):
        return exe
    os.makedirs(outdir, exist_ok=True)
    tmp = exe + ".tmp%d" % os.getpid()
    cmd = "%s %s %s -D%s -I%s -I%s -o %s %s %s -lpthread" % (
        fs["cxx"], fs["flags"], extra_flags, GUARD, os.path.join(REPO, "include"), os.path.join(VERIF, "drivers"), tmp, src, libs)
    t0 = time.time()
    r = subprocess.run(cmd, shell=True, capture_output=True, text=True)
    if r.returncode != 0:
        sys.stderr.write(r.stderr[-6000:])
        raise Inconclusive("build failed: %s [%s]" % (driver, flagset))
    os.replace(tmp, exe)
    log("built %s [%s] in %.0fs" % (driver, flagset, time.time() - t0))
    # drop stale builds of the same driver/flagset
    for d in glob.glob(os.path.join(BUILD, "%s-%s-*" % (driver.replace("/", "_"), flagset))):
        if d != outdir:
            shutil.rmtree(d, ignore_errors=True)
    return exe


def build_many(specs):
    """specs: list of (driver, flagset[, extra_flags[, libs]]). Parallel; returns dict."""
    out = {}
    with ThreadPoolExecutor(max_workers=max(1, min(len(specs), NCPU))) as ex:
        futs = {ex.submit(build, *s): s for s in specs}
        for f, s in futs.items():
            out[(s[0], s[1])] = f.result()
    return out


def run_env(flagset, extra=None):
    env = dict(os.environ)
    env.update(FLAGSETS[flagset]["env"])
    if extra:
        env.update(extra)
    return env


class WorkerResult:
    def __init__(self):
        self.summaries = []
        self.violations = []   # dicts: {case, sig, detail, driver, args}
        self.crashes = []
        self.stderr_tail = ""


def _parse_lines(text):
    recs = []
    for line in text.splitlines():
        line = line.strip()
        if not line or line[0] != "{":
            continue
        try:
            recs.append(json.loads(line))
        except Exception:
            pass
    return recs


def classify_sanitizer(stderr):
    """Signature fragment from a sanitizer report / abort message."""
    m = re.search(r"ERROR: AddressSanitizer: ([\w-]+)", stderr)
    if m:
        kind = m.group(1)
        fr = re.findall(r"#\d+ 0x[0-9a-f]+ in (.+?) (/\S+?):(\d+)", stderr)
        where = ""
        for fn, path, ln in fr:
            if "/include/jsoncons" in path:
                where = os.path.basename(path)
                break
        return "asan/%s/%s" % (kind, where)
    m = re.search(r"(\S+?):(\d+):\d+: runtime error: (.+)", stderr)
    if m:
        msg = re.sub(r"-?\d[\d.e+]*", "N", m.group(3))[:60]
        return "ubsan/%s/%s" % (os.path.basename(m.group(1)), msg)
    if "LeakSanitizer" in stderr:
        fr = re.findall(r"#\d+ 0x[0-9a-f]+ in (.+?) (/\S+?):(\d+)", stderr)
        where = ""
        for fn, path, ln in fr:
            if "/include/jsoncons" in path:
                where = os.path.basename(path)
                break
        return "lsan/leak/%s" % where
    m = re.search(r"terminate called after throwing an instance of '([^']+)'", stderr)
    if m:
        return "terminate/%s" % m.group(1)
    if "terminate called" in stderr:
        return "terminate"
    return None


def run_worker(exe, args, flagset, seed, start, count, worker=0, nworkers=1, timeout=3600, extra_env=None, max_restarts=40):
    """Runs one worker over its share of [start, start+count); restarts after a crashing case."""
    res = WorkerResult()
    cur = start
    end = start + count
    restarts = 0
    while cur < end:
        cmd = [exe, "--seed", str(seed), "--start", str(cur), "--count", str(end - cur), "--worker", str(worker), "--nworkers", str(nworkers)] + list(args)
        try:
            p = subprocess.run(cmd, capture_output=True, timeout=timeout, env=run_env(flagset, extra_env))
        except subprocess.TimeoutExpired as e:
            raise Inconclusive("worker wall-clock watchdog fired: %s" % " ".join(cmd))
        out = p.stdout.decode("utf-8", "replace")
        err = p.stderr.decode("utf-8", "replace")
        recs = _parse_lines(out)
        got_summary = False
        crash = None
        for r in recs:
            t = r.get("t")
            if t == "summary":
                res.summaries.append(r); got_summary = True
            elif t == "violation":
                r["driver_cmd"] = cmd
                res.violations.append(r)
            elif t in ("crash", "hang"):
                crash = r
        if p.returncode == 0 and got_summary:
            # leak reports come at exit with code != 0 normally; rc 0 means clean
            break
        # abnormal end
        sig = classify_sanitizer(err)
        if crash is None:
            crash = {"t": "crash", "case": None, "sig": p.returncode, "desc": ""}
        if crash.get("t") == "hang" and crash.get("case") is not None and crash["case"] >= 0:
            # bounded-progress watchdog fired: a violation only if it reproduces in isolation with a 3x budget
            c = crash["case"]
            cmd1 = [exe, "--seed", str(seed), "--start", str(c), "--count", "1", "--worker", "0", "--nworkers", "1", "--hang", "90"] + list(args)
            try:
                p1 = subprocess.run(cmd1, capture_output=True, timeout=600, env=run_env(flagset, extra_env))
                reproduced = p1.returncode == 97
                if p1.returncode not in (0, 97):
                    # the isolated run ended abnormally in another way: treat like a crash of that case
                    err = p1.stderr.decode("utf-8", "replace"); sig = classify_sanitizer(err); crash["t"] = "crash"; reproduced = True
                else:
                    for r in _parse_lines(p1.stdout.decode("utf-8", "replace")):
                        if r.get("t") == "violation":
                            r["driver_cmd"] = cmd1; res.violations.append(r)
            except subprocess.TimeoutExpired:
                reproduced = True
            if not reproduced:
                res.slow_cases = getattr(res, "slow_cases", 0) + 1
                nxt = c + 1
                if nworkers > 1:
                    while nxt < end and nxt % nworkers != worker:
                        nxt += 1
                cur = nxt
                continue
        kind = "hang" if crash.get("t") == "hang" else (sig or "signal/%s" % crash.get("sig"))
        desc = crash.get("desc", "") or ""
        if desc.startswith("witness "):
            # isolated witness of a known construct: the witness id is the stable part, the faulting file varies with stack depth
            kind = "witness/%s/%s" % (desc.split()[1], "/".join(kind.split("/")[:2]))
        v = {"t": "violation", "case": crash.get("case"), "sig": "abnormal/" + kind,
             "detail": {"desc": crash.get("desc", ""), "rc": p.returncode, "stderr": err[-5000:]}, "driver_cmd": cmd}
        res.violations.append(v)
        res.crashes.append(v)
        res.stderr_tail = err[-3000:]
        restarts += 1
        c = crash.get("case")
        if c == -1 and cur == 0 and restarts <= max_restarts:
            # died inside the fixed regression catalogue that precedes case 0 (harness: case -1): the violation is recorded above with the
            # catalogue as its witness; carry on with the generated cases (the catalogue only runs when a worker starts at case 0)
            v["sig"] = v["sig"] + "/in-regression-catalogue"
            nxt = 1
            if nworkers > 1:
                while nxt < end and nxt % nworkers != worker:
                    nxt += 1
            cur = nxt
            continue
        if restarts > max_restarts and c is not None and c >= 0:
            # every restart died in an attributed case: the violations recorded so far are the verdict, the rest of the range is not run
            res.truncated = getattr(res, "truncated", 0) + 1
            break
        if c is None or c < 0 or restarts > max_restarts:
            if got_summary:
                break  # e.g. leak report at exit: whole range ran
            raise Inconclusive("worker died without attributable case (rc=%s): %s\n%s" % (p.returncode, " ".join(cmd), err[-2000:]))
        # partial counters of the dead process are lost; continue after the failing case
        nxt = c + 1
        if nworkers > 1:
            while nxt < end and nxt % nworkers != worker:
                nxt += 1
        cur = nxt
    return res


def run_workers(exe, args, flagset, seed, count, nworkers=None, timeout=3600, extra_env=None, start=0):
    nworkers = nworkers or NCPU
    nworkers = max(1, min(nworkers, count))
    results = []
    with ThreadPoolExecutor(max_workers=nworkers) as ex:
        futs = [ex.submit(run_worker, exe, args, flagset, seed, start, count, w, nworkers, timeout, extra_env) for w in range(nworkers)]
        for f in futs:
            results.append(f.result())
    return results


# ------------------------------------------------------------------------------------
class Run:
    """Accumulates what a check observed; decides the verdict; writes evidence/replay."""

    def __init__(self, prop, tier, seed, level="exploration"):
        self.prop, self.tier, self.seed, self.level = prop, tier, seed, level
        self.t0 = time.time()
        self.evaluations = 0
        self.distinct = 0
        self.counters = {}
        self.samples = []
        self.violations = []       # dicts with sig, detail, replay info
        self.rule = ""
        self.assumptions = []
        self.extra_cov = {}
        self.inconclusive = []
        self.exhaustive = None
        self.min_distinct = 2

    # -- feeding ------------------------------------------------------------------
    def add_worker_results(self, results, stage):
        for r in results:
            for s in r.summaries:
                self.evaluations += s.get("evaluations", 0)
                self.distinct += s.get("distinct", 0)
                for k, v in s.get("counters", {}).items():
                    kk = "%s.%s" % (stage, k) if stage else k
                    self.counters[kk] = self.counters.get(kk, 0) + v
                for x in s.get("samples", []):
                    if len(self.samples) < 8:
                        self.samples.append({"stage": stage, "case": x})
                # violations beyond the first 3 per signature are only counted by the driver
                for sig, n in s.get("viol_by_sig", {}).items():
                    kk = "violations_by_signature.%s" % sig
                    self.counters[kk] = self.counters.get(kk, 0) + n
            for v in r.violations:
                self.add_violation(v["sig"], v.get("detail"), stage=stage, case=v.get("case"), cmd=v.get("driver_cmd"))

    def add_violation(self, sig, detail, stage="", case=None, cmd=None, replay=None):
        self.violations.append({"sig": sig, "detail": detail, "stage": stage, "case": case, "cmd": cmd, "replay": replay})

    def count(self, k, n=1):
        self.counters[k] = self.counters.get(k, 0) + n

    # -- finishing ----------------------------------------------------------------
    def finish(self):
        findings = load_findings(self.prop)
        open_sigs = {f["signature"]: f for f in findings if f.get("status") == "open"}
        new = []
        known_seen = {}
        for v in self.violations:
            f = match_finding(v["sig"], open_sigs)
            if f is not None:
                known_seen.setdefault(f["signature"], f)
            else:
                new.append(v)
        for sig, f in sorted(known_seen.items()):
            print("KNOWN-FINDING: property=%s %s %s" % (self.prop, sig, f.get("what", "")))
        verdict = "held"
        replay_paths = []
        if new:
            verdict = "violated"
            os.makedirs(os.path.join(OUT, "replay", self.prop), exist_ok=True)
            seen = set()
            for v in new:
                if v["sig"] in seen:
                    continue
                seen.add(v["sig"])
                name = re.sub(r"[^A-Za-z0-9_.-]+", "_", v["sig"])[:80]
                path = os.path.join(OUT, "replay", self.prop, "%s-seed%d.json" % (name, self.seed))
                with open(path, "w") as fh:
                    json.dump({"property": self.prop, "signature": v["sig"], "seed": self.seed, "tier": self.tier, "stage": v["stage"],
                               "case": v["case"], "cmd": v["cmd"], "detail": v["detail"], "replay": v["replay"]}, fh, indent=1, default=str)
                replay_paths.append(path)
                print("VIOLATION property=%s replay=%s" % (self.prop, path))
                print("  signature: %s" % v["sig"])
                d = json.dumps(v["detail"], default=str)
                print("  detail: %s" % d[:1500])
        if verdict == "held" and self.inconclusive:
            verdict = "inconclusive"
        if verdict == "held" and (self.evaluations < 1 or self.distinct < self.min_distinct):
            verdict = "inconclusive"
            self.inconclusive.append("too few cases judged: evaluations=%d distinct=%d" % (self.evaluations, self.distinct))
        self.write_evidence(verdict, len(new), sorted(known_seen))
        wall = time.time() - self.t0
        if verdict == "held":
            print("HELD property=%s tier=%s seed=%d evaluations=%d distinct_nontrivial=%d known_findings=%d wall=%.0fs" % (
                self.prop, self.tier, self.seed, self.evaluations, self.distinct, len(known_seen), wall))
            return 0
        if verdict == "violated":
            return 1
        for m in self.inconclusive:
            print("INCONCLUSIVE property=%s %s" % (self.prop, m))
        return 2

    def write_evidence(self, verdict, nviol, known):
        cov = {"evaluations": int(self.evaluations), "distinct_nontrivial": int(self.distinct), "rule": self.rule,
               "samples": self.samples[:8] if self.samples else [], "observed": self.counters, "verdict": verdict,
               "known_findings_seen": known}
        if self.exhaustive is not None:
            cov["exhaustive"] = bool(self.exhaustive)
        cov.update(self.extra_cov)
        ev = {"property_id": self.prop, "tier": self.tier, "seed": int(self.seed), "level": self.level, "coverage": cov,
              "assumptions": self.assumptions, "wall_s": round(time.time() - self.t0, 2), "violations": int(nviol)}
        os.makedirs(os.path.join(OUT, "evidence"), exist_ok=True)
        p = os.path.join(OUT, "evidence", self.prop + ".json")
        with open(p + ".tmp", "w") as fh:
            json.dump(ev, fh, indent=1, sort_keys=True, default=str)
        os.replace(p + ".tmp", p)


def load_findings(prop=None):
    p = os.path.join(VERIF, "known_findings.json")
    if not os.path.exists(p):
        return []
    with open(p) as fh:
        data = json.load(fh)
    fs = data.get("findings", [])
    return [f for f in fs if prop is None or f.get("property") == prop]


def match_finding(sig, open_sigs):
    """Exact signature match only (signatures are specific by construction)."""
    return open_sigs.get(sig)


def tier_and_seed(argv_tier=None):
    tier = argv_tier or os.environ.get("VERIF_TIER") or "quick"
    seed = int(os.environ.get("VERIF_SEED", "1") or "1")
    return tier, seed
