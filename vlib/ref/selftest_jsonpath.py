#!/usr/bin/env python3
"""Self-test for jsonpath_ref.py.

  1. built-in unit checks (escapes, slices, dedup/sort, error cases)
  2. every in-scope case of /repo/test/jsonpath/input/{test.json,test_data/*.json}
  3. 20 000 generated (document, expression) pairs: parse ok, evaluate ok, every
     returned normalized path re-selects exactly the returned node (`is`).

Exit status 0 iff everything passed (KNOWN_DIFFERENCES are reported, not failed).
"""
from __future__ import annotations

import glob
import json
import os
import random
import sys
import time

sys.path.insert(0, os.path.dirname(os.path.abspath(__file__)))
import jsonpath_ref as jp  # noqa: E402

SUITE_DIR = "/repo/test/jsonpath/input"
N_GENERATED = 20000

# (file basename, expression) -> justification.  Cases listed here are compared,
# reported, and not counted as failures.
KNOWN_DIFFERENCES: dict = {
}


def strip_json_comments(text: str) -> str:
    """Remove // line comments and /* */ block comments outside of JSON strings."""
    out = []
    i, n = 0, len(text)
    in_str = False
    while i < n:
        c = text[i]
        if in_str:
            out.append(c)
            if c == "\\" and i + 1 < n:
                out.append(text[i + 1])
                i += 2
                continue
            if c == '"':
                in_str = False
            i += 1
        elif c == '"':
            in_str = True
            out.append(c)
            i += 1
        elif c == "/" and text.startswith("//", i):
            while i < n and text[i] != "\n":
                i += 1
        elif c == "/" and text.startswith("/*", i):
            j = text.find("*/", i + 2)
            i = n if j < 0 else j + 2
        else:
            out.append(c)
            i += 1
    return "".join(out)


def jdump(v) -> str:
    try:
        return json.dumps(v, ensure_ascii=False)
    except Exception:
        return repr(v)


# --------------------------------------------------------------------------------------
def unit_checks() -> list:
    fails = []

    def check(cond, msg):
        if not cond:
            fails.append(msg)

    def vals(expr, doc):
        return [v for _p, v in jp.evaluate(expr, doc)]

    def paths(expr, doc):
        return [p for p, _v in jp.evaluate(expr, doc)]

    doc = jp.sort_keys({"it's": 1, "back\\slash": 2, 'say "hi"': 3, "é": 4, "\U0001D11E": 5,
                        "a b": [10, 11, 12, 13, 14], "tab\t": 6, "": 7})
    check(paths("$['it\\'s']", doc) == ["$['it\\'s']"], "escape of '")
    check(paths('$["it\'s"]', doc) == ["$['it\\'s']"], "double quoted with '")
    check(paths("$['back\\\\slash']", doc) == ["$['back\\\\slash']"], "escape of backslash")
    check(vals("$['say \"hi\"']", doc) == [3], "double quote inside single quotes")
    check(vals('$["say \\"hi\\""]', doc) == [3], "escaped double quote")
    check(vals("$.é", doc) == [4] and vals("$['\\u00e9']", doc) == [4], "unicode name")
    check(vals("$['\\uD834\\uDD1E']", doc) == [5], "surrogate pair escape")
    check(vals("$.'a b'[1]", doc) == [11] and vals('$."a b"[-1]', doc) == [14], "dot quoted")
    check(paths("$['tab\\t']", doc) == ["$['tab\\t']"], "control char escape in path")
    check(vals("$['']", doc) == [7], "empty name")
    for p, v in jp.evaluate("$.*", doc):
        r = jp.evaluate(p, doc)
        check(len(r) == 1 and r[0][1] is v and r[0][0] == p, "round trip " + p)
    check(jp.parse_normalized_path("$['a'][3]['it\\'s']") == ("a", 3, "it's"),
          "parse_normalized_path")

    arr = list(range(5))
    for expr, exp in [("$[1:3]", [1, 2]), ("$[::-1]", [4, 3, 2, 1, 0]), ("$[7:3:-1]", [4]),
                      ("$[:-3:-1]", [4, 3]), ("$[0:3:-2]", []), ("$[-100:2]", [0, 1]),
                      ("$[3:0:-2]", [3, 1]), ("$[::2]", [0, 2, 4]), ("$[2:-100:-1]", [2, 1, 0]),
                      ("$[1::]", [1, 2, 3, 4]), ("$[-1]", [4]), ("$[-5]", [0]), ("$[-6]", []),
                      ("$[5]", []), ("$[4,1,1]", [4, 1, 1]), ("$[0,:2,*]", [0, 0, 1, 0, 1, 2, 3, 4])]:
        check(vals(expr, arr) == exp, "%s -> %r" % (expr, vals(expr, arr)))
    check(paths("$[-2:]", arr) == ["$[3]", "$[4]"], "slice paths are normalized")

    for bad in ["", " ", "$[0:3:0]", "$[key]", "$['a',b]", "$key", "$.key-dash", "foo.1",
                "$[?()]", "$[?(@.key=42)]", '$."\\u"', "$[?(@.d==['v1','v2'])]", "$.",
                "$[", "$['a'", "$[1", "$['\\x']", "$['\\uD834']", "$[?(@.a &  @.b)]",
                "$[?(@.a | @.b)]", "$[?(@.a ==)]", "$[1 2]", "$.a b", "$[?(foo)]"]:
        try:
            jp.parse(bad)
            fails.append("expected PathSyntaxError for %r" % bad)
        except jp.PathSyntaxError:
            pass
        except jp.NotSupported:
            fails.append("expected PathSyntaxError, got NotSupported for %r" % bad)
    for ns in ["length($..book)", "$[?(@.a =~ /x/)]", "$[?(@.a + 1 == 2)]", "$[?(@.key-50==-100)]",
               "$[(@.length-1)]", "$[?(length(@.a) > 1)]", "$[?(-@.a == 1)]", "$[0,(@.length-1)]",
               "\"to_string\"(`1.0`)", "$[?(@.a == `1`)]", "$[?(@.a*2==4)]", "$[?(@.a/2==4)]",
               "$[?(@.a%2==0)]"]:
        try:
            jp.parse(ns)
            fails.append("expected NotSupported for %r" % ns)
        except jp.NotSupported:
            pass
        except jp.PathSyntaxError as e:
            fails.append("expected NotSupported, got PathSyntaxError for %r (%s)" % (ns, e))

    res = jp.evaluate("$[4,1,1]", [1, 2, 3, 4, 5])
    check([p for p, _ in jp.dedup(res)] == ["$[4]", "$[1]"], "dedup")
    check([p for p, _ in jp.sort_by_path(res)] == ["$[1]", "$[1]", "$[4]"], "sort")
    check([p for p, _ in jp.sort_by_path(jp.dedup(res))] == ["$[1]", "$[4]"], "dedup+sort")
    mixed = [("$['b']", 0), ("$['a'][10]", 0), ("$['a'][9]", 0), ("$['a']", 0), ("$", 0),
             ("$['B']", 0), ("$['a']['x']", 0)]
    check([p for p, _ in jp.sort_by_path(mixed)] ==
          ["$", "$['B']", "$['a']", "$['a'][9]", "$['a'][10]", "$['a']['x']", "$['b']"],
          "sort_by_path order")

    # filter semantics
    fd = [{"k": 1}, {"k": 1.0}, {"k": True}, {"k": "1"}, {"k": None}, {}, {"k": 0}, {"k": ""},
          {"k": []}, {"k": {}}, {"k": False}, {"k": [0]}]
    check(vals("$[?(@.k==1)]", fd) == [{"k": 1}, {"k": 1.0}], "== is type strict")
    check(vals("$[?(@.k==null)]", fd) == [{"k": None}, {}], "missing == null")
    check(vals("$[?(@.k)]", fd) == [{"k": 1}, {"k": 1.0}, {"k": True}, {"k": "1"}, {"k": 0},
                                    {"k": [0]}], "truthiness")
    check(vals("$[?(@.k<=1)]", fd) == [{"k": 1}, {"k": 1.0}, {"k": 0}], "<= numbers only")
    check(vals("$[?(@.k>='0')]", fd) == [{"k": "1"}], ">= strings only")
    check(vals("$[?(@.k==true || @.k==false)]", fd) == [{"k": True}, {"k": False}], "booleans")
    check(vals("$[?(!@.k && @.k != null)]", fd) == [{"k": ""}, {"k": []}, {"k": {}}, {"k": False}],
          "! and &&")
    od = jp.sort_keys({"x": {"v": 2}, "y": {"v": 3}, "z": 5, "w": [{"v": 3}]})
    check(vals("$[?(@.v > 2)]", od) == [{"v": 3}], "filter on object tests member values")
    check(paths("$..[?(@.v==3)]", od) == ["$['y']", "$['w'][0]"], "descent + filter")
    check(paths("$..v", od) == ["$['w'][0]['v']", "$['x']['v']", "$['y']['v']"], "descent order")
    check(paths("$.w[0].v^^", od) == ["$['w']"], "parent")
    check(paths("$^", od) == [], "parent of root")
    check(paths("$..", [[1], {"a": []}]) == ["$", "$[0]", "$[1]", "$[1]['a']"], "trailing ..")
    return fails


# --------------------------------------------------------------------------------------
def run_suite():
    files = [os.path.join(SUITE_DIR, "test.json")] + \
        sorted(glob.glob(os.path.join(SUITE_DIR, "test_data", "*.json")))
    total_fail = 0
    print("== jsoncons test-suite cases ==")
    print("%-24s %6s %6s %6s %6s %6s %6s" %
          ("file", "cases", "pass", "FAIL", "known", "notsup", "error"))
    all_mismatches = []
    err_disagree = []
    for f in files:
        base = os.path.basename(f)
        with open(f, encoding="utf-8") as fh:
            groups = json.loads(strip_json_comments(fh.read()))
        n = npass = nfail = nknown = nskip = nerr = 0
        for g in groups:
            given = jp.sort_keys(g["given"])
            for c in g["cases"]:
                n += 1
                expr = c["expression"]
                if "error" in c:
                    nerr += 1
                    try:
                        jp.evaluate(expr, given)
                        err_disagree.append((base, expr, c["error"]))
                    except (jp.PathSyntaxError, jp.NotSupported):
                        pass
                    continue
                try:
                    res = jp.evaluate(expr, given)
                except jp.NotSupported:
                    nskip += 1
                    continue
                except jp.PathSyntaxError as e:
                    res = None
                    why = "PathSyntaxError: %s" % e
                if res is not None:
                    if c.get("nodups"):
                        res = jp.dedup(res)
                    if c.get("sort"):
                        res = jp.sort_by_path(res)
                    why = None
                    if "result" in c:
                        got = [v for _p, v in res]
                        if not jp.deep_equal(got, c["result"]):
                            why = "values: expected %s got %s" % (jdump(c["result"]), jdump(got))
                    if why is None and "path" in c:
                        gotp = [p for p, _v in res]
                        if gotp != c["path"]:
                            why = "paths: expected %s got %s" % (jdump(c["path"]), jdump(gotp))
                    if "result" not in c and "path" not in c:
                        why = "case has neither result nor path"
                if why is None:
                    npass += 1
                elif (base, expr) in KNOWN_DIFFERENCES:
                    nknown += 1
                    all_mismatches.append(("known", base, expr, why))
                else:
                    nfail += 1
                    all_mismatches.append(("FAIL", base, expr, why))
        total_fail += nfail
        print("%-24s %6d %6d %6d %6d %6d %6d" % (base, n, npass, nfail, nknown, nskip, nerr))
    for kind, base, expr, why in all_mismatches:
        print("  [%s] %s: %s\n      %s" % (kind, base, expr, why))
        if kind == "known":
            print("      justification: %s" % KNOWN_DIFFERENCES[(base, expr)])
    if err_disagree:
        print("  note: cases expecting an error that this evaluator accepts:")
        for base, expr, e in err_disagree:
            print("    %s: %r (expected error: %s)" % (base, expr, e))
    else:
        print("  all cases that expect an error are also rejected here "
              "(PathSyntaxError or NotSupported)")
    return total_fail


# --------------------------------------------------------------------------------------
def run_generated(n_pairs: int, seed: int = 20261004):
    print("== %d generated (document, expression) pairs ==" % n_pairs)
    rng = random.Random(seed)
    fails = []
    n_nonempty = n_results = 0
    feature_counts = {}
    notes_counts = {}
    per_doc = 10
    done = 0
    t0 = time.time()
    while done < n_pairs:
        doc = jp.gen_document(rng, depth=rng.choice([2, 3, 3, 4]))
        for _ in range(per_doc):
            if done >= n_pairs:
                break
            done += 1
            expr = None
            try:
                expr = jp.gen_expression(rng, doc, depth=rng.choice([1, 2, 3, 3]))
                ast = jp.parse(expr)
                notes = set()
                res = jp.evaluate(ast, doc, notes)
                res2 = jp.evaluate(expr, doc)
                if [(p, id(v)) for p, v in res] != [(p, id(v)) for p, v in res2]:
                    raise AssertionError("evaluate(ast) != evaluate(str)")
                if res:
                    n_nonempty += 1
                n_results += len(res)
                for t in notes:
                    notes_counts[t] = notes_counts.get(t, 0) + 1
                for feat, present in (("..", ".." in expr), ("[?", "?" in expr), ("^", "^" in expr),
                                      ("slice", ":" in expr), ("union", "," in expr),
                                      ("*", "*" in expr), ("&&/||", "&&" in expr or "||" in expr),
                                      ("!", "!" in expr.replace("!=", "")), ("$ in filter", "$" in expr[1:])):
                    if present:
                        feature_counts[feat] = feature_counts.get(feat, 0) + 1
                seen = {}
                for p, v in res:
                    if p in seen:
                        if seen[p] is not v:
                            raise AssertionError("same path %s, different nodes" % p)
                        continue
                    seen[p] = v
                    back = jp.evaluate(p, doc)
                    if len(back) != 1 or back[0][1] is not v or back[0][0] != p:
                        raise AssertionError("path %s does not re-select its node: %r" % (p, back))
                if jp.dedup(res) != [r for i, r in enumerate(res)
                                     if r[0] not in [q[0] for q in res[:i]]]:
                    raise AssertionError("dedup mismatch")
                srt = jp.sort_by_path(res)
                if sorted(map(id, (v for _p, v in srt))) != sorted(map(id, (v for _p, v in res))):
                    raise AssertionError("sort_by_path lost results")
            except Exception as e:  # noqa: BLE001
                fails.append((expr, doc, "%s: %s" % (type(e).__name__, e)))
    dt = time.time() - t0
    print("  pairs: %d, failures: %d, non-empty results: %d (%.1f%%), total nodes: %d, %.1fs"
          % (done, len(fails), n_nonempty, 100.0 * n_nonempty / max(1, done), n_results, dt))
    print("  expressions using: " + ", ".join("%s=%d" % kv for kv in sorted(feature_counts.items())))
    print("  evaluation notes : " + ", ".join("%s=%d" % kv for kv in sorted(notes_counts.items())))
    for expr, doc, why in fails[:20]:
        print("  [FAIL] expr=%r\n         doc=%s\n         %s" % (expr, jdump(doc), why))
    return len(fails)


def run_mutation_fuzz(n: int, seed: int = 4242):
    """Mutated expressions must either parse+evaluate or raise one of the two
    documented exceptions - never anything else."""
    print("== %d mutated expressions (robustness) ==" % n)
    rng = random.Random(seed)
    alphabet = list("$@.[]()?*,:'\"\\!=<>&|^-+/%~` 0123456789abtnu_é{}") + ["..", "&&", "||", "==", "\\u00", "[?(", ")]"]
    fails = []
    n_ok = n_syntax = n_notsup = 0
    doc = None
    for k in range(n):
        if k % 20 == 0:
            doc = jp.gen_document(rng, 3)
        expr = jp.gen_expression(rng, doc, 3)
        chars = list(expr)
        for _ in range(rng.choice([1, 1, 2, 3])):
            pos = rng.randrange(len(chars) + 1)
            r = rng.random()
            if r < 0.4 and pos < len(chars):
                del chars[pos]
            elif r < 0.7:
                chars.insert(pos, rng.choice(alphabet))
            elif pos < len(chars):
                chars[pos] = rng.choice(alphabet)
        m = "".join(chars)
        try:
            res = jp.evaluate(m, doc)
            for p, v in res[:3]:
                if "['length']" not in p:
                    back = jp.evaluate(p, doc)
                    if len(back) != 1 or back[0][1] is not v:
                        raise AssertionError("path %s does not re-select its node" % p)
            n_ok += 1
        except jp.PathSyntaxError:
            n_syntax += 1
        except jp.NotSupported:
            n_notsup += 1
        except Exception as e:  # noqa: BLE001
            fails.append((m, "%s: %s" % (type(e).__name__, e)))
    print("  accepted: %d, PathSyntaxError: %d, NotSupported: %d, other exceptions: %d"
          % (n_ok, n_syntax, n_notsup, len(fails)))
    for m, why in fails[:20]:
        print("  [FAIL] %r -> %s" % (m, why))
    deep = "$[?" + "(" * 5000 + "@" + ")" * 5000 + "]"
    try:
        jp.parse(deep)
    except jp.PathSyntaxError:
        pass
    except Exception as e:  # noqa: BLE001
        fails.append((deep[:20], type(e).__name__))
        print("  [FAIL] deep nesting -> %s" % type(e).__name__)
    return len(fails)


def main() -> int:
    t0 = time.time()
    rc = 0
    ufails = unit_checks()
    print("== unit checks: %s ==" % ("OK" if not ufails else "%d FAILED" % len(ufails)))
    for m in ufails:
        print("  [FAIL] " + m)
    rc += len(ufails)
    if os.path.isdir(SUITE_DIR):
        rc += run_suite()
    else:
        print("== test-suite directory %s not found: skipped ==" % SUITE_DIR)
    rc += run_generated(N_GENERATED)
    rc += run_mutation_fuzz(10000)
    print("== %s (%.1fs) ==" % ("ALL OK" if rc == 0 else "%d FAILURE(S)" % rc, time.time() - t0))
    return 0 if rc == 0 else 1


if __name__ == "__main__":
    sys.exit(main())
