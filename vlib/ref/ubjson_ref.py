"""Reference UBJSON codec (Draft 12), from the specification only.

decode(data, max_depth=1024, max_count=1<<20) -> rv.Result
encode(value, rng=None, variety=0.0) -> bytes
gen_value(rng, depth=3, jsonlike=True) -> RV

illformed reasons: truncated, bad-type-marker, bad-length, type-without-count, invalid-utf8,
  bad-hpn, bad-char, nesting, count-limit
  (count-limit is a resource guard, not a spec violation: a $Z/$T/$F typed array consumes no
   input per element, so the total number of such elements per decode is capped at max_count.)
encoding features : counted-container, typed-container, typed-uint8-array, nonminimal (an integer
  value, length or count in a wider integer type than needed), char, noop, noop-in-counted,
  noop-before-value, int:<marker>, plus the rv.classify features.

Values: Z->null T/F->bool i U I l L->("int",n) d/D->("float",bits,32|64)
        C->("text", one byte <= 127)  S->("text", utf8)  H->("hpn", ascii) [RFC 8259 number]
No-op 'N': skipped in front of the top-level value, between array elements, before object
keys, (leniently) before an object value and inside counted-but-untyped containers, where it
does not count as an element.  It is NOT accepted as a $type nor inside typed containers.
"""
import re

try:
    from . import rv
except ImportError:
    import rv

Illformed = rv.Illformed

_NUM = re.compile(rb"-?(0|[1-9][0-9]*)(\.[0-9]+)?([eE][+-]?[0-9]+)?")

# integer markers: size in bytes, signed, (lo, hi)
_INTS = {0x69: (1, True), 0x55: (1, False), 0x49: (2, True), 0x6C: (4, True), 0x4C: (8, True)}   # i U I l L
_INT_ORDER = [0x69, 0x55, 0x49, 0x6C, 0x4C]
_RANGE = {0x69: (-128, 127), 0x55: (0, 255), 0x49: (-1 << 15, (1 << 15) - 1),
          0x6C: (-1 << 31, (1 << 31) - 1), 0x4C: (-1 << 63, (1 << 63) - 1)}
_Z, _N, _T, _F, _d, _D, _C, _S, _H = (ord(c) for c in "ZNTFdDCSH")
_AO, _AC, _OO, _OC, _TYPE, _COUNT = (ord(c) for c in "[]{}$#")
_VALUE_MARKERS = set(_INTS) | {_Z, _T, _F, _d, _D, _C, _S, _H, _AO, _OO}
_CONST = {_Z: ("null",), _T: ("bool", True), _F: ("bool", False)}


def _min_int_marker(n):
    """Narrowest integer type holding n ('i' preferred over 'U' where both fit)."""
    for m in _INT_ORDER:
        lo, hi = _RANGE[m]
        if lo <= n <= hi:
            return m
    raise ValueError("UBJSON integer out of int64 range: %d" % n)


# =========================================================================== decoder

class _Dec:
    def __init__(self, data, max_depth, max_count):
        self.r = rv.Reader(data)
        self.max_depth = max_depth
        self.budget = max_count         # total number of zero-byte ($Z/$T/$F) elements allowed
        self.feats = set()

    def pos(self):
        return self.r.p

    def length(self):
        """A string length or container count: any integer type, value >= 0."""
        r = self.r
        m = r.u8()
        if m not in _INTS:
            raise Illformed("bad-length")
        size, signed = _INTS[m]
        n = r.sint(size) if signed else r.uint(size)
        if n < 0:
            raise Illformed("bad-length")
        self.minimal(n, size)
        return n

    def minimal(self, n, size):
        if _INTS[_min_int_marker(n)][0] < size:         # 'i' and 'U' are both one byte
            self.feats.add("nonminimal")

    def text(self, n):
        b = self.r.take(n)
        if not rv.utf8_valid(b):
            raise Illformed("invalid-utf8")
        return ("text", b)

    def payload(self, m, depth):
        """The value whose type marker m has already been consumed (or was given by $type)."""
        r = self.r
        if m in _INTS:
            size, signed = _INTS[m]
            self.feats.add("int:" + chr(m))
            n = r.sint(size) if signed else r.uint(size)
            self.minimal(n, size)
            return ("int", n)
        if m in _CONST:
            return _CONST[m]
        if m == _S:
            return self.text(self.length())
        if m == _d:
            return ("float", r.uint(4), 32)
        if m == _D:
            return ("float", r.uint(8), 64)
        if m == _C:
            c = r.u8()
            if c > 127:
                raise Illformed("bad-char")
            self.feats.add("char")
            return ("text", bytes([c]))
        if m == _H:
            b = r.take(self.length())
            if not _NUM.fullmatch(b):
                raise Illformed("bad-hpn")
            return ("hpn", b)
        if m == _AO:
            return self.array(depth + 1)
        if m == _OO:
            return self.object(depth + 1)
        raise Illformed("bad-type-marker")

    def header(self):
        """Optional [$ type] [# count] after '[' or '{'.  A type requires a count."""
        r = self.r
        typ = cnt = None
        if r.peek() == _TYPE:
            r.p += 1
            typ = r.u8()
            if typ not in _VALUE_MARKERS:
                raise Illformed("bad-type-marker")
            if r.peek() != _COUNT:
                raise Illformed("type-without-count")
        if r.peek() == _COUNT:
            r.p += 1
            cnt = self.length()
            self.feats.add("counted-container" if typ is None else "typed-container")
        return typ, cnt

    def noop(self, *extra):
        self.feats.add("noop")
        self.feats.update(extra)

    def array(self, depth):
        if depth > self.max_depth:
            raise Illformed("nesting")
        r = self.r
        typ, cnt = self.header()
        out = []
        if cnt is None:                                 # plain: elements until ']'
            while True:
                m = r.u8()
                if m == _AC:
                    break
                if m == _N:
                    self.noop()
                    continue
                out.append(self.payload(m, depth))
        elif typ is None:                               # counted: cnt marked elements, no ']'
            while len(out) < cnt:
                m = r.u8()
                if m == _N:
                    self.noop("noop-in-counted")
                    continue
                out.append(self.payload(m, depth))
        elif typ in _CONST:                             # typed, zero bytes per element
            self.budget -= cnt
            if self.budget < 0:
                raise Illformed("count-limit")
            out = [_CONST[typ]] * cnt
        else:                                           # typed: cnt bare payloads
            if typ == 0x55:
                self.feats.add("typed-uint8-array")
            for _ in range(cnt):
                out.append(self.payload(typ, depth))
        return ("array", out)

    def key(self):
        return self.text(self.length())                 # keys carry no 'S' marker

    def value(self, depth):
        r = self.r
        m = r.u8()
        while m == _N:
            self.noop("noop-before-value")
            m = r.u8()
        return self.payload(m, depth)

    def object(self, depth):
        if depth > self.max_depth:
            raise Illformed("nesting")
        r = self.r
        typ, cnt = self.header()
        out = []
        if cnt is None:
            while True:
                m = r.peek()
                if m == _OC:
                    r.p += 1
                    break
                if m == _N:
                    r.p += 1
                    self.noop()
                    continue
                k = self.key()
                out.append((k, self.value(depth)))
        else:
            while len(out) < cnt:
                if typ is None and r.peek() == _N:
                    r.p += 1
                    self.noop("noop-in-counted")
                    continue
                k = self.key()
                out.append((k, self.value(depth) if typ is None else self.payload(typ, depth)))
        return ("map", out)

    def top(self):
        m = self.r.u8()
        while m == _N:
            self.noop()
            m = self.r.u8()
        return self.payload(m, 0)


def decode(data, max_depth=1024, max_count=1 << 20):
    d = _Dec(data, max_depth, max_count)
    return rv.run(d, d.top)


# =========================================================================== encoder

class _Enc:
    def __init__(self, rng, variety):
        self.rng = rng
        self.variety = variety if rng is not None else 0.0

    def flip(self, scale=1.0):
        return self.variety > 0 and self.rng.random() < self.variety * scale

    def int_marker(self, lo, hi):
        """Marker able to hold every value in [lo, hi]: narrowest, or any wider one."""
        ok = [m for m in _INT_ORDER if _RANGE[m][0] <= lo and hi <= _RANGE[m][1]]
        if not ok:
            raise ValueError("UBJSON integer out of int64 range")
        return self.rng.choice(ok) if self.flip() else ok[0]

    @staticmethod
    def int_payload(m, n):
        size, signed = _INTS[m]
        return n.to_bytes(size, "big", signed=signed)

    def length(self, n, out):
        m = self.int_marker(n, n)
        out.append(m)
        out += self.int_payload(m, n)

    def marker(self, v):
        """Choose the type marker for a single value."""
        k = v[0]
        if k == "int":
            return self.int_marker(v[1], v[1])
        if k == "text":
            return _C if len(v[1]) == 1 and v[1][0] <= 127 and self.flip(0.5) else _S
        if k == "float":
            if v[2] not in (32, 64):
                raise ValueError("UBJSON has no float%r" % (v[2],))
            return _d if v[2] == 32 else _D
        if k == "null":
            return _Z
        if k == "bool":
            return _T if v[1] else _F
        if k == "hpn":
            return _H
        if k == "array":
            return _AO
        if k == "map":
            return _OO
        raise ValueError("UBJSON cannot express %r" % (k,))

    def common_marker(self, vals):
        """One marker under which EVERY value can be written, or None ($type optimisation)."""
        if not vals:
            return self.rng.choice([_Z, _T, 0x69, 0x55, 0x4C, _d, _D, _C, _S, _H, _AO, _OO])
        kinds = {v[0] for v in vals}
        if len(kinds) != 1:
            return None
        k = kinds.pop()
        if k == "int":
            ns = [v[1] for v in vals]
            return self.int_marker(min(ns), max(ns))
        if k == "text":
            if all(len(v[1]) == 1 and v[1][0] <= 127 for v in vals) and self.rng.random() < 0.5:
                return _C
            return _S
        if k == "float":
            return self.marker(vals[0]) if len({v[2] for v in vals}) == 1 else None
        if k == "bool":
            return self.marker(vals[0]) if len({v[1] for v in vals}) == 1 else None
        return self.marker(vals[0])                      # null, hpn, array, map

    def payload(self, m, v, out):
        k = v[0]
        if m in _INTS:
            out += self.int_payload(m, v[1])
        elif m == _S:
            if not rv.utf8_valid(v[1]):
                raise ValueError("text is not valid UTF-8")
            self.length(len(v[1]), out)
            out += v[1]
        elif m == _C:
            out += v[1]
        elif m in (_d, _D):
            if not 0 <= v[1] < 1 << v[2]:
                raise ValueError("bad float bits")
            out += v[1].to_bytes(v[2] // 8, "big")
        elif m == _H:
            if not _NUM.fullmatch(v[1]):
                raise ValueError("hpn text is not a JSON number")
            self.length(len(v[1]), out)
            out += v[1]
        elif m == _AO:
            self.container(v[1], False, out)
        elif m == _OO:
            self.container(v[1], True, out)
        # Z, T, F: no payload

    def value(self, v, out):
        m = self.marker(v)
        out.append(m)
        self.payload(m, v, out)

    def key(self, kv, out):
        if kv[0] != "text":
            raise ValueError("UBJSON object keys must be text")
        self.payload(_S, kv, out)

    def noops(self, out):
        while self.flip(0.15):
            out.append(_N)

    def container(self, items, is_obj, out):
        """Body after '[' / '{'.  Three spellings: plain, #count, $type#count."""
        vals = [p[1] for p in items] if is_obj else items
        mode, typ = 0, None
        if self.flip():
            mode = self.rng.choice((1, 2))
            if mode == 2:
                typ = self.common_marker(vals)
                if typ is None:
                    mode = 1
        if mode == 2:
            out += bytes([_TYPE, typ])
        if mode:
            out.append(_COUNT)
            self.length(len(items), out)
        for it in items:
            if mode == 0:
                self.noops(out)
            if is_obj:
                self.key(it[0], out)
                it = it[1]
            if mode == 2:
                self.payload(typ, it, out)
            else:
                self.value(it, out)
        if mode == 0:
            self.noops(out)
            out.append(_OC if is_obj else _AC)


def encode(value, rng=None, variety=0.0):
    out = bytearray()
    _Enc(rng, variety).value(value, out)
    return bytes(out)


# =========================================================================== generator

_HPNS = [b"0", b"-0", b"1", b"-1", b"18446744073709551616", b"-9223372036854775809", b"1.5", b"0.1e-999",
         b"1E+400", b"3.141592653589793238462643383279", b"-12345678901234567890.12345678901234567890e0"]


def _gen_scalar(rng):
    r = rng.random()
    if r < 0.35:
        return ("int", rv.gen_int(rng, -(1 << 63), (1 << 63) - 1))
    if r < 0.50:
        return rv.gen_float(rng, (32, 64))
    if r < 0.72:
        return ("text", rv.gen_text_bytes(rng))
    if r < 0.80:
        return ("hpn", rng.choice(_HPNS))
    return rng.choice((("null",), ("bool", True), ("bool", False)))


def _gen_homogeneous(rng, n):
    """Same-kind elements, so that the $type optimisation gets exercised."""
    k = rng.randrange(6)
    if k == 0:
        lo, hi = rng.choice(((0, 255), (-128, 127), (-32768, 32767), (-(1 << 31), (1 << 31) - 1),
                             (-(1 << 63), (1 << 63) - 1)))
        return [("int", rv.gen_int(rng, lo, hi)) for _ in range(n)]
    if k == 1:
        w = rng.choice((32, 64))
        return [rv.gen_float(rng, (w,)) for _ in range(n)]
    if k == 2:
        return [("text", rv.gen_text_bytes(rng, n=rng.choice((0, 1, 2, 5)))) for _ in range(n)]
    if k == 3:
        return [("text", bytes([rng.randrange(128)])) for _ in range(n)]
    if k == 4:
        return [rng.choice((("null",), ("bool", True), ("bool", False)))] * n
    return [("hpn", rng.choice(_HPNS)) for _ in range(n)]


def gen_value(rng, depth=3, jsonlike=True):
    """All UBJSON values are json-like (plus hpn); `jsonlike` is accepted for API symmetry."""
    if depth <= 0 or rng.random() >= 0.35:
        return _gen_scalar(rng)
    n, big = rv.gen_size(rng)
    sub = 0 if big else depth - 1
    r = rng.random()
    if r < 0.3:
        vals = _gen_homogeneous(rng, n)
    elif r < 0.4 and sub > 0:                            # arrays of arrays / objects of objects
        kind = rng.choice(("array", "map"))
        vals = []
        for _ in range(n):
            inner = gen_value(rng, sub - 1, True)
            vals.append(("array", [inner]) if kind == "array" else ("map", [(rv.gen_key_text(rng), inner)]))
    else:
        vals = [gen_value(rng, sub, True) for _ in range(n)]
    if rng.random() < 0.5:
        return ("array", vals)
    return ("map", [(rv.gen_key_text(rng), v) for v in vals])
