"""Reference MessagePack codec (msgpack spec 2.0 incl. bin/ext families), from the spec only.

decode(data, max_depth=1024) -> rv.Result
encode(value, rng=None, variety=0.0) -> bytes
gen_value(rng, depth=3, jsonlike=True) -> RV

illformed reasons: truncated, reserved-c1, invalid-utf8, nesting
encoding features : nonminimal (a wider int/str/bin/array/map/ext format than required, or a
                    non-negative integer stored in a signed format), plus rv.classify features.

Every ext (including timestamp, type -1) is returned un-interpreted as ("ext", type, payload)
with type as a signed int8.  Nesting counts arrays and maps; top-level array is depth 1.
"""
try:
    from . import rv
except ImportError:
    import rv

Illformed = rv.Illformed


# =========================================================================== decoder

class _Dec:
    def __init__(self, data, max_depth):
        self.r = rv.Reader(data)
        self.max_depth = max_depth
        self.feats = set()

    def pos(self):
        return self.r.p

    def text(self, n):
        b = self.r.take(n)
        if not rv.utf8_valid(b):
            raise Illformed("invalid-utf8")
        return ("text", b)

    def wide(self, cond):
        if cond:
            self.feats.add("nonminimal")

    def item(self, depth):
        r = self.r
        b = r.u8()
        if b <= 0x7F:                                   # positive fixint
            return ("int", b)
        if b >= 0xE0:                                   # negative fixint
            return ("int", b - 256)
        if b <= 0x8F:
            return self.map(b & 15, depth + 1)
        if b <= 0x9F:
            return self.array(b & 15, depth + 1)
        if b <= 0xBF:
            return self.text(b & 31)
        if b == 0xC0:
            return ("null",)
        if b == 0xC1:
            raise Illformed("reserved-c1")
        if b == 0xC2:
            return ("bool", False)
        if b == 0xC3:
            return ("bool", True)
        if 0xC4 <= b <= 0xC6:                           # bin 8/16/32
            n = r.uint(1 << (b - 0xC4))
            self.wide(b > 0xC4 and n < (1 << 8, 1 << 16)[b - 0xC5])
            return ("bytes", r.take(n))
        if 0xC7 <= b <= 0xC9:                           # ext 8/16/32
            n = r.uint(1 << (b - 0xC7))
            self.wide(n in (1, 2, 4, 8, 16) or (b > 0xC7 and n < (1 << 8, 1 << 16)[b - 0xC8]))
            t = r.sint(1)
            return ("ext", t, r.take(n))
        if b == 0xCA:
            return ("float", r.uint(4), 32)
        if b == 0xCB:
            return ("float", r.uint(8), 64)
        if 0xCC <= b <= 0xCF:                           # uint 8/16/32/64
            k = b - 0xCC
            n = r.uint(1 << k)
            self.wide(n < (1 << 7, 1 << 8, 1 << 16, 1 << 32)[k])
            return ("int", n)
        if 0xD0 <= b <= 0xD3:                           # int 8/16/32/64
            k = b - 0xD0
            n = r.sint(1 << k)
            # minimal only for negatives that do not fit the next narrower signed format
            self.wide(n >= -(1 << 5, 1 << 7, 1 << 15, 1 << 31)[k])
            return ("int", n)
        if 0xD4 <= b <= 0xD8:                           # fixext 1/2/4/8/16
            t = r.sint(1)
            return ("ext", t, r.take(1 << (b - 0xD4)))
        if 0xD9 <= b <= 0xDB:                           # str 8/16/32
            n = r.uint(1 << (b - 0xD9))
            self.wide(n < (1 << 5, 1 << 8, 1 << 16)[b - 0xD9])
            return self.text(n)
        if b <= 0xDD:                                   # array 16/32
            n = r.uint(2 << (b - 0xDC))
            self.wide(n < (1 << 4, 1 << 16)[b - 0xDC])
            return self.array(n, depth + 1)
        n = r.uint(2 << (b - 0xDE))                     # map 16/32
        self.wide(n < (1 << 4, 1 << 16)[b - 0xDE])
        return self.map(n, depth + 1)

    def array(self, n, depth):
        if depth > self.max_depth:
            raise Illformed("nesting")
        out = []
        for _ in range(n):
            out.append(self.item(depth))
        return ("array", out)

    def map(self, n, depth):
        if depth > self.max_depth:
            raise Illformed("nesting")
        out = []
        for _ in range(n):
            k = self.item(depth)
            out.append((k, self.item(depth)))
        return ("map", out)


def decode(data, max_depth=1024):
    d = _Dec(data, max_depth)
    return rv.run(d, lambda: d.item(0))


# =========================================================================== encoder

def _int_spellings(n):
    """All legal encodings of integer n, shortest (canonical) first."""
    out = []
    if -32 <= n <= 127:
        out.append(bytes([n & 0xFF]))
    if n >= 0:
        for k, code in ((1, 0xCC), (2, 0xCD), (4, 0xCE), (8, 0xCF)):
            if n < 1 << (8 * k):
                out.append(bytes([code]) + n.to_bytes(k, "big"))
    for k, code in ((1, 0xD0), (2, 0xD1), (4, 0xD2), (8, 0xD3)):
        if -(1 << (8 * k - 1)) <= n < 1 << (8 * k - 1):
            out.append(bytes([code]) + n.to_bytes(k, "big", signed=True))
    if not out:
        raise ValueError("MessagePack integer out of range: %d" % n)
    out.sort(key=len)           # stable: unsigned before signed at equal length
    return out


class _Enc:
    def __init__(self, rng, variety):
        self.rng = rng
        self.variety = variety if rng is not None else 0.0

    def flip(self):
        return self.variety > 0 and self.rng.random() < self.variety

    def length(self, n, forms):
        """forms: list of (limit, builder) narrowest first; pick minimal or any wider one."""
        ok = [f for lim, f in forms if n < lim]
        if not ok:
            raise ValueError("length %d too large for MessagePack" % n)
        return (self.rng.choice(ok) if self.flip() else ok[0])(n)

    def enc(self, v, out):
        k = v[0]
        if k == "int":
            sp = _int_spellings(v[1])
            out += self.rng.choice(sp) if self.flip() else sp[0]
        elif k == "text":
            if not rv.utf8_valid(v[1]):
                raise ValueError("text is not valid UTF-8")
            out += self.length(len(v[1]), [
                (32, lambda n: bytes([0xA0 | n])), (1 << 8, lambda n: bytes([0xD9, n])),
                (1 << 16, lambda n: b"\xda" + n.to_bytes(2, "big")),
                (1 << 32, lambda n: b"\xdb" + n.to_bytes(4, "big"))])
            out += v[1]
        elif k == "bytes":
            out += self.length(len(v[1]), [
                (1 << 8, lambda n: bytes([0xC4, n])),
                (1 << 16, lambda n: b"\xc5" + n.to_bytes(2, "big")),
                (1 << 32, lambda n: b"\xc6" + n.to_bytes(4, "big"))])
            out += v[1]
        elif k == "array":
            out += self.length(len(v[1]), [
                (16, lambda n: bytes([0x90 | n])),
                (1 << 16, lambda n: b"\xdc" + n.to_bytes(2, "big")),
                (1 << 32, lambda n: b"\xdd" + n.to_bytes(4, "big"))])
            for x in v[1]:
                self.enc(x, out)
        elif k == "map":
            out += self.length(len(v[1]), [
                (16, lambda n: bytes([0x80 | n])),
                (1 << 16, lambda n: b"\xde" + n.to_bytes(2, "big")),
                (1 << 32, lambda n: b"\xdf" + n.to_bytes(4, "big"))])
            for kk, vv in v[1]:
                self.enc(kk, out)
                self.enc(vv, out)
        elif k == "float":
            bits, w = v[1], v[2]
            if w not in (32, 64) or not 0 <= bits < 1 << w:
                raise ValueError("MessagePack has no float%r" % (w,))
            out.append(0xCA if w == 32 else 0xCB)
            out += bits.to_bytes(w // 8, "big")
        elif k == "bool":
            out.append(0xC3 if v[1] else 0xC2)
        elif k == "null":
            out.append(0xC0)
        elif k == "ext":
            t, p = v[1], v[2]
            if not -128 <= t <= 127:
                raise ValueError("ext type out of range")
            tb = bytes([t & 0xFF])
            forms = []
            if len(p) in (1, 2, 4, 8, 16):
                forms.append((17, lambda n: bytes([0xD4 + n.bit_length() - 1])))
            forms += [(1 << 8, lambda n: bytes([0xC7, n])),
                      (1 << 16, lambda n: b"\xc8" + n.to_bytes(2, "big")),
                      (1 << 32, lambda n: b"\xc9" + n.to_bytes(4, "big"))]
            out += self.length(len(p), forms)
            out += tb
            out += p
        else:
            raise ValueError("MessagePack cannot express %r" % (k,))


def encode(value, rng=None, variety=0.0):
    out = bytearray()
    _Enc(rng, variety).enc(value, out)
    return bytes(out)


# =========================================================================== generator

def _gen_ext(rng):
    if rng.random() < 0.4:                      # timestamp 32 / 64 / 96 payload shapes
        return ("ext", -1, rv.gen_bytes(rng, rng.choice((4, 8, 12))))
    t = rng.choice((0, 1, 5, 127, -2, -128, -1))
    return ("ext", t, rv.gen_bytes(rng, rng.choice((0, 1, 2, 3, 4, 5, 8, 15, 16, 17, 255, 256))))


def _gen_scalar(rng, jsonlike):
    r = rng.random()
    if r < 0.35:
        return ("int", rv.gen_int(rng, -(1 << 63), (1 << 64) - 1))
    if r < 0.50:
        return rv.gen_float(rng, (32, 64))
    if r < 0.70:
        return ("text", rv.gen_text_bytes(rng))
    if r < 0.82:
        return ("bytes", rv.gen_bytes(rng))
    if not jsonlike and r < 0.92:
        return _gen_ext(rng)
    return rng.choice((("null",), ("bool", True), ("bool", False)))


def gen_value(rng, depth=3, jsonlike=True):
    if depth <= 0 or rng.random() >= 0.35:
        return _gen_scalar(rng, jsonlike)
    n, big = rv.gen_size(rng)
    sub = 0 if big else depth - 1
    if rng.random() < 0.5:
        return ("array", [gen_value(rng, sub, jsonlike) for _ in range(n)])
    pairs = []
    for _ in range(n):
        if jsonlike or rng.random() < 0.6:
            key = rv.gen_key_text(rng)
        else:
            key = gen_value(rng, min(sub, 1), jsonlike)
        pairs.append((key, gen_value(rng, sub, jsonlike)))
    return ("map", pairs)
