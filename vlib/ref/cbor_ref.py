"""Reference CBOR codec (RFC 8949), written from the specification only.

decode(data, max_depth=1024) -> rv.Result
encode(value, rng=None, variety=0.0) -> bytes
gen_value(rng, depth=3, jsonlike=True) -> RV
diag(value) -> str   (RFC 8949 section 8 diagnostic notation, floats printed with repr())

illformed reasons: truncated, reserved-ai, indef-major, bad-break, indef-chunk-type,
  invalid-utf8, simple-2byte-lt32, map-odd, nesting
encoding features : indefinite, nonminimal (plus the value features of rv.classify)

Nesting depth counts arrays and maps only (tags are decoded iteratively and are free);
a top-level array is at depth 1; "nesting" is reported when depth > max_depth.
"""
try:
    from . import rv
except ImportError:                       # imported as a top-level module
    import rv

Illformed = rv.Illformed

# smallest argument value that legitimately needs additional-info 24,25,26,27
_MIN_FOR_AI = {24: 24, 25: 1 << 8, 26: 1 << 16, 27: 1 << 32}


# =========================================================================== decoder

class _Dec:
    def __init__(self, data, max_depth):
        self.r = rv.Reader(data)
        self.max_depth = max_depth
        self.feats = set()

    def pos(self):
        return self.r.p

    def arg(self, ai):
        """Argument of a head whose additional information is 0..27."""
        if ai < 24:
            return ai
        n = self.r.uint(1 << (ai - 24))
        if n < _MIN_FOR_AI[ai]:
            self.feats.add("nonminimal")      # well-formed, just not preferred (section 4.1)
        return n

    def text(self, b):
        if not rv.utf8_valid(b):
            raise Illformed("invalid-utf8")
        return b

    def item(self, depth):
        r = self.r
        tags = []                             # tags in front of the item, outermost first
        while True:
            ib = r.u8()
            mt, ai = ib >> 5, ib & 31
            if mt == 7:
                v = self.major7(ai)
                break
            if 28 <= ai <= 30:
                raise Illformed("reserved-ai")
            if ai == 31:
                if mt in (0, 1, 6):
                    raise Illformed("indef-major")
                self.feats.add("indefinite")
                v = self.indef_string(mt) if mt in (2, 3) else self.container(mt, None, depth + 1)
                break
            n = self.arg(ai)
            if mt == 6:
                tags.append(n)
                continue
            if mt == 0:
                v = ("int", n)
            elif mt == 1:
                v = ("int", -1 - n)
            elif mt == 2:
                v = ("bytes", r.take(n))
            elif mt == 3:
                v = ("text", self.text(r.take(n)))
            else:
                v = self.container(mt, n, depth + 1)
            break
        for t in reversed(tags):
            v = ("tag", t, v)
        return v

    def major7(self, ai):
        r = self.r
        if ai < 20:
            return ("simple", ai)
        if ai == 20:
            return ("bool", False)
        if ai == 21:
            return ("bool", True)
        if ai == 22:
            return ("null",)
        if ai == 23:
            return ("undefined",)
        if ai == 24:
            n = r.u8()
            if n < 32:                        # section 3.3: 0xf8 00..1f is not well-formed
                raise Illformed("simple-2byte-lt32")
            return ("simple", n)
        if ai == 25:
            return ("float", r.uint(2), 16)
        if ai == 26:
            return ("float", r.uint(4), 32)
        if ai == 27:
            return ("float", r.uint(8), 64)
        if ai < 31:
            raise Illformed("reserved-ai")
        raise Illformed("bad-break")          # 0xff where a data item is required

    def indef_string(self, mt):
        """Chunks up to the break.  Every chunk must be a DEFINITE string of the same major
        type (section 3.2.3); each text chunk must be valid UTF-8 by itself."""
        r = self.r
        chunks = []
        while True:
            ib = r.u8()
            if ib == 0xFF:
                break
            ai = ib & 31
            if ib >> 5 != mt or ai == 31:
                raise Illformed("indef-chunk-type")
            if ai > 27:
                raise Illformed("reserved-ai")
            b = r.take(self.arg(ai))
            chunks.append(self.text(b) if mt == 3 else b)
        return ("bytes" if mt == 2 else "text", b"".join(chunks))

    def container(self, mt, n, depth):
        """Array (mt 4) or map (mt 5); n is None for indefinite length."""
        if depth > self.max_depth:
            raise Illformed("nesting")
        r, item = self.r, self.item
        out = []
        if mt == 4:
            if n is None:
                while r.peek() != 0xFF:
                    out.append(item(depth))
                r.p += 1
            else:
                for _ in range(n):            # a huge n simply ends in "truncated"
                    out.append(item(depth))
            return ("array", out)
        if n is None:
            while r.peek() != 0xFF:
                k = item(depth)
                if r.peek() == 0xFF:          # break where the value should be
                    raise Illformed("map-odd")
                out.append((k, item(depth)))
            r.p += 1
        else:
            for _ in range(n):
                k = item(depth)
                out.append((k, item(depth)))
        return ("map", out)


def decode(data, max_depth=1024):
    d = _Dec(data, max_depth)
    return rv.run(d, lambda: d.item(0))


# =========================================================================== encoder

class _Enc:
    def __init__(self, rng, variety):
        self.rng = rng
        self.variety = variety if rng is not None else 0.0

    def flip(self):
        return self.variety > 0 and self.rng.random() < self.variety

    def head(self, mt, n):
        if n < 0 or n >= 1 << 64:
            raise ValueError("CBOR argument out of range: %d" % n)
        idx = 0 if n < 24 else 1 if n < 1 << 8 else 2 if n < 1 << 16 else 3 if n < 1 << 32 else 4
        if self.flip():
            idx = self.rng.randint(idx, 4)    # any wider argument is still well-formed
        if idx == 0:
            return bytes([mt << 5 | n])
        return bytes([mt << 5 | (23 + idx)]) + n.to_bytes(1 << (idx - 1), "big")

    def string(self, mt, b, out):
        if not self.flip():
            out += self.head(mt, len(b))
            out += b
            return
        rng = self.rng
        out.append(mt << 5 | 31)
        if b or rng.random() < 0.5:           # an empty string may also have zero chunks
            cuts = rv.utf8_boundaries(b) if mt == 3 else range(len(b) + 1)
            pts = sorted(rng.choice(cuts) for _ in range(rng.choice((0, 1, 1, 2, 3, 5))))
            prev = 0
            for p in pts + [len(b)]:          # repeated / extreme cut points give empty chunks
                out += self.head(mt, p - prev)
                out += b[prev:p]
                prev = p
        out.append(0xFF)

    def enc(self, v, out):
        k = v[0]
        if k == "int":
            n = v[1]
            out += self.head(0, n) if n >= 0 else self.head(1, -1 - n)
        elif k == "text":
            if not rv.utf8_valid(v[1]):
                raise ValueError("text is not valid UTF-8")
            self.string(3, v[1], out)
        elif k == "bytes":
            self.string(2, v[1], out)
        elif k == "array":
            items = v[1]
            indef = self.flip()
            out += b"\x9f" if indef else self.head(4, len(items))
            for x in items:
                self.enc(x, out)
            if indef:
                out.append(0xFF)
        elif k == "map":
            pairs = v[1]
            indef = self.flip()
            out += b"\xbf" if indef else self.head(5, len(pairs))
            for kk, vv in pairs:
                self.enc(kk, out)
                self.enc(vv, out)
            if indef:
                out.append(0xFF)
        elif k == "tag":
            out += self.head(6, v[1])
            self.enc(v[2], out)
        elif k == "float":
            bits, w = v[1], v[2]
            if w not in (16, 32, 64) or not 0 <= bits < 1 << w:
                raise ValueError("bad float %r" % (v,))
            out.append({16: 0xF9, 32: 0xFA, 64: 0xFB}[w])
            out += bits.to_bytes(w // 8, "big")
        elif k == "bool":
            out.append(0xF5 if v[1] else 0xF4)
        elif k == "null":
            out.append(0xF6)
        elif k == "undefined":
            out.append(0xF7)
        elif k == "simple":
            n = v[1]
            if 0 <= n < 20:
                out.append(0xE0 | n)
            elif 32 <= n <= 255:
                out += bytes([0xF8, n])
            else:                             # 20..23 have their own RV kinds, 24..31 are reserved
                raise ValueError("simple(%d) is not an unassigned, encodable simple value" % n)
        else:
            raise ValueError("CBOR cannot express %r" % (k,))


def encode(value, rng=None, variety=0.0):
    out = bytearray()
    _Enc(rng, variety).enc(value, out)
    return bytes(out)


# =========================================================================== generator

_TAGS = [0, 1, 2, 3, 4, 5, 21, 22, 23, 32, 33, 34]
_ODD_TAGS = [6, 20, 24, 25, 35, 36, 100, 255, 256, 1000, 55799, 65535, 65536,
             (1 << 32) - 1, 1 << 32, (1 << 64) - 1]
_DATES = [b"2013-03-21T20:04:00Z", b"1970-01-01T00:00:00Z", b"2013-03-21T20:04:00.5+01:00", b"", b"not a date"]


def _gen_tag(rng, depth, jsonlike):
    t = rng.choice(_TAGS) if rng.random() < 0.8 else rng.choice(_ODD_TAGS)
    if t == 0:
        inner = ("text", rng.choice(_DATES))
    elif t in (32, 33, 34):
        inner = ("text", rng.choice((b"http://www.example.com", b"aGVsbG8", b"aGVsbG8=", rv.gen_text_bytes(rng))))
    elif t == 1:
        inner = ("int", rv.gen_int(rng, -(1 << 64), (1 << 64) - 1)) if rng.random() < 0.5 else rv.gen_float(rng)
    elif t in (2, 3):
        inner = ("bytes", rng.choice((b"", b"\x00", b"\x01\x00\x00\x00\x00\x00\x00\x00\x00", rv.gen_bytes(rng))))
    elif t in (4, 5):
        if rng.random() < 0.7:
            mant = ("int", rv.gen_int(rng, -(1 << 64), (1 << 64) - 1))
        else:
            mant = ("tag", rng.choice((2, 3)), ("bytes", rv.gen_bytes(rng, rng.choice((0, 1, 8, 9, 12)))))
        inner = ("array", [("int", rv.gen_int(rng, -(1 << 64), (1 << 64) - 1)), mant])
    elif t in (21, 22, 23) and rng.random() < 0.6:
        inner = ("bytes", rv.gen_bytes(rng))
    else:
        inner = gen_value(rng, depth - 1, jsonlike)
    return ("tag", t, inner)


def _gen_scalar(rng, depth, jsonlike):
    r = rng.random()
    if r < 0.30:
        return ("int", rv.gen_int(rng, -(1 << 64), (1 << 64) - 1))
    if r < 0.45:
        return rv.gen_float(rng)
    if r < 0.60:
        return ("text", rv.gen_text_bytes(rng))
    if r < 0.70:
        return ("bytes", rv.gen_bytes(rng))
    if r < 0.80:
        return rng.choice((("null",), ("bool", True), ("bool", False)))
    if not jsonlike and r < 0.88:
        if rng.random() < 0.4:
            return ("undefined",)
        return ("simple", rng.choice((0, 1, 16, 19, 32, 33, 100, 255)))
    if depth >= 0:
        return _gen_tag(rng, depth, jsonlike)
    return ("int", rv.gen_int(rng, -30, 30))


def gen_value(rng, depth=3, jsonlike=True):
    if depth <= 0 or rng.random() >= 0.35:
        return _gen_scalar(rng, depth, jsonlike)
    n, big = rv.gen_size(rng)
    sub = 0 if big else depth - 1
    if rng.random() < 0.5:
        return ("array", [gen_value(rng, sub, jsonlike) for _ in range(n)])
    pairs = []
    for _ in range(n):
        if jsonlike or rng.random() < 0.6:
            key = rv.gen_key_text(rng)
        else:
            key = gen_value(rng, min(sub, 1), jsonlike)
        pairs.append((key, gen_value(rng, sub, jsonlike)))
    return ("map", pairs)


# =========================================================================== diagnostic notation

def _diag_text(b):
    s = b.decode("utf-8")
    out = []
    for ch in s:
        o = ord(ch)
        if ch in '"\\':
            out.append("\\" + ch)
        elif o < 0x20 or o == 0x7F:
            out.append("\\u%04x" % o)
        else:
            out.append(ch)
    return '"' + "".join(out) + '"'


def diag(v):
    """RFC 8949 diagnostic notation of an RV (definite-length spelling; floats via repr())."""
    k = v[0]
    if k == "int":
        return str(v[1])
    if k == "float":
        x = rv.float_value(v[1], v[2])
        if x != x:
            return "NaN"
        if x in (float("inf"), float("-inf")):
            return "Infinity" if x > 0 else "-Infinity"
        return repr(x)
    if k == "text":
        return _diag_text(v[1])
    if k == "bytes":
        return "h'" + v[1].hex() + "'"
    if k == "array":
        return "[" + ", ".join(diag(x) for x in v[1]) + "]"
    if k == "map":
        return "{" + ", ".join(diag(a) + ": " + diag(b) for a, b in v[1]) + "}"
    if k == "tag":
        return "%d(%s)" % (v[1], diag(v[2]))
    if k == "bool":
        return "true" if v[1] else "false"
    if k in ("null", "undefined"):
        return k
    if k == "simple":
        return "simple(%d)" % v[1]
    raise ValueError("not a CBOR RV: %r" % (v,))
