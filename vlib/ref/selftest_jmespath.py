#!/usr/bin/env python3
"""Self-test of the JMESPath reference interpreter (jmespath_ref.py).

    python3 /verif/vlib/ref/selftest_jmespath.py        -> summary, exit 0 if all OK

 1. every case of every file of /repo/test/jmespath/input/compliance/*.json
 2. hand written extra cases for subtle semantics
 3. slice semantics, exhaustively against Python's own slicing
 4. 20 000 generated (document, expression) pairs: compile() accepts each one,
    search() returns a JSON value or raises a non-syntax JMESPathError, the
    document is not mutated, generation is deterministic.
"""
import copy
import glob
import json
import math
import os
import random
import sys
import time

sys.path.insert(0, os.path.dirname(os.path.abspath(__file__)))
import jmespath_ref as J  # noqa: E402
from jmespath_ref import JMESPathError, compile as jcompile, search  # noqa: E402

COMPLIANCE_DIR = "/repo/test/jmespath/input/compliance"

# Cases of the repository's compliance files that do NOT reflect the classic
# specification.  key: (file, expression) -> (what the reference does, why)
KNOWN_NONSPEC = {
    ("functions.json", "not_null()"): (
        ("error", "invalid-arity"),
        "Spec signature is not_null(any $argument [, any $...]): at least one "
        "argument is required; the upstream jmespath.test suite has "
        '{"expression": "not_null()", "error": "invalid-arity"}.  The repository '
        "file was changed to expect result null."),
}

# error names used by the compliance files -> JMESPathError.kind
ERROR_MAP = {
    "syntax": "syntax",
    "invalid-type": "invalid-type",
    "invalid-arity": "invalid-arity",
    "unknown-function": "unknown-function",
    "invalid-value": "invalid-value",
}


def strict_equal(a, b):
    """Deep equality for test comparison: bool is not a number, int and float
    compare by value (with a 1e-12 relative tolerance for non-integral floats,
    needed only for sum([1.01, 1.2, -1.5]) == 0.71)."""
    if isinstance(a, bool) or isinstance(b, bool):
        return isinstance(a, bool) and isinstance(b, bool) and a == b
    if a is None or b is None:
        return a is None and b is None
    if isinstance(a, (int, float)):
        if not isinstance(b, (int, float)):
            return False
        if a == b:
            return True
        if isinstance(a, float) or isinstance(b, float):
            return math.isclose(a, b, rel_tol=1e-12, abs_tol=0.0)
        return False
    if isinstance(a, str):
        return isinstance(b, str) and a == b
    if isinstance(a, list):
        return (isinstance(b, list) and len(a) == len(b)
                and all(strict_equal(x, y) for x, y in zip(a, b)))
    if isinstance(a, dict):
        return (isinstance(b, dict) and a.keys() == b.keys()
                and all(strict_equal(v, b[k]) for k, v in a.items()))
    return False


def run_one(expr, given):
    """-> ("result", value) | ("error", kind)"""
    try:
        return ("result", search(expr, given))
    except JMESPathError as e:
        return ("error", e.kind)


def is_json_value(v):
    if v is None or isinstance(v, (bool, int, str)):
        return True
    if isinstance(v, float):
        return math.isfinite(v)
    if isinstance(v, list):
        return all(is_json_value(x) for x in v)
    if isinstance(v, dict):
        return all(isinstance(k, str) and is_json_value(x) for k, x in v.items())
    return False


# ---------------------------------------------------------------------------
def run_compliance():
    failures = []
    nonspec_seen = set()
    print("== compliance suite (%s)" % COMPLIANCE_DIR)
    files = sorted(glob.glob(os.path.join(COMPLIANCE_DIR, "*.json")))
    if not files:
        failures.append(("<none>", "", "compliance files", "not found"))
    tot_pass = tot_fail = tot_skip = tot_nonspec = 0
    for path in files:
        fname = os.path.basename(path)
        with open(path, encoding="utf-8") as f:
            groups = json.load(f)
        npass = nfail = nskip = nnonspec = 0
        for group in groups:
            given = group["given"]
            snapshot = copy.deepcopy(given)
            for case in group["cases"]:
                expr = case["expression"]
                if "result" in case:
                    expected = ("result", case["result"])
                elif "error" in case:
                    expected = ("error", ERROR_MAP.get(case["error"], case["error"]))
                else:
                    # "bench" only entries: must at least compile & run
                    try:
                        search(expr, given)
                    except JMESPathError as e:
                        if e.kind == "syntax":
                            nfail += 1
                            failures.append((fname, expr, "bench: compiles", repr(e)))
                            continue
                    nskip += 1
                    continue
                got = run_one(expr, given)
                if expected[0] == "result":
                    ok = got[0] == "result" and strict_equal(got[1], expected[1])
                else:
                    ok = got == expected
                key = (fname, expr)
                if key in KNOWN_NONSPEC:
                    nonspec_seen.add(key)
                    want = KNOWN_NONSPEC[key][0]
                    if ok:
                        nfail += 1
                        failures.append((fname, expr, "KNOWN_NONSPEC entry is stale",
                                         "case passes"))
                    elif got != want:
                        nfail += 1
                        failures.append((fname, expr, "KNOWN_NONSPEC says %r" % (want,),
                                         repr(got)))
                    else:
                        nnonspec += 1
                    continue
                if ok:
                    npass += 1
                else:
                    nfail += 1
                    failures.append((fname, expr, repr(expected), repr(got)))
            if not strict_equal(given, snapshot):
                nfail += 1
                failures.append((fname, "<given>", "document unchanged", "MUTATED"))
        print("  %-18s pass %3d  fail %3d  known-nonspec %d  skipped(bench) %d"
              % (fname, npass, nfail, nnonspec, nskip))
        tot_pass += npass
        tot_fail += nfail
        tot_skip += nskip
        tot_nonspec += nnonspec
    for key in KNOWN_NONSPEC:
        if key not in nonspec_seen:
            failures.append((key[0], key[1], "KNOWN_NONSPEC entry matches a case",
                             "no such case"))
            tot_fail += 1
    print("  %-18s pass %3d  fail %3d  known-nonspec %d  skipped(bench) %d"
          % ("TOTAL", tot_pass, tot_fail, tot_nonspec, tot_skip))
    for key, (got, why) in KNOWN_NONSPEC.items():
        print("  KNOWN_NONSPEC %s %r: reference gives %r -- %s" % (key[0], key[1], got, why))
    return failures


# ---------------------------------------------------------------------------
R = "result"
E = "error"

DOC = {
    "a": {"b": {"c": [0, 1, 2, 3, 4]}, "n": None, "s": "str", "e": "", "el": [],
          "eo": {}, "f": False, "t": True, "z": 0},
    "people": [
        {"name": "bob", "age": 30, "tags": ["x", "y"]},
        {"name": "al", "age": 25, "tags": []},
        {"name": "cy", "age": 30, "tags": ["z"]},
        {"name": "di", "age": 25.0},
        {"age": None, "name": None},
    ],
    "nested": [[1, 2], [3, [4, 5]], 6, [], None, [[7]]],
    "nums": [3, 1, 2],
    "floats": [1.5, 0.25, 2.0],
    "strs": ["b", "a", "é", "B"],
    "mixed": [1, "a", True, None, {}, []],
    "obj": {"z": 1, "y": None, "x": [1, 2], "w": {"k": "v"}},
    "k 1": 11, "é": 12, "": 13,
    "one": 1, "onef": 1.0, "T": True,
}

EXTRA = [
    # --- truthiness / boolean operators return operand values
    ("a.e || 'dflt'", R, "dflt"),
    ("a.el || a.eo || a.f || a.n || a.z", R, 0),
    ("a.z && a.s", R, "str"),
    ("a.el && a.s", R, []),
    ("a.eo && a.s", R, {}),
    ("a.n && a.s", R, None),
    ("a.f || a.n", R, None),
    ("a.n || a.f", R, False),
    ("!a.z", R, None),                 # reference precedence: (!a).z -> false.z -> null
    ("!(a.z)", R, False),
    ("!a.el[0]", R, None),             # (!a).el[0] -> null
    ("!nums[0]", R, False),            # !(nums[0])
    ("!a", R, False),
    ("!missing", R, True),
    ("!!a.missing", R, None),          # (!!a).missing -> true.missing -> null
    ("!!(a.missing)", R, False),
    ("a.z == `0` && !(a.f)", R, True),
    ("a.z == `0` && !a.f", R, None),      # ... && (!a).f
    ("a.s || unknown_fn(@)", R, "str"),          # right side never evaluated
    ("a.n && abs('x')", R, None),
    # --- projections drop nulls, pipes stop projections
    ("people[*].tags", R, [["x", "y"], [], ["z"]]),
    ("people[*].tags[0]", R, ["x", "z"]),
    ("people[*].tags | [0]", R, ["x", "y"]),
    ("(people[*].tags)[0]", R, ["x", "y"]),
    ("people[*].name", R, ["bob", "al", "cy", "di"]),
    ("people[].tags[]", R, ["x", "y", "z"]),
    ("people[*].missing", R, []),
    ("a[*]", R, None),
    ("a.s[*]", R, None),
    ("nums.*", R, None),
    ("a.s[]", R, None),
    ("a[?b]", R, None),
    ("a.s[0:1]", R, None),             # no string slicing in the classic spec
    ("obj.*", R, [1, [1, 2], {"k": "v"}]),
    ("obj.*.k", R, ["v"]),
    ("a.*.c", R, [[0, 1, 2, 3, 4]]),
    ("a.*.c[1]", R, [1]),
    ("a.*.c.d", R, []),
    ("{p: a}.*.b.c[0]", R, [0]),        # a.*.b.c projects "b.c"
    ("nested[]", R, [1, 2, 3, [4, 5], 6, [7]]),          # null dropped by projection
    ("nested[][]", R, [1, 2, 3, 4, 5, 6, 7]),
    ("nested[*]", R, [[1, 2], [3, [4, 5]], 6, [], [[7]]]),
    ("nested[:]", R, [[1, 2], [3, [4, 5]], 6, [], [[7]]]),
    ("nested | [4]", R, None),
    ("`{\"a\": null, \"b\": 1}`.*", R, [1]),
    ("nested[*][0]", R, [1, 3, [7]]),
    ("nested[*][] ", R, [1, 2, 3, [4, 5], 6, [7]]),      # flatten stops the projection
    ("nested[*].[@[]]", R, [[[1, 2]], [[3, 4, 5]], [None], [[]], [[7]]]),
    ("nested[?@]", R, [[1, 2], [3, [4, 5]], 6, [[7]]]),
    ("nested[?type(@) == 'array'][0]", R, [1, 3, [7]]),
    ("people[?age > `25`].name", R, ["bob", "cy"]),
    ("people[?age >= `25`].name", R, ["bob", "al", "cy", "di"]),
    ("people[?age == `25`].name", R, ["al", "di"]),
    ("people[?name].age", R, [30, 25, 30, 25.0]),
    ("people[?!name]", R, [{"age": None, "name": None}]),
    ("people[?tags[0] == 'z'].name | [0]", R, "cy"),
    ("people[?name == 'bob' || name == 'cy'].age", R, [30, 30]),
    ("people[1:3].name", R, ["al", "cy"]),
    ("people[::-2].name", R, ["cy", "bob"]),
    ("people[:2][0]", R, []),           # [0] applied to each (object) element
    ("people[:2] | [0].name", R, "bob"),
    # --- indices
    ("nums[-1]", R, 2), ("nums[-3]", R, 3), ("nums[-4]", R, None), ("nums[3]", R, None),
    ("a[0]", R, None), ("a.s[0]", R, None), ("[0]", R, None), ("nums[0][0]", R, None),
    ("nums[::0]", E, "invalid-value"),
    ("a[::0]", R, None),               # slice of non-array: null, no error
    ("a.b.c[1:4:2]", R, [1, 3]),
    ("a.b.c[-2:]", R, [3, 4]),
    ("a.b.c[:-3:-1]", R, [4, 3]),
    ("a.b.c[10:0:-2]", R, [4, 2]),
    # --- sub-expression / multi-select on null
    ("a.n.x", R, None), ("missing.x.y", R, None),
    ("a.n.[x, y]", R, None), ("a.n.{x: x}", R, None),
    ("a.n.*", R, None),
    ("a.f.[@]", R, [False]), ("a.z.{v: @}", R, {"v": 0}),
    ("a.{x: missing, y: s}", R, {"x": None, "y": "str"}),
    ("a.{x: z, y: s, x: s}", R, {"x": "str", "y": "str"}),
    ("a.[missing, z]", R, [None, 0]),
    ("missing.to_string(@)", R, "null"),
    ("missing.length(@)", E, "invalid-type"),
    # --- comparators
    ("one == onef", R, True), ("`1` == `1.0`", R, True), ("`[1, 2]` == `[1.0, 2]`", R, True),
    ("T == one", R, False), ("`true` == `1`", R, False), ("`false` == `0`", R, False),
    ("`null` == missing", R, True), ("`null` != `false`", R, True),
    ("`{\"a\": 1, \"b\": [2]}` == `{\"b\": [2], \"a\": 1}`", R, True),
    ("`{\"a\": 1}` == `{\"a\": 1, \"b\": null}`", R, False),
    ("'a' < 'b'", R, None), ("'a' == 'a'", R, True), ("`1` < 'b'", R, None),
    ("`true` < `2`", R, None), ("`null` <= `null`", R, None),
    ("`1` < `1.5`", R, True), ("`2` >= `2.0`", R, True),
    ("one < `2` == `true`", R, True),  # left associative
    ("a.s == 'str' && a.z < `1`", R, True),
    # --- literals, raw strings, identifiers
    ("`\"a\\`b\"`", R, "a`b"), ("'a\\'b'", R, "a'b"), ("'a\\\\b'", R, "a\\\\b"),
    ("'a\\nb'", R, "a\\nb"), ("`\"a\\nb\"`", R, "a\nb"), ("''", R, ""),
    ("` [1,\n2] `", R, [1, 2]), ("`1e2`", R, 100.0), ("`-0.5`", R, -0.5),
    ("`foo`", E, "syntax"), ("`01`", E, "syntax"), ("`NaN`", E, "syntax"),
    ("`[1,]`", E, "syntax"), ("``", E, "syntax"), ("`'a'`", E, "syntax"),
    ("\"k 1\"", R, 11), ("\"\\u00e9\"", R, 12), ("\"é\"", R, 12), ("\"\"", R, 13),
    ("é", E, "syntax"), ("k 1", E, "syntax"), ("\"a\\qb\"", E, "syntax"),
    ("a .b. c [0]", R, 0),
    # --- syntax errors
    ("", E, "syntax"), (" ", E, "syntax"), ("a.", E, "syntax"), ("a..b", E, "syntax"),
    ("a[", E, "syntax"), ("a[1", E, "syntax"), ("a[ ]", E, "syntax"),
    ("a = b", E, "syntax"), ("a & b", E, "syntax"), ("&a", E, "syntax"), ("[&a]", E, "syntax"),
    ("a ! b", E, "syntax"), ("a.1", E, "syntax"), ("a.'b'", E, "syntax"),
    ("abs(`1`,)", E, "syntax"), ("abs(,)", E, "syntax"), ("abs(`1` `2`)", E, "syntax"),
    ("{a}", E, "syntax"), ("{a: b,}", E, "syntax"), ("{`1`: b}", E, "syntax"),
    ("[a, ]", E, "syntax"), ("a b", E, "syntax"), ("(a", E, "syntax"), ("a)", E, "syntax"),
    ("a[1.5]", E, "syntax"), ("a[-]", E, "syntax"), ("a[1:2:3:4]", E, "syntax"),
    ("a | | b", E, "syntax"), ("a |", E, "syntax"), ("'abc", E, "syntax"), ("`1", E, "syntax"),
    ("a.b(c)(d)", E, "syntax"), ("(abs)(`1`)", E, "syntax"),
    # --- functions: typing, arity
    ("abs(`-1.5`)", R, 1.5), ("abs(one)", R, 1), ("abs(T)", E, "invalid-type"),
    ("abs(missing)", E, "invalid-type"), ("abs(&one)", E, "invalid-type"),
    ("avg(nums)", R, 2.0), ("avg(`[]`)", R, None), ("avg(mixed)", E, "invalid-type"),
    ("avg(`[true]`)", E, "invalid-type"),
    ("ceil(`1.5`)", R, 2), ("ceil(`-1.5`)", R, -1), ("floor(`-1.5`)", R, -2),
    ("ceil(`3`)", R, 3), ("floor(`2.0`)", R, 2),
    ("contains(nums, `1.0`)", R, True), ("contains(mixed, `1`)", R, True),
    ("contains(`[true]`, `1`)", R, False), ("contains(mixed, `{}`)", R, True),
    ("contains('abc', 'bc')", R, True), ("contains('abc', '')", R, True),
    ("contains('abc', `1`)", R, False), ("contains(`1`, `1`)", E, "invalid-type"),
    ("contains(obj, 'z')", E, "invalid-type"),
    ("ends_with('abc', '')", R, True), ("starts_with('é', 'é')", R, True),
    ("starts_with(nums, 'a')", E, "invalid-type"),
    ("join('', strs)", R, "baéB"), ("join(', ', `[]`)", R, ""),
    ("join(', ', nums)", E, "invalid-type"), ("join(strs, ', ')", E, "invalid-type"),
    ("keys(obj)", R, ["z", "y", "x", "w"]), ("values(obj)", R, [1, None, [1, 2], {"k": "v"}]),
    ("keys(@)[-3:]", R, ["one", "onef", "T"]),
    ("keys(nums)", E, "invalid-type"), ("values(`null`)", E, "invalid-type"),
    ("length('é日本')", R, 3), ("length('\U0001d11e')", R, 1), ("length(obj)", R, 4),
    ("length(`[]`)", R, 0), ("length(`1`)", E, "invalid-type"), ("length(`null`)", E, "invalid-type"),
    ("length(T)", E, "invalid-type"),
    ("map(&age, people)", R, [30, 25, 30, 25.0, None]),
    ("map(&[0], nested)", R, [1, 3, None, None, None, [7]]),
    ("map(&@, `[]`)", R, []), ("map(age, people)", E, "invalid-type"),
    ("map(&age, obj)", E, "invalid-type"), ("map(&age)", E, "invalid-arity"),
    ("max(nums)", R, 3), ("min(floats)", R, 0.25), ("max(strs)", R, "é"), ("min(strs)", R, "B"),
    ("max(`[]`)", R, None), ("min(`[]`)", R, None), ("max(mixed)", E, "invalid-type"),
    ("max(`[1, \"a\"]`)", E, "invalid-type"), ("max(`[true, false]`)", E, "invalid-type"),
    ("max(`[1, 2.5]`)", R, 2.5), ("max('abc')", E, "invalid-type"),
    ("max_by(people[:4], &age).name", R, "bob"), ("min_by(people[:4], &age).name", R, "al"),
    ("max_by(people[:4], &name).name", R, "di"),
    ("max_by(people, &age)", E, "invalid-type"),     # one key is null
    ("max_by(`[]`, &age)", R, None), ("min_by(`[]`, &age)", R, None),
    ("max_by(people[:2], &tags)", E, "invalid-type"),
    ("max_by(`[{\"a\": 1}, {\"a\": \"x\"}]`, &a)", E, "invalid-type"),
    ("max_by(people, age)", E, "invalid-type"), ("max_by(obj, &age)", E, "invalid-type"),
    ("merge(obj, `{\"z\": 2, \"q\": 0}`)", R, {"z": 2, "y": None, "x": [1, 2], "w": {"k": "v"}, "q": 0}),
    ("keys(merge(obj, `{\"z\": 2, \"q\": 0}`))", R, ["z", "y", "x", "w", "q"]),
    ("merge(obj, nums)", E, "invalid-type"), ("merge()", E, "invalid-arity"),
    ("not_null(missing, a.n, a.f, a.s)", R, False), ("not_null(a.n)", R, None),
    ("not_null(a.el, a.s)", R, []),
    ("reverse(nums)", R, [2, 1, 3]), ("reverse('aé')", R, "éa"), ("reverse(obj)", E, "invalid-type"),
    ("reverse(`1`)", E, "invalid-type"),
    ("sort(nums)", R, [1, 2, 3]), ("sort(strs)", R, ["B", "a", "b", "é"]),
    ("sort(floats)", R, [0.25, 1.5, 2.0]), ("sort(`[2, 1.5]`)", R, [1.5, 2]),
    ("sort(mixed)", E, "invalid-type"), ("sort(`[true]`)", E, "invalid-type"),
    ("sort(`[[1]]`)", E, "invalid-type"),
    ("sort_by(people[:4], &age)[*].name", R, ["al", "di", "bob", "cy"]),   # stable
    ("sort_by(people[:4], &name)[*].name", R, ["al", "bob", "cy", "di"]),
    ("sort_by(people[:4], &to_string(age))[*].name", R, ["al", "di", "bob", "cy"]),
    ("sort_by(people, &age)", E, "invalid-type"),
    ("sort_by(people[:4], &tags)", E, "invalid-type"),
    ("sort_by(people[:4], &missing)", E, "invalid-type"),
    ("sort_by(nums, &@)", R, [1, 2, 3]), ("sort_by(`[]`, &x)", R, []),
    ("sort_by(people)", E, "invalid-arity"), ("sort_by(people, &age, &name)", E, "invalid-arity"),
    ("sum(nums)", R, 6), ("sum(floats)", R, 3.75), ("sum(`[]`)", R, 0),
    ("sum(strs)", E, "invalid-type"), ("sum(`1`)", E, "invalid-type"),
    ("to_array(nums)", R, [3, 1, 2]), ("to_array(`null`)", R, [None]), ("to_array(obj.w)", R, [{"k": "v"}]),
    ("to_string(`null`)", R, "null"), ("to_string(T)", R, "true"), ("to_string('x')", R, "x"),
    ("to_string(obj)", R, '{"z":1,"y":null,"x":[1,2],"w":{"k":"v"}}'),
    ("to_string(`1.5`)", R, "1.5"), ("to_string(`[\"é\", \"q\\\"\"]`)", R, '["é","q\\""]'),
    ("to_string(&a)", E, "invalid-type"),
    ("to_number('12')", R, 12), ("to_number('-1.5')", R, -1.5), ("to_number('1e2')", R, 100.0),
    ("to_number(' 1')", R, None), ("to_number('0x10')", R, None), ("to_number('')", R, None),
    ("to_number('1.')", R, None), ("to_number('+1')", R, None), ("to_number('01')", R, None),
    ("to_number('nan')", R, None), ("to_number('Infinity')", R, None), ("to_number('1_0')", R, None),
    ("to_number(T)", R, None), ("to_number(`1.5`)", R, 1.5), ("to_number(nums)", R, None),
    ("type(one)", R, "number"), ("type(onef)", R, "number"), ("type(T)", R, "boolean"),
    ("type(missing)", R, "null"), ("type(a)", R, "object"), ("type(nums)", R, "array"),
    ("type('')", R, "string"), ("type()", E, "invalid-arity"), ("type(a, a)", E, "invalid-arity"),
    ("nosuch(a)", E, "unknown-function"), ("nosuch()", E, "unknown-function"),
    ("nosuch(abs('x'))", E, "unknown-function"),   # checked before evaluating arguments
    ("abs(abs('x'), `1`)", E, "invalid-arity"),     # arity checked before arguments
    ("abs(nosuch(@))", E, "unknown-function"),
    ("people[*].nosuch(@)", E, "unknown-function"),
    ("a.el[*].nosuch(@)", R, []),                    # never evaluated
    ("length(people[*].to_string(age))", R, 5),
    ("people[].tags[] | sort(@) | join('', @)", R, "xyz"),
    ("nums | sort(@)[0]", R, 1),
    ("@ | a | b | c | [0]", R, 0),
    ("[one, onef, T] | [?@ == `1`]", R, [1, 1.0]),
]


def run_extra():
    failures = []
    snapshot = copy.deepcopy(DOC)
    for expr, kind, want in EXTRA:
        got = run_one(expr, DOC)
        ok = (got[0] == kind and
              (strict_equal(got[1], want) if kind == R else got[1] == want))
        if ok and kind == R:
            # also check exact int/float typing and key order of the result
            if json.dumps(got[1]) != json.dumps(want):
                ok = False
        if not ok:
            failures.append(("<extra>", expr, repr((kind, want)), repr(got)))
    if not strict_equal(DOC, snapshot) or json.dumps(DOC) != json.dumps(snapshot):
        failures.append(("<extra>", "<DOC>", "unchanged", "MUTATED"))
    # compile() returns a reusable AST
    ast = jcompile("people[?age > `26`].name")
    for _ in range(2):
        if search(ast, DOC) != ["bob", "cy"]:
            failures.append(("<extra>", "reuse of compiled AST", "['bob','cy']", "different"))
    if not J.contains_zero_step_slice(jcompile("a[*].b[1:2:0]")) or \
            J.contains_zero_step_slice(jcompile("a[*].b[1:2:1]")):
        failures.append(("<extra>", "contains_zero_step_slice", "", "wrong"))
    sfe = J.static_function_errors(jcompile("a.el[*].nosuch(@) || abs(`1`, `2`) || not_null() || abs(b)"))
    if sfe != [("unknown-function", "nosuch"), ("invalid-arity", "abs"), ("invalid-arity", "not_null")]:
        failures.append(("<extra>", "static_function_errors", "", repr(sfe)))
    ps = J.precedence_sensitive
    for ex, want in [("!a.b", {"not"}), ("!a == b", {"not"}), ("!a[0]", set()), ("!(a.b)", set()),
                     ("!a && b", set()), ("!a || b", set()), ("!a | b", set()), ("!a[]", {"not"}),
                     ("a.*.b.c", {"dot-star"}), ("a.*.b", set()), ("a.*.b[0]", set()),
                     ("a.*.b[?c]", {"dot-star"}), ("*.b.c", set()), ("a.*.*.c", set()),
                     ("a[*].b.c", set()), ("!a.*.b.c", {"not", "dot-star"})]:
        if ps(ex) != want:
            failures.append(("<extra>", "precedence_sensitive(%r)" % ex, repr(want), repr(ps(ex))))
    if J.function_names(jcompile("a.sort(@)[?abs(@) > `1`] | map(&x, @)")) != {"sort", "abs", "map"}:
        failures.append(("<extra>", "function_names", "", "wrong"))
    # error object
    try:
        search("abs('x')", {})
        failures.append(("<extra>", "abs('x')", "raises", "returned"))
    except JMESPathError as e:
        if e.kind != "invalid-type" or not isinstance(e, Exception):
            failures.append(("<extra>", "abs('x')", "invalid-type", e.kind))
    print("== extra hand-written cases: %d cases, %d failures" % (len(EXTRA), len(failures)))
    return failures


def run_slices():
    failures = []
    n_checked = 0
    vals = [None] + list(range(-7, 8))
    for n in range(0, 6):
        doc = list(range(n))
        for a in vals:
            for b in vals:
                for c in [None, 1, 2, 3, -1, -2, -3, 7, -7]:
                    txt = "[%s:%s:%s]" % tuple("" if v is None else v for v in (a, b, c))
                    got = search(txt, doc)
                    n_checked += 1
                    if got != doc[a:b:c]:
                        failures.append(("<slice>", "%s on %r" % (txt, doc),
                                         repr(doc[a:b:c]), repr(got)))
    print("== slices vs Python semantics: %d checked, %d failures" % (n_checked, len(failures)))
    return failures


def run_generator(n_docs=400, per_doc=50, seed=20240607):
    failures = []
    t0 = time.time()
    rng = random.Random(seed)
    kinds = {}
    node_kinds = {}
    fn_called = {}
    fn_ok = {}
    n = n_null = n_err = n_empty = 0
    total_len = 0
    for d in range(n_docs):
        doc = J.gen_document(rng, rng.choice([2, 3, 3, 4]))
        if not is_json_value(doc):
            failures.append(("<gen>", "gen_document", "JSON value", repr(doc)[:200]))
            continue
        snapshot = json.dumps(doc)
        for _ in range(per_doc):
            try:
                expr = J.gen_expression(rng, doc, rng.choice([2, 3, 4, 4]))
            except Exception as e:  # noqa: BLE001
                failures.append(("<gen>", "gen_expression", "no exception",
                                 "%s: %s" % (type(e).__name__, e)))
                continue
            n += 1
            total_len += len(expr)
            try:
                ast = jcompile(expr)
            except JMESPathError as e:
                failures.append(("<gen>", expr, "compiles", repr(e)))
                continue
            except Exception as e:  # noqa: BLE001
                failures.append(("<gen>", expr, "compiles", "%s: %s" % (type(e).__name__, e)))
                continue
            for nd in ast.walk():
                node_kinds[nd.kind] = node_kinds.get(nd.kind, 0) + 1
                if nd.kind == "comparator":
                    node_kinds["cmp:" + nd.value] = node_kinds.get("cmp:" + nd.value, 0) + 1
            if "not" in J.precedence_sensitive(expr):
                failures.append(("<gen>", expr, "no precedence-sensitive '!'", "sensitive"))
            names = J.function_names(ast)
            for f in names:
                fn_called[f] = fn_called.get(f, 0) + 1
            try:
                res = search(ast, doc)
            except JMESPathError as e:
                if e.kind == "syntax" or e.kind not in J.ERROR_KINDS:
                    failures.append(("<gen>", expr, "non-syntax error kind", repr(e)))
                kinds[e.kind] = kinds.get(e.kind, 0) + 1
                n_err += 1
                continue
            except Exception as e:  # noqa: BLE001
                failures.append(("<gen>", expr, "value or JMESPathError",
                                 "%s: %s" % (type(e).__name__, e)))
                continue
            if not is_json_value(res):
                failures.append(("<gen>", expr, "JSON value", repr(res)[:200]))
            for f in names:
                fn_ok[f] = fn_ok.get(f, 0) + 1
            if res is None:
                n_null += 1
            elif res == [] or res == {}:
                n_empty += 1
        if json.dumps(doc) != snapshot:
            failures.append(("<gen>", "<doc %d>" % d, "unchanged", "MUTATED"))
    # coverage requirements
    for f in J.FUNCTIONS:
        if fn_ok.get(f, 0) < 20:
            failures.append(("<gen>", "coverage of %s()" % f, ">= 20 successful evaluations",
                             str(fn_ok.get(f, 0))))
    want_nodes = ["field", "literal", "current", "index", "slice", "index_expression",
                  "subexpression", "pipe", "projection", "value_projection",
                  "filter_projection", "flatten", "comparator", "or", "and", "not",
                  "multi_select_list", "multi_select_hash", "function", "expref",
                  "cmp:eq", "cmp:ne", "cmp:lt", "cmp:lte", "cmp:gt", "cmp:gte"]
    for k in want_nodes:
        if node_kinds.get(k, 0) < 50:
            failures.append(("<gen>", "coverage of node %s" % k, ">= 50", str(node_kinds.get(k, 0))))
    for k in ("invalid-type", "invalid-arity", "unknown-function", "invalid-value"):
        if kinds.get(k, 0) < 5:
            failures.append(("<gen>", "coverage of error %s" % k, ">= 5", str(kinds.get(k, 0))))
    # determinism
    def sample(seed2):
        r = random.Random(seed2)
        out = []
        for _ in range(20):
            dd = J.gen_document(r)
            out.append(json.dumps(dd))
            out.extend(J.gen_expression(r, dd) for _ in range(5))
        return out
    if sample(7) != sample(7):
        failures.append(("<gen>", "determinism", "same output for same seed", "differs"))
    # ambiguous-not switch still yields valid syntax
    r = random.Random(99)
    for _ in range(300):
        dd = J.gen_document(r)
        ex = J.gen_expression(r, dd, 3, allow_ambiguous_not=True)
        try:
            jcompile(ex)
        except JMESPathError as e:
            failures.append(("<gen>", ex, "compiles (allow_ambiguous_not)", repr(e)))
    ok_n = n - n_err
    print("== generator: %d pairs in %.1fs; avg expr length %.1f; errors %d (%s); "
          "of %d values: null %d, empty %d, other %d"
          % (n, time.time() - t0, total_len / max(n, 1), n_err,
             ", ".join("%s=%d" % kv for kv in sorted(kinds.items())),
             ok_n, n_null, n_empty, ok_n - n_null - n_empty))
    print("   functions successfully evaluated (min over all builtins): %d; node kinds seen: %d"
          % (min(fn_ok.get(f, 0) for f in J.FUNCTIONS), len(node_kinds)))
    if n < 20000:
        failures.append(("<gen>", "pair count", ">= 20000", str(n)))
    return failures


def main():
    t0 = time.time()
    failures = []
    failures += run_compliance()
    failures += run_extra()
    failures += run_slices()
    failures += run_generator()
    print("== total time %.1fs" % (time.time() - t0))
    if failures:
        print("FAILURES (%d):" % len(failures))
        for fname, expr, expected, got in failures[:200]:
            print("  [%s] %r\n      expected: %s\n      got:      %s" % (fname, expr, expected, got))
        if len(failures) > 200:
            print("  ... and %d more" % (len(failures) - 200))
        print("RESULT: FAIL")
        return 1
    print("RESULT: ALL OK")
    return 0


if __name__ == "__main__":
    sys.exit(main())
